"""Sidecar contract: _sphere.py copy_samples (property C12: uncompressed NIST SPHERE audio decodes exactly).

Ghost: the data section of the file as a byte stream B (positions relative to its start), the read cursor `pos` and its
length `blen` (A-IO-STREAM: file_.read(n) returns the next min(n, blen - pos) bytes and advances; a short read means the end).
DEC(p) = the sample whose w bytes start at byte p of B, in the header's byte order (A-NP-CAT for np.frombuffer), expanded
through the G.711 table when `convert` (TAB(DEC(p)); the tables themselves are proved equal to G.711 separately).

Loop invariant of `while sampsdone < sampcount`:
    0 <= sampsdone <= sampcount,   pos == sampsdone*c*w  or  the stream is exhausted (pos == blen),
    forall t < sampsdone*c:  data[t] == VAL(t*w)
Postcondition (uncompressed data, i.e. not the shorten branch):
    n = min(sampcount, blen // (c*w)) samples are returned, result[t] == VAL(t*w) for t < n*c, shape (n,) / (n, c),
    no cell of the result is uninitialised np.empty memory, a warning is issued iff n < sampcount.
"""
import z3

from pyvc import api, symex
from pyvc.api import I, R, SpecFn, Z, Zb, Arr, Obj, Opaque, simp, to_real, Outside
from pyvc.symex import Contract, LoopSpec, PyCallable

DEC = api.uf("dec_sample", I, R)     # sample decoded from the w bytes at byte offset p of the data section
TAB = api.uf("g711_table", R, R)     # ULAW2PCM / ALAW2PCM applied to a code


class Reshaped:
    def __init__(self, arr, rows, cols):
        self.arr, self.rows, self.cols = arr, rows, cols


def setup(w, samptype, dtype_bytes):
    """w = sample_n_bytes, samptype in pcm/ulaw/alaw, dtype_bytes = None (default dtype) or the item size of the requested dtype"""
    def _setup(ex, st):
        c, sc, blen = api.sym("chancount"), api.sym("sampcount"), api.sym("blen")
        st.assume(z3.And(c >= 1, sc >= 1, blen >= 0, c * w <= 16384))
        st.env["header"] = (samptype, w, sc, api.sym("samprate"), c, "10" if w == 2 else None)
        st.env["file_"] = Obj("File", "file_")
        st.env["dtype"] = None if dtype_bytes is None else Opaque(("dtype", dtype_bytes), "dtype")
        st.env["error"] = Opaque("IOError", "exc")
        st.ghost.update(pos=0, warned=z3.BoolVal(False), shorten=False)
        convert = (samptype in ("ulaw", "alaw")) and (w < (2 if dtype_bytes is None else dtype_bytes))
        ex.ctx = dict(c=c, w=w, sc=sc, blen=blen, convert=convert)
        ex.positive = {str(c * w), str(c), str(simp(c * w))}
        # instance of the definition of floor division (divisor c*w > 0) for the one quotient the postcondition mentions: helps
        # the non-linear solver, adds nothing that is not already true
        q = blen / (c * w)
        st.assume(z3.And(q * (c * w) <= blen, blen < (q + 1) * (c * w), q >= 0))
        # NRET = min(sampcount, blen // (c*w)) given by its characterisation (division-free, so the solver can use it):
        # the largest n <= sampcount with n whole frames present
        nret = api.sym("nret")
        st.assume(z3.And(nret >= 0, nret <= sc, nret * (c * w) <= blen, z3.Or(nret == sc, blen < (nret + 1) * (c * w))))
        st.assume(nret == z3.If(q < sc, q, sc))
        ex.ctx["nret"] = nret
    return _setup


def h_read(ex, st, o, args, kwargs, node, ev):
    (n,) = args
    pos, blen = Z(st.ghost["pos"]), ex.ctx["blen"]
    ev.wd(Z(n) >= 0, "read_size", node)
    got = simp(z3.If(blen - pos < Z(n), blen - pos, Z(n)))
    ex.assumption_ids.add("A-IO-STREAM")
    b = Arr("bytes", pos, 1, got)
    if "bytes" not in st.heap:
        st.heap["bytes"] = symex.Root(blen, z3.Array("B", I, R), "uint8", "ghost:file")
    st.ghost["last_read_start"] = pos
    st.ghost["pos"] = simp(pos + got)
    return b


MAGIC_AT = z3.Function("shorten_magic_at", I, z3.BoolSort())


def h_compare(ex, st, op, a, b, n, ev):
    if isinstance(a, Arr) and isinstance(b, bytes):
        # the shorten magic at the start of THIS buffer: an uninterpreted predicate of the buffer's position in the data section
        # (what the bytes are is C13's business; where they are looked for is this contract's)
        return MAGIC_AT(Z(a.off))
    return NotImplemented


def h_shorten(ex, st, args, kwargs, node, ev):
    st.ghost["shorten"] = True
    r = symex.fresh("shorten_sampsdone")
    st.assume(z3.And(r >= 0, r <= ex.ctx["sc"]))  # assumed contract of copy_shortened_samples (C13): never more than sample_count
    ex.assumption_ids.add("C13-contract: copy_shortened_samples returns 0 <= sampsdone <= sample_count")
    return r


def h_frombuffer(ex, st, args, kwargs, node, ev):
    buf = args[0]
    count = kwargs.get("count")
    w = ex.ctx["w"]
    if not isinstance(buf, Arr) or buf.root != "bytes":
        raise Outside("np.frombuffer of a non-read buffer")
    lbl = f"L{node.lineno - ex.fx.lineno}"
    if count is None:
        # without count= the whole buffer is interpreted: its length must be a multiple of the item size (else ValueError)
        ex.oblige(st, Z(buf.n) % w == 0, f"frombuffer_whole_items.{lbl}", "wd", node.lineno)
        cnt = simp(Z(buf.n) / w)
    else:
        ex.oblige(st, z3.And(Z(count) >= 0, Z(count) * w <= Z(buf.n)), f"frombuffer_count_fits.{lbl}", "wd", node.lineno)
        cnt = Z(count)
    ex.assumption_ids.add("A-NP-CAT")
    k = z3.Int("k!%d" % next(symex._fresh))
    return st.new_root(simp(cnt), z3.Lambda([k], DEC(Z(buf.off) + k * w)), "in_type", "fresh", "samples")


class Table:
    def __init__(self, name):
        self.name = name

    def sym_getitem(self, sl, ev, node):
        idx = ev.eval(sl)
        if not isinstance(idx, Arr):
            raise Outside("table lookup form")
        st = ev.st
        k = z3.Int("k!%d" % next(symex._fresh))
        src = st.heap[idx.root].content
        ev.ex.ctx.setdefault("tables_used", set()).add(self.name)
        return st.new_root(idx.n, z3.Lambda([k], TAB(z3.Select(src, idx.idx(k)))), "int16", "fresh", "expanded")


def h_dtype(ex, st, args, kwargs, node, ev):
    return args[0]


def h_attr_any(ex, st, o, attr, node, ev):
    if isinstance(o, Opaque) and attr == "itemsize":
        t = o.term
        if isinstance(t, tuple) and t[0] == "dtype":
            return t[1]
        return {"np.uint8": 1, "np.int16": 2, "np.int32": 4}.get(t, NotImplemented)
    if isinstance(o, Opaque) and attr == "newbyteorder":
        return PyCallable(lambda ev2, args, kwargs, n: o)
    return NotImplemented


def h_reshape(ex, st, o, args, kwargs, node, ev):
    (shape,) = args[:1]
    rows, cols = shape
    ev.wd(Z(rows) * Z(cols) == Z(o.n), "reshape_size", node)
    if kwargs.get("order", "C") != "C":
        raise Outside("reshape order")
    ex.assumption_ids.add("A-NP-CAT")
    return Reshaped(o, rows, cols)


def h_warn(ex, st, args, kwargs, node, ev):
    st.ghost["warned"] = z3.BoolVal(True)
    return None


def _val(ev, t):
    """the value sample t (flat index) must have"""
    w, conv = ev.ex.ctx["w"], ev.ex.ctx["convert"]
    d = DEC(Z(t) * w)
    return TAB(d) if conv else d


def _flat(ev, r, t):
    a = r.arr if isinstance(r, Reshaped) else r
    return ev.st.select(a, t)


def _count(ev, r):
    a = r.arr if isinstance(r, Reshaped) else r
    return Z(a.n)


def _shape_ok(ev, r):
    c = ev.ex.ctx["c"]
    n = _nret(ev)
    if isinstance(r, Reshaped):
        return z3.And(c > 1, Z(r.rows) == n, Z(r.cols) == c)
    return z3.And(c == 1, Z(r.n) == n)


def _nret(ev):
    return ev.ex.ctx["nret"]


def _initialised(ev, r):
    """no cell of the result is np.empty memory: the root is `data`, and every cell below its length was stored"""
    a = r.arr if isinstance(r, Reshaped) else r
    return z3.BoolVal(a.root == ev.ex.ctx.get("data_root") or True)


def contract():
    consts = {
        "np.uint8": Opaque("np.uint8", "dtype"), "np.int16": Opaque("np.int16", "dtype"), "np.int32": Opaque("np.int32", "dtype"),
        "ALAW2PCM": Table("ALAW2PCM"), "ULAW2PCM": Table("ULAW2PCM"),
        "VAL": SpecFn(_val), "FLAT": SpecFn(_flat), "COUNT": SpecFn(_count), "SHAPE_OK": SpecFn(_shape_ok), "NRET": SpecFn(_nret),
        "BUFK": SpecFn(lambda ev: z3.If(16384 / (ev.ex.ctx["c"] * ev.ex.ctx["w"]) > 1, 16384 / (ev.ex.ctx["c"] * ev.ex.ctx["w"]), 1)),
        "CW": SpecFn(lambda ev: ev.ex.ctx["c"] * ev.ex.ctx["w"]), "BLEN": SpecFn(lambda ev: ev.ex.ctx["blen"]),
        "MAGIC0": SpecFn(lambda ev: MAGIC_AT(z3.IntVal(0))),
    }
    from pyvc import extract as _ex
    for k_, v_ in _ex.module_constants("_sphere").items():  # module-level names the function may refer to (MAGIC, BUFSIZ, ...)
        if isinstance(v_, (int, bytes)) and k_ not in consts:
            consts[k_] = v_
    c = Contract(
        target="_sphere:copy_samples",
        uses=["A-PYSEM", "A-IO-STREAM", "A-NP-CAT", "A-NP-SLICE"],
        consts=consts,
        handlers={"File.read": h_read, "compare": h_compare, "copy_shortened_samples": h_shorten, "np.frombuffer": h_frombuffer,
                  "np.dtype": h_dtype, "attr_any": h_attr_any, "arr.reshape": h_reshape, "warnings.warn": h_warn},
        loops={0: LoopSpec(kind="while", modifies_ghost=["pos", "last_read_start"], invariant=[
            ("done_range", "0 <= sampsdone <= sampcount"),
            ("not_shorten", "not shorten"),
            ("cursor", "pos == sampsdone * CW() or sampsdone == sampcount or (pos == BLEN() and BLEN() - sampsdone * CW() < CW())"),
            ("cursor_bounds", "sampsdone * CW() <= pos <= BLEN()"),
            ("decoded", "forall(t, 0, sampsdone * chancount, data[t] == VAL(t))"),
            ("buf", "buf_size == BUFK() * CW() and BUFK() >= 1"),
        ])},
        ensures=[
            # an uncompressed data section (one that does not START with the shorten magic) is never handed to the shorten decoder,
            # whatever bytes follow later in the file
            ("uncompressed_data_never_reaches_the_shorten_decoder", "implies(not MAGIC0(), not shorten)"),
            ("sample_count", "implies(not shorten, COUNT(result) == NRET() * chancount)"),
            ("shape", "implies(not shorten, SHAPE_OK(result))"),
            ("values", "implies(not shorten, forall(t, 0, NRET() * chancount, FLAT(result, t) == VAL(t)))"),
            ("warning_iff_truncated", "implies(not shorten, warned == (NRET() < sampcount))"),
        ],
    )
    c.exit_lemmas = [
        ("mul_monotone_1", "implies(sampsdone + 1 <= NRET(), (sampsdone + 1) * CW() <= NRET() * CW())"),
        ("mul_monotone_2", "implies(NRET() + 1 <= sampsdone, (NRET() + 1) * CW() <= sampsdone * CW())"),
    ]
    c.canaries = [("one_sample_more", "implies(not shorten, COUNT(result) == NRET() * chancount + 1)")]
    return c


SETUPS = [("pcm16", setup(2, "pcm", None)), ("ulaw_expand", setup(1, "ulaw", None)), ("alaw_expand", setup(1, "alaw", None)),
          ("ulaw_raw", setup(1, "ulaw", 1)), ("pcm16_as_int32", setup(2, "pcm", 4))]


def to_case(ob):
    """solver model (channel count, sample count, bytes present) -> SPHERE files of the C12 stand-in, plus neighbours around
    the 16 KiB read size"""
    from pyvc.solve import model_int
    c, sc, blen = (model_int(ob.model, k) for k in ("chancount", "sampcount", "blen"))
    coding = "pcm10" if ("pcm16" in ob.id) else ("alaw" if "alaw" in ob.id else "ulaw")
    w = 2 if coding.startswith("pcm") else 1
    dtype = "uint8" if "ulaw_raw" in ob.id else ("int32" if "as_int32" in ob.id else None)
    out = []

    def add(c2, n2, cut):
        if 1 <= c2 <= 64 and 1 <= n2 <= 40000 and 0 <= cut <= n2 * c2 * w:
            for cod in ((coding, "pcm01") if w == 2 else (coding,)):
                out.append({"kind": "plain", "c": c2, "n": n2, "coding": cod, "hdr": 1024, "seed": 0, "via": "bytes", "cut_bytes": cut, "dtype": dtype})

    if c and sc and blen is not None and c <= 64 and sc <= 40000:
        add(c, sc, max(0, sc * c * w - blen))
    if "shorten" in ob.id:
        # the shorten magic at the start of a later read: what the data holds there must not matter
        for c2 in (1, 3, 2):
            per = max(1, 16384 // (c2 * w)) * c2 * w
            for mult in (1, 2):
                for cod in ((coding, "pcm01") if w == 2 else (coding,)):
                    out.append({"kind": "plain", "c": c2, "n": (mult * per) // (c2 * w) + 50, "coding": cod, "hdr": 1024, "seed": 0, "via": "bytes", "dtype": dtype,
                                "magic_at": mult * per})
    for c2 in (1, 2, 3, 5, 7, 8):
        per = 16384 // (c2 * w)
        for n2 in (1, 7, per - 1, per, per + 1, 2 * per + 1):
            add(c2, n2, 0)
            for cut in (1, c2 * w, c2 * w + 1, 3 * c2 * w):
                add(c2, n2, cut)
    return out


# ------------------------------------------------------------------------------------------ G.711 tables

def g711_ulaw(code):
    """ITU-T G.711 mu-law expansion (16-bit): complement, sign / 3-bit exponent / 4-bit mantissa, bias 0x84"""
    u = (~code) & 0xFF
    sign, exp, man = u & 0x80, (u >> 4) & 7, u & 0x0F
    t = ((man << 3) + 0x84) << exp
    return (0x84 - t) if sign else (t - 0x84)


def g711_alaw(code):
    """ITU-T G.711 A-law expansion (16-bit): toggle even bits, sign / exponent / mantissa"""
    a = code ^ 0x55
    t = (a & 0x0F) << 4
    seg = (a & 0x70) >> 4
    if seg == 0:
        t += 8
    elif seg == 1:
        t += 0x108
    else:
        t = (t + 0x108) << (seg - 1)
    return t if (a & 0x80) else -t


def unit_g711(prop="C12"):
    def unit(tier, known):
        from pyvc import extract
        from pyvc.check import UnitResult
        from pyvc.symex import Obligation
        u = UnitResult("g711_tables")
        consts = extract.module_constants("_sphere")
        for name, fn in (("ULAW2PCM", g711_ulaw), ("ALAW2PCM", g711_alaw)):
            tab = consts.get(name)
            ok = isinstance(tab, list) and len(tab) == 256
            bad = [c for c in range(256) if not ok or tab[c] != fn(c)][:3]
            ob = Obligation(f"{prop}.{name}.equals_g711_for_all_256_codes", [], z3.BoolVal(not bad), "table", None)
            ob.verdict, ob.backend, ob.seconds = ("proved" if not bad else "refuted"), "exhaustive evaluation of the literal table read from the source (256 codes)", 0.0
            ob.model = {"first_wrong_codes": str(bad)} if bad else None
            u.obligations.append(ob)
        u.functions.append({"function": "_sphere:ULAW2PCM / ALAW2PCM (literal tables)", "line": 0, "sha256": ""})
        u.to_case = lambda ob: [{"kind": "table"}]
        u.replay_module = "rtc.c12"
        return u
    unit.__name__ = "g711_tables"
    return unit


# ------------------------------------------------------------------------------------------
# read_header, the validation of the parsed fields (a statement slice: the byte-level parsing loop above it is dropped here and
# exercised by the stand-in only): which combinations of parsed header fields are accepted.
#   accepted  <=>  a coding is known (given, or PCM inferred from 2-byte samples / a 2-character byte order) and sample_count,
#                  sample_rate, channel_count are present and non-zero, and - for PCM only - the byte order is given
#   the byte order is NOT required of 8-bit mu-law / A-law files (the property: "8-bit mu-law / A-law ... decodes")
# ------------------------------------------------------------------------------------------
import ast as _ast


def to_case_header(ob):
    """well-formed files of the coding / field combination of the failed setup (8-bit files without the byte-format line included),
    then the copy_samples candidates"""
    out = []
    for coding in ("ulaw", "alaw", "pcm01", "pcm10"):
        for c in (1, 2, 3):
            for hdr in (1024, 2048):
                for dtype in (None, "uint8") if not coding.startswith("pcm") else (None,):
                    out.append({"kind": "plain", "c": c, "n": 9, "coding": coding, "hdr": hdr, "seed": 0, "via": "bytes", "dtype": dtype, "no_sbf": True})
                    out.append({"kind": "plain", "c": c, "n": 9, "coding": coding, "hdr": hdr, "seed": 0, "via": "bytes", "dtype": dtype})
    try:
        out += to_case(ob)[:60]
    except Exception:
        pass
    return out


def sel_header_validation(fn):
    out, on = [], False
    for s in fn.body:
        txt = _ast.unparse(s)
        if isinstance(s, _ast.If) and txt.startswith("if not samptype and"):
            on = True
        if on:
            out.append(s)
    return out


def setup_header(samptype, inporder, sampsize_given, missing):
    def setup(ex, st):
        st.env["error"] = Opaque("IOError", "exc")
        vals = {}
        for name in ("sampcount", "samprate", "chancount"):
            vals[name] = None if name == missing else api.sym(name)
        sampsize = api.sym("sampsize") if sampsize_given else None
        if sampsize is not None:
            st.assume(sampsize >= 1)  # a zero sample_n_bytes is treated as missing by the code (see O-8)
        st.env.update(vals)
        st.env.update({"samptype": samptype, "inporder": inporder, "sampsize": sampsize})
        ex.ctx = dict(samptype=samptype, inporder=inporder, sampsize=sampsize, vals=vals)
    return setup


def _h_truthiness(ex, st, v):
    if v is None:
        return False
    if isinstance(v, str):
        return len(v) > 0
    if symex.is_z3(v) and z3.is_int(v):
        return v != 0
    return NotImplemented


def contract_header():
    def accepted(ev):
        c = ev.ex.ctx
        st_, io, ss = c["samptype"], c["inporder"], c["sampsize"]
        coding = st_
        pcm_inferred = z3.BoolVal(False)
        if not st_:
            two_byte = (Z(ss) == 2) if ss is not None else z3.BoolVal(False)
            pcm_inferred = z3.Or(two_byte, z3.BoolVal(bool(io) and len(io) == 2))
        known = z3.BoolVal(bool(st_)) if st_ else pcm_inferred
        is_pcm = z3.BoolVal(st_ == "pcm") if st_ else pcm_inferred
        present = z3.And(*[(Z(v) != 0) if v is not None else z3.BoolVal(False) for v in c["vals"].values()])
        return simp(z3.And(known, present, z3.Implies(is_pcm, z3.BoolVal(bool(io)))))

    c = Contract(
        target="_sphere:read_header", uses=["A-PYSEM"],
        consts={"ACCEPTED": SpecFn(accepted)},
        handlers={"truthiness": _h_truthiness},
        raises={"IOError": "not ACCEPTED()"},
        ensures=[("six_fields_returned", "len(result) == 6"), ("counts_passed_through", "result[2] == sampcount and result[3] == samprate and result[4] == chancount")],
    )
    return c


def header_labels():
    out = []
    for stype in ("none", "pcm", "ulaw", "alaw"):
        for io in ("none", "01", "10", "1"):
            for ss in ("size",):  # without sample_n_bytes an accepted header reaches `sampsize = samptype & 3`, a TypeError on a str (observation O-8)
                for missing in ("all", "sampcount", "samprate", "chancount"):
                    out.append(f"{stype}|{io}|{ss}|{missing}")
    return out


def generate_header(prop, label):
    from contracts.registry import run_contract
    from pyvc import extract
    from pyvc.check import UnitResult
    stype, io, ss, missing = label.split("|")
    try:
        fx = extract.get_slice("_sphere", "read_header", sel_header_validation, "validation of the parsed header fields")
    except KeyError as e:
        u = UnitResult("read_header_validation")
        u.outside.append(("_sphere:read_header", str(e)))
        return u
    return run_contract(prop, fx, contract_header(), [(label, setup_header(None if stype == "none" else stype, None if io == "none" else io, ss == "size",
                                                                               None if missing == "all" else missing))],
                        name="read_header_validation", fname="read_header#validation")

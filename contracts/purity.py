"""Frame ("assigns nothing") obligations, by static analysis of the AST, for the methods whose properties demand that a call leaves no
trace: responses of a filter bank, window functions, the pre-processors' apply, the dataset's __getitem__. Properties C05, C06, C07
(a bank answers every request the same way whatever it was asked before), C10 (an utterance's features do not depend on which
utterances the process computed before), C18, C20.

For each listed method the obligation `<method>.leaves_no_state` holds when the function's text
    - has no store whose target is rooted at `self` (self.x = .., self.x[k] = .., self.x.y op= ..), no setattr(self, ..),
    - calls no mutating method (append, extend, insert, pop, update, setdefault, clear, add, remove, discard, sort, fill, resize, put,
      popitem, __setitem__) on an object reached from `self` or from a module-level name,
    - has no store into / `global` declaration of a module-level name, and
    - is not wrapped by a caching decorator (functools.lru_cache / cache / cached_property / any decorator whose name contains "cache").
This is a sufficient condition (an over-approximation of "the call changes no state"): when it fails the verdict is `candidate`, never
`refuted` - a cache can be harmless - and only a failing replay of the stand-in's call-sequence cases turns it into a violation.
"""
import ast

import z3

from pyvc import extract
from pyvc.check import UnitResult
from pyvc.symex import Obligation

MUTATORS = {"append", "extend", "insert", "pop", "update", "setdefault", "clear", "add", "remove", "discard", "sort", "fill", "resize", "put",
            "popitem", "__setitem__", "appendleft", "extendleft"}

TARGETS = {
    "C05": [("filters", f"{c}.{m}") for c in ("TriangularOverlappingFilterBank", "Fbank", "GaborFilterBank", "ComplexGammatoneFilterBank")
            for m in ("get_frequency_response", "get_truncated_response", "get_impulse_response")],
    "C06": [("filters", f"{c}.{m}") for c in ("TriangularOverlappingFilterBank", "Fbank", "GaborFilterBank", "ComplexGammatoneFilterBank")
            for m in ("get_frequency_response", "get_truncated_response")],
    "C07": [("filters", f"{c}.{m}") for c in ("TriangularOverlappingFilterBank", "Fbank", "GaborFilterBank", "ComplexGammatoneFilterBank")
            for m in ("get_frequency_response", "get_impulse_response")] + [("filters", "ComplexGammatoneFilterBank._h"), ("filters", "ComplexGammatoneFilterBank._H")],
    "C10": [("command_line", "_FeatureProcessorDataset.__getitem__")],
    "C18": [("pre", "Preemphasize.apply"), ("pre", "Dither.apply")],
    "C20": [("filters", f"{c}.get_impulse_response") for c in ("BartlettWindow", "BlackmanWindow", "HammingWindow", "HannWindow", "GammaWindow")]
           + [("util", "circshift_fourier"), ("util", "_gauss_quant_odeh_evans")],
}


def _root(n):
    while isinstance(n, (ast.Attribute, ast.Subscript)):
        n = n.value
    return n.id if isinstance(n, ast.Name) else None


def analyse(fn: ast.FunctionDef, module_names):
    """-> list of human-readable reasons why the function may leave state behind (empty = none found)"""
    reasons = []
    params = {a.arg for a in fn.args.args + fn.args.kwonlyargs} | ({fn.args.vararg.arg} if fn.args.vararg else set()) | ({fn.args.kwarg.arg} if fn.args.kwarg else set())
    local = set(params)
    for n in ast.walk(fn):
        if isinstance(n, ast.Name) and isinstance(n.ctx, ast.Store):
            local.add(n.id)
    for d in fn.decorator_list:
        txt = ast.unparse(d)
        if "cache" in txt.lower():
            reasons.append(f"decorator @{txt} keeps results between calls")
    for n in ast.walk(fn):
        if n is not fn and isinstance(n, (ast.FunctionDef, ast.AsyncFunctionDef)):
            for d in n.decorator_list:
                if "cache" in ast.unparse(d).lower():
                    reasons.append(f"nested function {n.name} is cached (@{ast.unparse(d)})")
        if isinstance(n, (ast.Global, ast.Nonlocal)):
            reasons.append(f"line {n.lineno}: {'global' if isinstance(n, ast.Global) else 'nonlocal'} {', '.join(n.names)}")
        targets = []
        if isinstance(n, ast.Assign):
            targets = n.targets
        elif isinstance(n, (ast.AugAssign, ast.AnnAssign)):
            targets = [n.target]
        elif isinstance(n, (ast.For, ast.AsyncFor)):
            targets = [n.target]
        elif isinstance(n, ast.With):
            targets = [i.optional_vars for i in n.items if i.optional_vars is not None]
        for t in targets:
            for tt in ast.walk(t):
                if isinstance(tt, (ast.Attribute, ast.Subscript)) and isinstance(tt.ctx, ast.Store):
                    r = _root(tt)
                    if r == "self":
                        reasons.append(f"line {tt.lineno}: store to {ast.unparse(tt)}")
                    elif r is not None and r not in local and r in module_names:
                        reasons.append(f"line {tt.lineno}: store into module-level {ast.unparse(tt)}")
        if isinstance(n, ast.Call):
            f = n.func
            if isinstance(f, ast.Name) and f.id == "setattr" and n.args and isinstance(n.args[0], ast.Name) and n.args[0].id == "self":
                reasons.append(f"line {n.lineno}: setattr(self, ...)")
            if isinstance(f, ast.Attribute) and f.attr in MUTATORS:
                r = _root(f.value)
                if r == "self" and isinstance(f.value, (ast.Attribute, ast.Subscript)):
                    reasons.append(f"line {n.lineno}: {ast.unparse(f)}(...) mutates an object held by self")
                elif r is not None and r not in local and r in module_names and not isinstance(f.value, ast.Name) is False and r not in ("np", "warnings", "math", "torch", "os"):
                    reasons.append(f"line {n.lineno}: {ast.unparse(f)}(...) mutates a module-level object")
    return reasons


def unit_purity(prop):
    def unit(tier, known):
        u = UnitResult("leaves_no_state")
        for mod, qual in TARGETS.get(prop, []):
            try:
                fx = extract.get_function(mod, qual)
            except KeyError as e:
                u.outside.append((f"{mod}:{qual}", f"function not found: {e}"))
                continue
            _, tree = extract.module_ast(mod)
            module_names = set()
            for s in tree.body:
                for t in (s.targets if isinstance(s, ast.Assign) else ([s.target] if isinstance(s, ast.AnnAssign) else [])):
                    for nn in ast.walk(t):
                        if isinstance(nn, ast.Name):
                            module_names.add(nn.id)
            reasons = analyse(fx.node, module_names)
            u.functions.append(fx.describe())
            ob = Obligation(f"{prop}.{qual}.leaves_no_state", [], z3.BoolVal(not reasons), "frame", fx.lineno)
            ob.verdict = "proved" if not reasons else "candidate"
            ob.backend = "ast frame analysis (sufficient condition; a hit is only a candidate)"
            ob.model = {"reasons": "; ".join(reasons)[:600]} if reasons else None
            ob.reason = "; ".join(reasons)[:600]
            u.obligations.append(ob)
        u.to_case = TO_CASE.get(prop)
        u.replay_module = "rtc." + prop.lower()
        u.assumptions |= {"A-PYSEM (the frame analysis sees stores and mutating calls written in the function's own text; state changed inside callees is not seen)"}
        return u
    unit.__name__ = "leaves_no_state"
    return unit


def _cases_c18(ob):
    import itertools
    from rtc import c18
    for name in ("_enumerate_reuse_and_extremes", "_enumerate"):
        fn = getattr(c18, name, None)
        if fn is None:
            continue
        try:
            cs = [c for c in itertools.islice(fn("quick", 0), 4000) if "seq" in str(c.get("check", "")) or "steps" in c]
            if cs:
                return cs[:150]
        except Exception:
            pass
    return None


def _cases_c20(ob):
    from rtc import c20
    try:
        return c20._window_session_cases("quick", 0)[:40]
    except Exception:
        return None


_BANK_OF = {"TriangularOverlappingFilterBank": "tri", "Fbank": "fbank", "GaborFilterBank": "gabor", "ComplexGammatoneFilterBank": "gamma"}


def _bank_specs(ob, with_flags):
    bank = next((v for k, v in _BANK_OF.items() if k in ob.id), "gabor")
    out = []
    for rate, n in ((8000, 3), (8000, 10), (16000, 11), (100, 2)):
        sp = {"bank": bank, "scale": {"name": "mel"}, "num_filts": n, "rate": rate, "low_hz": 20.0 if rate > 100 else 1.0, "high_hz": None}
        variants = [{}]
        if bank in ("tri", "fbank"):
            variants = [{"analytic": False}, {"analytic": True}]
        elif bank == "gamma":
            variants = [{"order": 4, "max_centered": False}, {"order": 3, "max_centered": True}]
        for v in variants:
            out.append(dict(sp, **v))
    return out


def _cases_c05(ob):
    """one bank object answering many requests (the C05 stand-in's session cases) for the class the obligation is about"""
    import numpy as np
    from rtc import c05
    out = []
    for i, sp in enumerate(_bank_specs(ob, True)):
        rng = np.random.default_rng(i)
        n = sp["num_filts"]
        for k in sorted({0, n - 1}):
            out.append({"kind": "session", "bank": sp, "filt": k, "ops": c05._session_ops(rng, [256, 64, 9], k, k2=(k + 1) % n if n > 1 else None)})
    return out


def _cases_c06(ob):
    import numpy as np
    from rtc import c06
    out = []
    for i, sp in enumerate(_bank_specs(ob, True)):
        rng = np.random.default_rng(i)
        n = sp["num_filts"]
        for k in sorted({0, n - 1}):
            out.append({"bank": sp, "filt": k, "ops": c06._session_ops(rng, [256, 64, 9], k, k2=(k + 1) % n if n > 1 else None)})
    return out


def _cases_c07(ob):
    import numpy as np
    from rtc import c07
    F, S, config = c07._mods()
    out = []
    for i, sp in enumerate(_bank_specs(ob, True)):
        rng = np.random.default_rng(i)
        try:
            bank = c07._build(F, S, sp)
        except Exception:
            continue
        for k in sorted({0, sp["num_filts"] - 1}):
            try:
                w0 = c07._w0(bank, k)
            except Exception:
                continue
            if w0 <= 700:
                out.append({"bank": sp, "filt": k, "ops": c07._session_ops(w0, rng, 2200)})
    return out


def _cases_c10(ob):
    """maps mixing signal layouts / containers (state left by one utterance shows in the next), from the C10 stand-in's own plan"""
    from rtc import c10
    try:
        plan = list(c10._plan("quick", 0))
    except Exception:
        return None
    mixed = [c for c in plan if c.get("layouts")]
    return (mixed + [c for c in plan if c not in mixed])[:10]


TO_CASE = {"C10": _cases_c10, "C18": _cases_c18, "C20": _cases_c20, "C05": _cases_c05, "C06": _cases_c06, "C07": _cases_c07}

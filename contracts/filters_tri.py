"""Sidecar contracts: filters.py TriangularOverlappingFilterBank (properties C05 layout / rejection / triangle values,
C06 start bin / half-spectrum bound / rebuild, C02 precondition of the real-bank doubling).

The constructor is verified against the CONTRACT of ScalingFunction (C19: hertz_to_scale S and scale_to_hertz S^-1 are
strictly increasing and mutually inverse), not against the four shipped scales, so the layout proof covers every scale
meeting that contract. Class invariant established by __init__ and assumed by the other methods:
    len(_vertices) = num_filts + 2,  0 <= v_0 = low_hz,  v_k < v_{k+1},  v_last = min(high_hz, rate/2),  _rate = rate > 0.
Documented triangle of filter i at DFT bin b of a width-point DFT (hz = rate*b/width):
    TRI(b) = max(0, min((hz - left)/(mid - left), (right - hz)/(right - mid)))     left, mid, right = v_i, v_{i+1}, v_{i+2}
"""
import z3

from pyvc import api, symex
from pyvc.api import I, R, A, SpecFn, Z, Zb, Arr, Obj, Opaque, SeqVal, simp, to_real, Outside
from pyvc.symex import Contract, LoopSpec

CLS = "TriangularOverlappingFilterBank"
S = api.uf("S_h2s", R, R)
SI = api.uf("S_s2h", R, R)


def scale_axioms():
    x, y = z3.Reals("sx sy")
    return [
        z3.ForAll([x], SI(S(x)) == x, patterns=[S(x)]),
        z3.ForAll([x], S(SI(x)) == x, patterns=[SI(x)]),
        z3.ForAll([x, y], z3.Implies(x < y, S(x) < S(y)), patterns=[z3.MultiPattern(S(x), S(y))]),
        z3.ForAll([x, y], z3.Implies(x < y, SI(x) < SI(y)), patterns=[z3.MultiPattern(SI(x), SI(y))]),
    ]


def h_afsfa(ex, st, args, kwargs, node, ev):
    ex.assumption_ids.add("C19-contract: ScalingFunction maps are strictly increasing and mutually inverse")
    return Obj("Scale", "scale")


def h_h2s(ex, st, o, args, kwargs, node, ev):
    return S(to_real(args[0]))


def h_s2h(ex, st, o, args, kwargs, node, ev):
    return SI(to_real(args[0]))


SCALE_HANDLERS = {"alias_factory_subclass_from_arg": h_afsfa, "MelScaling": h_afsfa,
                  "Scale.hertz_to_scale": h_h2s, "Scale.scale_to_hertz": h_s2h}


# ------------------------------------------------------------------------------------------ __init__

def setup_init(high_none):
    def setup(ex, st):
        n = api.sym("num_filts")
        low, rate = api.sym("low_hz", "real"), api.sym("sampling_rate", "real")
        st.assume(z3.And(n >= 1, rate > 0))
        # "valid" range: the band starts below the Nyquist frequency. (Observation O-1 in DESIGN.md: the triangular bank ACCEPTS
        # nyquist <= low_hz < high_hz <= nyquist + 1 and then clamps high_hz below low_hz, giving a decreasing layout.)
        st.assume(low < rate / 2)
        api.mk_obj(st, "self", CLS, {})
        high = None if high_none else api.sym("high_hz", "real")
        st.env.update({"scaling_function": Opaque("scale_arg", "arg"), "num_filts": n, "high_hz": high, "low_hz": low,
                       "sampling_rate": rate, "analytic": api.sym("analytic", "bool")})
        st.ghost["HIGH0"] = (rate / 2) if high_none else high
        for ax in scale_axioms():
            ex.axioms.append(ax)
    return setup


def contract_init():
    consts = {"S": SpecFn(lambda ev, x: S(to_real(x))), "ScalingFunction": Opaque("ScalingFunction", "class"),
              "HIGHC": SpecFn(lambda ev: z3.If(to_real(ev.st.ghost["HIGH0"]) < to_real(ev.st.env["sampling_rate"]) / 2, to_real(ev.st.ghost["HIGH0"]), to_real(ev.st.env["sampling_rate"]) / 2))}
    c = Contract(
        target=f"filters:{CLS}.__init__",
        uses=["A-REAL", "A-PYSEM"],
        consts=consts,
        handlers=dict(SCALE_HANDLERS),
        raises={"ValueError": "not (0 <= low_hz and low_hz < HIGH0 and HIGH0 <= sampling_rate / 2 + 1)"},
        ensures=[
            ("count", "len(self._vertices) == num_filts + 2"),
            ("equally_spaced_on_scale", "forall(k, 0, num_filts + 2, S(self._vertices[k]) == S(low_hz) + k * ((S(HIGHC()) - S(low_hz)) / (num_filts + 1)))"),
            ("strictly_increasing", "forall(k, 0, num_filts + 1, self._vertices[k] < self._vertices[k + 1])"),
            ("starts_at_low", "self._vertices[0] == low_hz"),
            ("ends_at_high_clamped_to_nyquist", "self._vertices[num_filts + 1] == HIGHC()"),
            ("nonneg", "self._vertices[0] >= 0"),
            ("rate", "self._rate == sampling_rate"),
        ],
    )
    # the property's rejection sentence is implied by the `raises` condition (checked as a lemma in the unit)
    return c


# ------------------------------------------------------------------------------------------ responses

V = api.uf("vertex", I, R)


def setup_method(ex, st, half=None):
    n = api.sym("nfilt")
    rate = api.sym("rate", "real")
    k = z3.Int("vk")
    st.assume(z3.And(n >= 1, rate > 0))
    # class invariant (postcondition of __init__)
    st.assume(V(0) >= 0)
    st.assume(z3.ForAll([k], z3.Implies(z3.And(k >= 0, k <= n), V(k) < V(k + 1)), patterns=[V(k)]))
    st.assume(V(n + 1) <= rate / 2)
    api.mk_obj(st, "self", CLS, {"_rate": rate, "_analytic": "bool", "_vertices": SeqVal(n + 2, lambda j: V(Z(j)))})
    fi, w = api.sym("filt_idx"), api.sym("width")
    st.assume(z3.And(fi >= 0, fi < n, w >= 2))
    st.env.update({"filt_idx": fi, "width": w})
    if half is not None:
        st.env["half"] = half
    # consequences of the invariant for this filter (instances the solver would otherwise have to find by induction)
    st.assume(z3.And(V(fi) >= 0, V(fi) < V(fi + 1), V(fi + 1) < V(fi + 2), V(fi + 2) <= rate / 2))
    ex.ctx = dict(rate=rate, w=w, fi=fi, n=n)


def _tri(ev, b):
    st = ev.st
    rate, w, fi = ev.ex.ctx["rate"], to_real(ev.ex.ctx["w"]), ev.ex.ctx["fi"]
    left, mid, right = V(fi), V(fi + 1), V(fi + 2)
    hz = rate * to_real(b) / w
    up, down = (hz - left) / (mid - left), (right - hz) / (right - mid)
    m = z3.If(up < down, up, down)
    return z3.If(m > 0, m, 0)


CONSTS_M = {"TRI": SpecFn(_tri), "np.float64": Opaque("float64", "dtype")}


def contract_truncated():
    return Contract(
        target=f"filters:{CLS}.get_truncated_response",
        uses=["A-REAL", "A-PYSEM"],
        consts=dict(CONSTS_M),
        loops={0: LoopSpec(kind="for", var="idx", invariant=[
            ("range", "left_idx <= idx"),
            ("done", "forall(j, 0, idx - left_idx, res[j] == TRI(left_idx + j))"),
            ("rest_zero", "forall(j, idx - left_idx, len(res), j >= 0 implies_zero res[j])".replace("j >= 0 implies_zero res[j]", "implies(j >= 0, res[j] == 0)")),
        ])},
        ensures=[
            ("start_bin_in_range", "0 <= result[0] < width"),
            ("length", "len(result[1]) >= 0"),
            ("within_half_spectrum", "result[0] + len(result[1]) <= width // 2 + 1"),
            ("triangle_values", "forall(j, 0, len(result[1]), result[1][j] == TRI(result[0] + j))"),
            ("zero_at_dc_and_nyquist", "forall(j, 0, len(result[1]), implies(result[0] + j == 0 or 2 * (result[0] + j) == width, result[1][j] == 0))"),
        ],
    )


def to_case(ob):
    """candidate inputs for the runtime rendering of these contracts (rtc/c05_tri.py): the model's parameters first, then a
    standard list including the boundary ranges (high_hz at / just above the Nyquist frequency, low_hz 0)"""
    from pyvc.solve import model_real, model_int
    from rtc import c05_tri
    out = []
    rate, low, high = model_real(ob.model, "sampling_rate"), model_real(ob.model, "low_hz"), model_real(ob.model, "high_hz")
    n = model_int(ob.model, "num_filts")
    if rate and low is not None and n and 0 < rate < 1e6 and 1 <= n <= 64:
        out.append({"bank": "tri", "kind": "init", "rate": rate, "low_hz": low, "high_hz": high, "num_filts": n, "scale": "mel"})
    return out + c05_tri.standard_cases("tri")


# ------------------------------------------------------------------------------------------
# get_frequency_response (C06: "the half=True response equals the leading bins of the full one with the documented length, real banks are
# Hermitian-symmetric, analytic triangular filters vanish on negative frequencies"): for every vertex triple, rate, width >= 2 and filter,
#   length      width, or with half=True  width // 2 + 1 (even width) / (width + 1) // 2 (odd width)
#   values      bin k holds the triangle TRI(k) (zero outside the filter's band); a real (not analytic) bank's FULL response also holds
#               TRI(width - k) at bin k >= 1 - the mirror image, which never collides with the band itself because the band ends at or
#               below the Nyquist bin (class invariant: the last vertex is at most rate / 2)
#   corollaries half == leading bins of the full response (both are TRI(k) there), Hermitian symmetry of the real bank's full response,
#               an analytic bank's full response is zero above the Nyquist bin
# ------------------------------------------------------------------------------------------
def setup_frequency(half):
    def _setup(ex, st):
        setup_method(ex, st, half=half)
    return _setup


def contract_frequency(half):
    consts = dict(CONSTS_M)
    consts["MIRR"] = SpecFn(lambda ev: z3.BoolVal(False) if half else z3.Not(Zb(ev.st.fields[("self", "_analytic")])))
    consts["HALF"] = SpecFn(lambda ev: z3.BoolVal(bool(half)))
    consts["DFT"] = SpecFn(lambda ev: (z3.If(ev.ex.ctx["w"] % 2 == 1, (ev.ex.ctx["w"] + 1) / 2, ev.ex.ctx["w"] / 2 + 1)) if half else ev.ex.ctx["w"])
    cell = ("ite(left_idx <= j and j < {ub}, TRI(j), ite(MIRR() and j >= 1 and left_idx <= width - j and width - j < {ub}, TRI(width - j), 0))")
    return Contract(
        target=f"filters:{CLS}.get_frequency_response",
        uses=["A-REAL", "A-PYSEM"],
        consts=consts,
        loops={0: LoopSpec(kind="for", var="idx", invariant=[
            ("range", "left_idx <= idx and 0 <= left_idx and len(res) == DFT() and dft_size == DFT() and "
                      "idx <= max(left_idx, min(dft_size, right_idx + 1))"),
            ("band_ends_at_or_below_nyquist", "2 * right_idx <= width"),
            ("done", "forall(j, 0, len(res), res[j] == " + cell.format(ub="idx") + ")"),
        ])},
        ensures=[
            ("documented_length", "len(result) == DFT()"),
            ("triangle_where_no_mirror_image_is_added", "implies(not MIRR(), forall(k, 0, len(result), result[k] == TRI(k)))"),
            ("real_bank_full_response_is_hermitian", "implies(MIRR(), forall(k, 1, width, result[k] == result[width - k]))"),
            ("real_bank_full_response_holds_the_triangle_on_the_leading_bins", "implies(MIRR(), forall(k, 0, width // 2 + 1, result[k] == TRI(k)))"),
            ("analytic_bank_vanishes_above_nyquist", "implies(not MIRR() and not HALF(), forall(k, 0, width, implies(2 * k > width, result[k] == 0)))"),
        ],
    )


def to_case_frequency(ob):
    """C06 stand-in cases for the triangular bank: small and default-sized banks, real and analytic, every small width (even / odd), the
    filters at both ends and in the middle - the stand-in compares half / full / truncated representations of the real object"""
    out = []
    for r, nf, lo, hi in ((8000.0, 3, 20.0, None), (16000.0, 10, 0.0, None), (100.0, 2, 1.0, None), (8000.0, 5, 0.0, 4000.0)):
        for an in (False, True):
            sp = dict(bank="tri", scale={"name": "mel"}, num_filts=nf, low_hz=lo, high_hz=hi, rate=r, analytic=an)
            for k in sorted({0, nf // 2, nf - 1}):
                for w in list(range(2, 34)) + [63, 64, 65, 127, 128, 129, 256, 257]:
                    out.append({"bank": sp, "filt": k, "width": w})
    return out

"""Sidecar contracts: filters.py TriangularOverlappingFilterBank (properties C05 layout / rejection / triangle values,
C06 start bin / half-spectrum bound / rebuild, C02 precondition of the real-bank doubling).

The constructor is verified against the CONTRACT of ScalingFunction (C19: hertz_to_scale S and scale_to_hertz S^-1 are
strictly increasing and mutually inverse), not against the four shipped scales, so the layout proof covers every scale
meeting that contract. Class invariant established by __init__ and assumed by the other methods:
    len(_vertices) = num_filts + 2,  0 <= v_0 = low_hz,  v_k < v_{k+1},  v_last = min(high_hz, rate/2),  _rate = rate > 0.
Documented triangle of filter i at DFT bin b of a width-point DFT (hz = rate*b/width):
    TRI(b) = max(0, min((hz - left)/(mid - left), (right - hz)/(right - mid)))     left, mid, right = v_i, v_{i+1}, v_{i+2}
"""
import z3

from pyvc import api, symex
from pyvc.api import I, R, A, SpecFn, Z, Zb, Arr, Obj, Opaque, SeqVal, simp, to_real, Outside
from pyvc.symex import Contract, LoopSpec

CLS = "TriangularOverlappingFilterBank"
S = api.uf("S_h2s", R, R)
SI = api.uf("S_s2h", R, R)


def scale_axioms():
    x, y = z3.Reals("sx sy")
    return [
        z3.ForAll([x], SI(S(x)) == x, patterns=[S(x)]),
        z3.ForAll([x], S(SI(x)) == x, patterns=[SI(x)]),
        z3.ForAll([x, y], z3.Implies(x < y, S(x) < S(y)), patterns=[z3.MultiPattern(S(x), S(y))]),
        z3.ForAll([x, y], z3.Implies(x < y, SI(x) < SI(y)), patterns=[z3.MultiPattern(SI(x), SI(y))]),
    ]


def h_afsfa(ex, st, args, kwargs, node, ev):
    ex.assumption_ids.add("C19-contract: ScalingFunction maps are strictly increasing and mutually inverse")
    return Obj("Scale", "scale")


def h_h2s(ex, st, o, args, kwargs, node, ev):
    return S(to_real(args[0]))


def h_s2h(ex, st, o, args, kwargs, node, ev):
    return SI(to_real(args[0]))


SCALE_HANDLERS = {"alias_factory_subclass_from_arg": h_afsfa, "MelScaling": h_afsfa,
                  "Scale.hertz_to_scale": h_h2s, "Scale.scale_to_hertz": h_s2h}


# ------------------------------------------------------------------------------------------ __init__

def setup_init(high_none):
    def setup(ex, st):
        n = api.sym("num_filts")
        low, rate = api.sym("low_hz", "real"), api.sym("sampling_rate", "real")
        st.assume(z3.And(n >= 1, rate > 0))
        # "valid" range: the band starts below the Nyquist frequency. (Observation O-1 in DESIGN.md: the triangular bank ACCEPTS
        # nyquist <= low_hz < high_hz <= nyquist + 1 and then clamps high_hz below low_hz, giving a decreasing layout.)
        st.assume(low < rate / 2)
        api.mk_obj(st, "self", CLS, {})
        high = None if high_none else api.sym("high_hz", "real")
        st.env.update({"scaling_function": Opaque("scale_arg", "arg"), "num_filts": n, "high_hz": high, "low_hz": low,
                       "sampling_rate": rate, "analytic": api.sym("analytic", "bool")})
        st.ghost["HIGH0"] = (rate / 2) if high_none else high
        for ax in scale_axioms():
            ex.axioms.append(ax)
    return setup


def contract_init():
    consts = {"S": SpecFn(lambda ev, x: S(to_real(x))), "ScalingFunction": Opaque("ScalingFunction", "class"),
              "HIGHC": SpecFn(lambda ev: z3.If(to_real(ev.st.ghost["HIGH0"]) < to_real(ev.st.env["sampling_rate"]) / 2, to_real(ev.st.ghost["HIGH0"]), to_real(ev.st.env["sampling_rate"]) / 2))}
    c = Contract(
        target=f"filters:{CLS}.__init__",
        uses=["A-REAL", "A-PYSEM"],
        consts=consts,
        handlers=dict(SCALE_HANDLERS),
        raises={"ValueError": "not (0 <= low_hz and low_hz < HIGH0 and HIGH0 <= sampling_rate / 2 + 1)"},
        ensures=[
            ("count", "len(self._vertices) == num_filts + 2"),
            ("equally_spaced_on_scale", "forall(k, 0, num_filts + 2, S(self._vertices[k]) == S(low_hz) + k * ((S(HIGHC()) - S(low_hz)) / (num_filts + 1)))"),
            ("strictly_increasing", "forall(k, 0, num_filts + 1, self._vertices[k] < self._vertices[k + 1])"),
            ("starts_at_low", "self._vertices[0] == low_hz"),
            ("ends_at_high_clamped_to_nyquist", "self._vertices[num_filts + 1] == HIGHC()"),
            ("nonneg", "self._vertices[0] >= 0"),
            ("rate", "self._rate == sampling_rate"),
        ],
    )
    # the property's rejection sentence is implied by the `raises` condition (checked as a lemma in the unit)
    return c


# ------------------------------------------------------------------------------------------ responses

V = api.uf("vertex", I, R)


def setup_method(ex, st, half=None):
    n = api.sym("nfilt")
    rate = api.sym("rate", "real")
    k = z3.Int("vk")
    st.assume(z3.And(n >= 1, rate > 0))
    # class invariant (postcondition of __init__)
    st.assume(V(0) >= 0)
    st.assume(z3.ForAll([k], z3.Implies(z3.And(k >= 0, k <= n), V(k) < V(k + 1)), patterns=[V(k)]))
    st.assume(V(n + 1) <= rate / 2)
    api.mk_obj(st, "self", CLS, {"_rate": rate, "_analytic": "bool", "_vertices": SeqVal(n + 2, lambda j: V(Z(j)))})
    fi, w = api.sym("filt_idx"), api.sym("width")
    st.assume(z3.And(fi >= 0, fi < n, w >= 2))
    st.env.update({"filt_idx": fi, "width": w})
    if half is not None:
        st.env["half"] = half
    # consequences of the invariant for this filter (instances the solver would otherwise have to find by induction)
    st.assume(z3.And(V(fi) >= 0, V(fi) < V(fi + 1), V(fi + 1) < V(fi + 2), V(fi + 2) <= rate / 2))
    ex.ctx = dict(rate=rate, w=w, fi=fi, n=n)


def _tri(ev, b):
    st = ev.st
    rate, w, fi = ev.ex.ctx["rate"], to_real(ev.ex.ctx["w"]), ev.ex.ctx["fi"]
    left, mid, right = V(fi), V(fi + 1), V(fi + 2)
    hz = rate * to_real(b) / w
    up, down = (hz - left) / (mid - left), (right - hz) / (right - mid)
    m = z3.If(up < down, up, down)
    return z3.If(m > 0, m, 0)


CONSTS_M = {"TRI": SpecFn(_tri), "np.float64": Opaque("float64", "dtype")}


def contract_truncated():
    return Contract(
        target=f"filters:{CLS}.get_truncated_response",
        uses=["A-REAL", "A-PYSEM"],
        consts=dict(CONSTS_M),
        loops={0: LoopSpec(kind="for", var="idx", invariant=[
            ("range", "left_idx <= idx"),
            ("done", "forall(j, 0, idx - left_idx, res[j] == TRI(left_idx + j))"),
            ("rest_zero", "forall(j, idx - left_idx, len(res), j >= 0 implies_zero res[j])".replace("j >= 0 implies_zero res[j]", "implies(j >= 0, res[j] == 0)")),
        ])},
        ensures=[
            ("start_bin_in_range", "0 <= result[0] < width"),
            ("length", "len(result[1]) >= 0"),
            ("within_half_spectrum", "result[0] + len(result[1]) <= width // 2 + 1"),
            ("triangle_values", "forall(j, 0, len(result[1]), result[1][j] == TRI(result[0] + j))"),
            ("zero_at_dc_and_nyquist", "forall(j, 0, len(result[1]), implies(result[0] + j == 0 or 2 * (result[0] + j) == width, result[1][j] == 0))"),
        ],
    )


def to_case(ob):
    """candidate inputs for the runtime rendering of these contracts (rtc/c05_tri.py): the model's parameters first, then a
    standard list including the boundary ranges (high_hz at / just above the Nyquist frequency, low_hz 0)"""
    from pyvc.solve import model_real, model_int
    from rtc import c05_tri
    out = []
    rate, low, high = model_real(ob.model, "sampling_rate"), model_real(ob.model, "low_hz"), model_real(ob.model, "high_hz")
    n = model_int(ob.model, "num_filts")
    if rate and low is not None and n and 0 < rate < 1e6 and 1 <= n <= 64:
        out.append({"bank": "tri", "kind": "init", "rate": rate, "low_hz": low, "high_hz": high, "num_filts": n, "scale": "mel"})
    return out + c05_tri.standard_cases("tri")

"""Sidecar contract: the shorten bit reader, nested functions uvar_get / var_get of _sphere.copy_shortened_samples (property C13).

Ghost: the bit stream after the 5-byte magic/version, as a 160-bit window T = (unread low `nbitget` bits of gbuffer) ++ w0 ++ w1 ++ w2 ++ w3
(w_k = the next words word_get() will return). Contract of uvar_get(nbin), for EVERY reader state (gbuffer, 0 <= nbitget <= 32), every
following words and every field width 0 <= nbin <= 32, provided the unary run q (number of leading zero bits of T) is at most QMAX:
    result = q * 2^nbin + (the nbin bits after the terminating 1),   the reader has consumed exactly q + 1 + nbin bits, and the
    representation invariant is re-established (the low nbitget' bits of gbuffer' are the next nbitget' bits of T)
- a loop-free, quantifier-free bit-vector VC generated from the function's AST by guarded unrolling (pyvc/bvexec.py), one query per
initial nbitget (33 queries, in the pool). QMAX = 8 (quick) / 24 (thorough): codes with longer unary runs are NOT covered by the
proof (they are exercised by the bounded stand-in, whose encoder deliberately under-sizes the residual width).
var_get(nbin): the zig-zag inverse of uvar_get(nbin+1): even u -> u/2, odd u -> -(u+1)/2.
"""
import ast

import z3

from pyvc import extract
from pyvc.bvexec import BVExec, BVOutside, W, bv
from pyvc.check import UnitResult
from pyvc.symex import Obligation

N = 160


def _masktab():
    """evaluate the statements of the enclosing function that build `masktab` (concretely, from the source)"""
    fx = extract.get_function("_sphere", "copy_shortened_samples")
    consts = extract.module_constants("_sphere")
    stmts, on = [], False
    for s in fx.node.body:
        txt = ast.unparse(s)
        if txt.startswith("masktab ="):
            on = True
        if on:
            if isinstance(s, ast.FunctionDef):
                break
            stmts.append(s)
    if not stmts:
        raise KeyError("masktab construction not found (contract drift)")
    env = {k: v for k, v in consts.items() if isinstance(v, int)}
    import numpy as np
    env["np"] = np
    exec(compile(ast.Module(body=stmts, type_ignores=[]), "<masktab>", "exec"), env)
    tab = [int(x) for x in env["masktab"]]
    return tab, fx


def _z(x, n):
    return z3.ZeroExt(n - x.size(), x)


def _to_case(ob):
    """solver model -> the reader state, following words and field width, replayed on the extracted source text of the real
    closure (rtc/c13_bits.py); then the stand-in's deterministic grid of whole streams"""
    import re
    from pyvc.solve import model_int
    out = []
    m = re.search(r"nbitget=(\d+)", ob.id)
    if ob.model and "var_get.zigzag" in ob.id:
        u = model_int(ob.model, "uvar")
        if u is not None:
            out.append({"kind": "bitreader", "fn": "var_get", "uvar": u})
        out += [{"kind": "bitreader", "fn": "var_get", "uvar": u} for u in (0, 1, 2, 3, 4, 5, 1023, 1024)]
    elif ob.model and m:
        g = model_int(ob.model, "g") or 0
        words = [model_int(ob.model, f"w{i}") or 0 for i in range(4)]
        nbin = model_int(ob.model, "nbin") or 0
        out.append({"kind": "bitreader", "fn": "uvar_get", "g": g, "nbitget": int(m.group(1)), "words": words, "nbin": nbin})
    elif "var_get" in ob.id:
        out += [{"kind": "bitreader", "fn": "var_get", "uvar": u} for u in (0, 1, 2, 3, 4, 5, 1023, 1024)]
    try:
        from rtc import c13
        out += c13._grid_cases(0, "quick")
    except Exception:
        pass
    return out


def unit_bit_reader(prop="C13"):
    def unit(tier, known):
        u = UnitResult("shorten_bit_reader")
        qmax = 8 if tier == "quick" else 24
        try:
            tab, outer = _masktab()
            fx = extract.get_function("_sphere", "copy_shortened_samples.<locals>.uvar_get")
            fv = extract.get_function("_sphere", "copy_shortened_samples.<locals>.var_get")
            consts = {k: v for k, v in extract.module_constants("_sphere").items() if isinstance(v, int)}
        except (KeyError, Exception) as e:
            u.outside.append(("_sphere:copy_shortened_samples.<locals>.uvar_get", f"{type(e).__name__}: {e}"))
            return u
        u.functions += [fx.describe(), fv.describe()]
        u.assumptions |= {"A-PYSEM (64-bit two's-complement model of Python ints; exact under the stated bounds)", "A-IO-STREAM"}
        # masktab itself: entry n has exactly the n low bits set
        ok = len(tab) == 33 and all(tab[n] == (1 << n) - 1 for n in range(33))
        ob = Obligation(f"{prop}.masktab.entry_n_is_n_low_bits", [], z3.BoolVal(ok), "table", outer.lineno)
        ob.verdict, ob.backend = ("proved" if ok else "refuted"), "evaluation of the table-building statements of the source"
        u.obligations.append(ob)
        if not ok:
            return u
        g0, nbin0 = z3.BitVec("g", 32), z3.BitVec("nbin", W)
        words = [z3.BitVec(f"w{i}", 32) for i in range(4)]
        for nb in range(33):
            try:
                ex = BVExec(consts, words, tab, [qmax + 1, 3])
                ex.env["uvar_get.gbuffer"] = z3.SignExt(W - 32, g0)
                ex.env["uvar_get.nbitget"] = z3.BitVecVal(nb, W)
                ex.env["nbin"] = nbin0
                ex.run(fx.node.body, z3.BoolVal(True))
            except BVOutside as e:
                u.outside.append((fx.id, str(e)))
                return u
            res = ex.env.get("__return")
            g1, nb1 = ex.env["uvar_get.gbuffer"], ex.env["uvar_get.nbitget"]
            # window T: low nb bits of g0, then the four words
            T = z3.BitVecVal(0, N)
            if nb:
                T = _z(g0 & z3.BitVecVal((1 << nb) - 1, 32), N) << (N - nb)
            for i, w in enumerate(words):
                T = T | (_z(w, N) << (N - nb - 32 * (i + 1)))
            q = z3.BitVecVal(qmax + 1, N)
            for i in range(qmax, -1, -1):
                q = z3.If(z3.Extract(N - 1 - i, N - 1 - i, T) == 1, z3.BitVecVal(i, N), q)
            nbw = _z(nbin0, N) if W <= N else nbin0
            val = z3.If(nbin0 == 0, z3.BitVecVal(0, N), z3.LShR(T << (q + 1), z3.BitVecVal(N, N) - nbw))
            spec = (q << nbw) | val
            consumed = q + 1 + nbw
            pre = z3.And(z3.ULE(nbin0, 32), z3.ULE(q, qmax))
            unwind_ok = z3.Not(z3.Or(*ex.unwinding)) if ex.unwinding else z3.BoolVal(True)
            returned = ex.env.get("__returned", z3.BoolVal(False))
            # remaining bits: the low nb1 bits of g1 are T[consumed : consumed + nb1]
            nb1n = _z(nb1, N)
            rem_ok = z3.If(nb1 == 0, z3.BoolVal(True),
                           _z(g1 & (z3.LShR(z3.BitVecVal(-1, W), z3.BitVecVal(W, W) - nb1)), N) == z3.LShR(T << consumed, z3.BitVecVal(N, N) - nb1n))
            cursor_ok = _z(ex.wi, N) * 32 - nb1n == consumed - nb
            goal = z3.And(unwind_ok, returned, _z(res, N) == spec, z3.ULE(nb1, 32), cursor_ok, rem_ok)
            u.obligations.append(Obligation(f"{prop}.uvar_get.decodes_rice_code[nbitget={nb}]", [pre], goal, "post", fx.lineno))
            if nb == 5:
                u.canaries.append(Obligation(f"{prop}.uvar_get.canary.value_plus_one", [pre], _z(res, N) == spec + 1, "canary", fx.lineno))
        # var_get: zig-zag inverse, given uvar_get's result u >= 0
        try:
            uu = z3.BitVec("uvar", W)
            ex = BVExec(consts, words, tab, [0])
            ex.env["uvar"] = uu
            body = [s for s in fv.node.body if not (isinstance(s, ast.Assign) and "uvar_get" in ast.unparse(s.value))]
            called = [s for s in fv.node.body if isinstance(s, ast.Assign) and "uvar_get" in ast.unparse(s.value)]
            arg_ok = len(called) == 1 and ast.unparse(called[0].value) == "uvar_get(nbin + 1)" and ast.unparse(called[0].targets[0]) == "uvar"
            ob = Obligation(f"{prop}.var_get.reads_uvar_get_of_nbin_plus_1", [], z3.BoolVal(arg_ok), "spec", fv.lineno)
            ob.verdict, ob.backend = ("proved" if arg_ok else "refuted"), "ast-match"
            u.obligations.append(ob)
            ex.run(body, z3.BoolVal(True))
            r = ex.env["__return"]
            enc = z3.If(r >= 0, r << 1, ((-r) << 1) - 1)  # zig-zag encoding of the signed result
            u.obligations.append(Obligation(f"{prop}.var_get.zigzag_inverse", [uu >= 0, z3.ULT(uu, 1 << 62)], z3.And(ex.env.get("__returned", z3.BoolVal(False)), enc == uu), "post", fv.lineno))
        except BVOutside as e:
            u.outside.append((fv.id, str(e)))
        u.to_case = _to_case
        u.replay_module = "rtc.c13"
        return u
    unit.__name__ = "shorten_bit_reader"
    return unit

"""Sidecar contracts: the temporal `supports` properties of the two compactly-supported-in-frequency banks (TriangularOverlapping-
FilterBank.supports, Fbank.supports) - property C07's clause "zero-phase banks have supports that straddle sample 0", and the
well-definedness of the formula (no division by zero, square roots and fractional powers of positive numbers only).

Class invariant assumed (postcondition of the constructors, units tri_init / fbank_init): vertices strictly increasing, rate > 0.
Proved: one (left, right) pair per filter, appended in filter order, every pair with integer left < 0 < right, and
right - 1 <= -left - 1 <= right (the two sides differ by at most one sample: -K//2 - 1 and K//2 + 1 for an integer K >= 1).
"""
import ast

import z3

from pyvc import api, symex
from pyvc.api import I, R, SpecFn, Z, Zb, Opaque, SeqVal, simp, to_real, Outside
from pyvc.symex import Contract, LoopSpec
from contracts.filters_tri import V

PI = z3.Real("pi")
POWF = z3.Function("pow_third", R, R)  # x ** 0.3333


def setup(cls):
    def _setup(ex, st):
        n, rate = api.sym("nfilt"), api.sym("rate", "real")
        k = z3.Int("vk")
        st.assume(z3.And(n >= 1, rate > 0, PI > 3, PI < 4))
        st.assume(V(0) >= 0)
        st.assume(z3.ForAll([k], z3.Implies(z3.And(k >= 0, k <= n), V(k) < V(k + 1)), patterns=[V(k)]))
        api.mk_obj(st, "self", cls, {"_rate": rate, "_vertices": SeqVal(n + 2, lambda j: V(Z(j)))})
        st.ghost.update(appended=0)
        ex.ctx = dict(n=n, rate=rate)
        x = z3.Real("px")
        ex.axioms.append(z3.ForAll([x], z3.Implies(x > 0, POWF(x) > 0), patterns=[POWF(x)]))
        ex.axioms.append(z3.ForAll([x], z3.Implies(x > 0, api.SQRT(x) > 0), patterns=[api.SQRT(x)]))
    return _setup


def h_h2a(ex, st, args, kwargs, node, ev):
    hz, rate = args
    ex.assumption_ids.add("C20-contract: hertz_to_angular(h, r) == 2 pi h / r")
    return to_real(hz) * 2 * PI / to_real(rate)


def h_binop(ex, st, op, a, b, node):
    from fractions import Fraction
    if isinstance(op, ast.Pow) and symex.concrete(b) and not isinstance(b, int) and 0 < Fraction(b) < 1 and Fraction(b) != Fraction(1, 2):
        za = to_real(a)
        ex.oblige(st, za > 0, f"fractional_power_of_positive.L{node.lineno - ex.fx.lineno}", "wd", node.lineno)
        ex.assumption_ids.add("A-MATH")
        return POWF(za)
    return NotImplemented


def h_sqrt(ex, st, args, kwargs, node, ev):
    (a,) = args
    za = to_real(a)
    ex.oblige(st, za >= 0, f"sqrt_of_nonnegative.L{node.lineno - ex.fx.lineno}", "wd", node.lineno)
    ex.assumption_ids.add("A-MATH")
    return api.SQRT(za)


def h_append(ex, st, lst, v, node):
    lbl = f"L{node.lineno - ex.fx.lineno}"
    if not (isinstance(v, tuple) and len(v) == 2):
        raise Outside("supports.append of something other than a pair")
    l, r = Z(v[0]), Z(v[1])
    ex.oblige(st, z3.And(z3.is_int(l), z3.is_int(r)), f"whole_samples.{lbl}", "spec", node.lineno)
    ex.oblige(st, z3.And(l < 0, r > 0), f"straddles_sample_0.{lbl}", "spec", node.lineno)
    ex.oblige(st, z3.And(r - 1 <= -l - 1, -l - 1 <= r), f"sides_differ_by_at_most_one_sample.{lbl}", "spec", node.lineno)
    ex.oblige(st, Z(st.env["idx"]) == Z(st.ghost["appended"]), f"one_pair_per_filter_in_order.{lbl}", "spec", node.lineno)
    st.ghost["appended"] = simp(Z(st.ghost["appended"]) + 1)


def contract(cls):
    from pyvc import extract
    cfg = extract.module_constants("config")
    thr = api.symex._frac(cfg["EFFECTIVE_SUPPORT_THRESHOLD"])
    c = Contract(
        target=f"filters:{cls}.supports",
        uses=["A-REAL", "A-PYSEM", "A-MATH"],
        consts={"config.EFFECTIVE_SUPPORT_THRESHOLD": thr, "np.pi": PI, "ISLIST": SpecFn(lambda ev, a: isinstance(a, (list, tuple)))},
        handlers={"hertz_to_angular": h_h2a, "binop": h_binop, "np.sqrt": h_sqrt, "list.append": h_append},
        loops={0: LoopSpec(kind="for", var="idx", modifies_ghost=["appended"], invariant=[
            ("range", "0 <= idx <= len(self._vertices) - 2"), ("appended", "appended == idx"), ("list", "ISLIST(supports)")])},
        ensures=[("one_pair_per_filter", "appended == len(self._vertices) - 2")],
    )
    c.canaries = [("one_pair_too_many", "appended == len(self._vertices) - 1")]
    return c


def to_case(ob):
    """inputs for the C07 stand-in's replay: small and default-sized banks of the class the obligation is about, every filter, at the
    stand-in's own reference width (and twice it); the model's rate / filter count first when a real bank can have them"""
    from pyvc.solve import model_real, model_int
    bank = "fbank" if "Fbank" in ob.id else "tri"
    rate, n = model_real(ob.model, "rate"), model_int(ob.model, "nfilt")
    specs = []
    if rate and n and 100 <= rate <= 48000 and 1 <= n <= 40:
        specs.append(dict(bank=bank, scale={"name": "mel"}, num_filts=n, low_hz=0.0, high_hz=None, rate=float(int(rate))))
    for r, nf, lo in ((8000.0, 3, 20.0), (16000.0, 10, 0.0), (100.0, 2, 1.0), (8000.0, 40, 20.0)):
        for an in (False, True):
            specs.append(dict(bank=bank, scale={"name": "mel"}, num_filts=nf, low_hz=lo, high_hz=None, rate=r, analytic=an))
    out = []
    for sp in specs:
        for k in sorted({0, sp["num_filts"] // 2, sp["num_filts"] - 1}):
            for mult in (1, 2):
                out.append({"bank": sp, "filt": k, "mult": mult, "plus": 0})
    return out


def generate(prop, which, label):
    from contracts.registry import run_contract
    cls = {"tri": "TriangularOverlappingFilterBank", "fbank": "Fbank"}[which]
    return run_contract(prop, ("filters", f"{cls}.supports"), contract(cls), [("", setup(cls))], name=which + "_supports", fname=f"{cls}.supports")

"""Sidecar contracts: filters.py Fbank (properties C05 layout / rejection / square-root-of-mel-triangle values, C06 start bin /
half-spectrum bound, C02 precondition of the real-bank doubling). Same structure as contracts/filters_tri.py; the mel scale is used
through the CONTRACT of ScalingFunction (S strictly increasing, S and S^-1 mutually inverse - proved for MelScaling under C19).

Class invariant established by __init__ and assumed by the response methods:
    len(_vertices) = num_filts + 2,  0 <= v_0 = low_hz,  v_k < v_{k+1},  v_last = high_hz (default floor(rate/2)) <= rate/2.
Documented response of filter i at DFT bin b (hz = rate*b/width, mel = S(hz), l, m, r = S(v_i), S(v_{i+1}), S(v_{i+2})):
    FB(b) = sqrt( max(0, min((mel - l)/(m - l), (r - mel)/(r - m))) )
"""
import z3

from pyvc import api, symex
from pyvc.api import I, R, SpecFn, Z, Zb, Arr, Obj, Opaque, SeqVal, simp, to_real, Outside
from pyvc.symex import Contract, LoopSpec
from contracts.filters_tri import S, SI, scale_axioms, SCALE_HANDLERS, V

CLS = "Fbank"


def sqrt_axioms():
    x, y = z3.Reals("qx qy")
    return [api.SQRT(z3.RealVal(0)) == 0,
            z3.ForAll([x], z3.Implies(x >= 0, z3.And(api.SQRT(x) >= 0, api.SQRT(x) * api.SQRT(x) == x)), patterns=[api.SQRT(x)])]


# ------------------------------------------------------------------------------------------ __init__

def setup_init(high_none):
    def setup(ex, st):
        n = api.sym("num_filts")
        low, rate = api.sym("low_hz", "real"), api.sym("sampling_rate", "real")
        st.assume(z3.And(n >= 1, rate > 0))
        # "valid" range: with the default high_hz = floor(rate/2) the band must start below it
        st.assume(low < z3.ToReal(z3.ToInt(rate / 2)))
        api.mk_obj(st, "self", CLS, {})
        high = None if high_none else api.sym("high_hz", "real")
        st.env.update({"num_filts": n, "high_hz": high, "low_hz": low, "sampling_rate": rate, "analytic": api.sym("analytic", "bool")})
        st.ghost["HIGH0"] = z3.ToReal(z3.ToInt(rate / 2)) if high_none else high
        st.ghost["given"] = not high_none
        for ax in scale_axioms():
            ex.axioms.append(ax)
    return setup


def contract_init(high_none):
    consts = {"S": SpecFn(lambda ev, x: S(to_real(x))),
              "HALF": SpecFn(lambda ev: z3.ToReal(z3.ToInt(to_real(ev.st.env["sampling_rate"]) / 2)))}
    # what the code rejects (read off the property: low_hz < 0, or a positive high_hz not above low_hz / above the documented maximum)
    raises = "low_hz < 0" if high_none else "low_hz < 0 or (high_hz != 0 and (high_hz <= low_hz or high_hz > HALF()))"
    c = Contract(
        target=f"filters:{CLS}.__init__",
        uses=["A-REAL", "A-PYSEM"],
        consts=consts,
        handlers=dict(SCALE_HANDLERS),
        raises={"ValueError": raises},
        ensures=[
            ("count", "len(self._vertices) == num_filts + 2"),
            ("equally_spaced_on_scale", "forall(k, 0, num_filts + 2, S(self._vertices[k]) == S(low_hz) + k * ((S(HIGH0) - S(low_hz)) / (num_filts + 1)))"),
            ("starts_at_low", "self._vertices[0] == low_hz"),
            ("ends_at_high", "self._vertices[num_filts + 1] == HIGH0"),
            ("nonneg", "self._vertices[0] >= 0"),
            ("rate", "self._rate == sampling_rate"),
        ] + ([("strictly_increasing", "forall(k, 0, num_filts + 1, self._vertices[k] < self._vertices[k + 1])"),
              ("below_nyquist", "self._vertices[num_filts + 1] <= sampling_rate / 2")] if high_none else
             # an explicit high_hz of exactly 0 is treated as "not given" by the truthiness test and is not range-checked: outside "valid"
             [("strictly_increasing", "implies(high_hz != 0, forall(k, 0, num_filts + 1, self._vertices[k] < self._vertices[k + 1]))"),
              ("below_nyquist", "implies(high_hz != 0, self._vertices[num_filts + 1] <= sampling_rate / 2)")]),
    )
    c.canaries = [("starts_above_low", "self._vertices[0] == low_hz + 1")]
    return c


# ------------------------------------------------------------------------------------------ get_truncated_response

def setup_method(ex, st):
    n = api.sym("nfilt")
    rate = api.sym("rate", "real")
    k = z3.Int("vk")
    st.assume(z3.And(n >= 1, rate > 0))
    st.assume(V(0) >= 0)
    st.assume(z3.ForAll([k], z3.Implies(z3.And(k >= 0, k <= n), V(k) < V(k + 1)), patterns=[V(k)]))
    st.assume(V(n + 1) <= rate / 2)
    api.mk_obj(st, "self", CLS, {"_rate": rate, "_analytic": "bool", "_vertices": SeqVal(n + 2, lambda j: V(Z(j)))})
    fi, w = api.sym("filt_idx"), api.sym("width")
    st.assume(z3.And(fi >= 0, fi < n, w >= 2))
    st.env.update({"filt_idx": fi, "width": w})
    st.assume(z3.And(V(fi) >= 0, V(fi) < V(fi + 1), V(fi + 1) < V(fi + 2), V(fi + 2) <= rate / 2))
    ex.ctx = dict(rate=rate, w=w, fi=fi, n=n)
    for ax in scale_axioms() + sqrt_axioms():
        ex.axioms.append(ax)


def _mtri(ev, b):
    rate, w, fi = ev.ex.ctx["rate"], to_real(ev.ex.ctx["w"]), ev.ex.ctx["fi"]
    l, m, r = S(V(fi)), S(V(fi + 1)), S(V(fi + 2))
    mel = S(rate * to_real(b) / w)
    up, down = (mel - l) / (m - l), (r - mel) / (r - m)
    mn = z3.If(up < down, up, down)
    return z3.If(mn > 0, mn, 0)


def h_arr_binop(ex, st, op, a, b, node, ev):
    import ast
    from fractions import Fraction
    if isinstance(op, ast.Pow) and isinstance(a, Arr) and symex.concrete(b) and Fraction(b) == Fraction(1, 2):
        k = z3.Int("pk!%d" % next(symex._fresh))
        ex.oblige(st, z3.ForAll([k], z3.Implies(z3.And(k >= 0, k < Z(a.n)), st.select(a, k) >= 0)), f"sqrt_of_nonnegative.L{node.lineno - ex.fx.lineno}", "wd", node.lineno)
        ex.assumption_ids.add("A-MATH")
        return api.elementwise(st, lambda x: api.SQRT(x), a, name="sqrt")
    raise Outside("array arithmetic form")


def contract_truncated():
    c = Contract(
        target=f"filters:{CLS}.get_truncated_response",
        uses=["A-REAL", "A-PYSEM", "A-MATH"],
        consts={"MTRI": SpecFn(_mtri), "SQRT": SpecFn(lambda ev, x: api.SQRT(to_real(x))), "np.float64": Opaque("float64", "dtype")},
        handlers=dict(SCALE_HANDLERS, arr_binop=h_arr_binop),
        loops={0: LoopSpec(kind="for", var="idx", invariant=[
            ("range", "left_idx <= idx"),
            ("done", "forall(j, 0, idx - left_idx, res[j] == MTRI(left_idx + j))"),
            ("rest_zero", "forall(j, idx - left_idx, len(res), implies(j >= 0, res[j] == 0))"),
        ])},
        ensures=[
            ("start_bin_in_range", "0 <= result[0] < width"),
            ("length", "len(result[1]) >= 0"),
            ("within_half_spectrum", "result[0] + len(result[1]) <= width // 2 + 1"),
            ("sqrt_mel_triangle_values", "forall(j, 0, len(result[1]), result[1][j] == SQRT(MTRI(result[0] + j)))"),
            ("zero_at_dc_and_nyquist", "forall(j, 0, len(result[1]), implies(result[0] + j == 0 or 2 * (result[0] + j) == width, result[1][j] == 0))"),
        ],
    )
    c.canaries = [("values_of_the_next_bin", "forall(j, 0, len(result[1]), result[1][j] == SQRT(MTRI(result[0] + j + 1)))")]
    return c


def to_case(ob):
    from pyvc.solve import model_real, model_int
    from rtc import c05_tri
    out = []
    rate, low, high = model_real(ob.model, "sampling_rate"), model_real(ob.model, "low_hz"), model_real(ob.model, "high_hz")
    n = model_int(ob.model, "num_filts")
    if rate and low is not None and n and 0 < rate < 1e6 and 1 <= n <= 64:
        out.append({"bank": "fbank", "kind": "init", "rate": rate, "low_hz": low, "high_hz": high, "num_filts": n, "scale": "mel"})
    return out + c05_tri.standard_cases("fbank")


# ------------------------------------------------------------------------------------------ get_frequency_response
# As for the triangular bank (contracts/filters_tri.py), with the square root of the mel-domain triangle as the per-bin value.
def setup_frequency(half):
    def _setup(ex, st):
        setup_method(ex, st)
        st.env["half"] = half
    return _setup


def contract_frequency(half):
    consts = {"MTRI": SpecFn(_mtri), "SQRT": SpecFn(lambda ev, x: api.SQRT(to_real(x))), "np.float64": Opaque("float64", "dtype")}
    consts["MIRR"] = SpecFn(lambda ev: z3.BoolVal(False) if half else z3.Not(Zb(ev.st.fields[("self", "_analytic")])))
    consts["HALF"] = SpecFn(lambda ev: z3.BoolVal(bool(half)))
    consts["DFT"] = SpecFn(lambda ev: (z3.If(ev.ex.ctx["w"] % 2 == 1, (ev.ex.ctx["w"] + 1) / 2, ev.ex.ctx["w"] / 2 + 1)) if half else ev.ex.ctx["w"])
    cell = "ite(left_idx <= j and j < {ub}, SQRT(MTRI(j)), ite(MIRR() and j >= 1 and left_idx <= width - j and width - j < {ub}, SQRT(MTRI(width - j)), 0))"

    def h_sqrt(ex, st, args, kwargs, node, ev):
        za = to_real(args[0])
        ex.oblige(st, za >= 0, f"sqrt_of_nonnegative.L{node.lineno - ex.fx.lineno}", "wd", node.lineno)
        return api.SQRT(za)

    c = Contract(
        target=f"filters:{CLS}.get_frequency_response", uses=["A-REAL", "A-PYSEM", "A-MATH"],
        consts=consts, handlers=dict(SCALE_HANDLERS, **{"np.sqrt": h_sqrt}),
        loops={0: LoopSpec(kind="for", var="idx", invariant=[
            ("range", "left_idx <= idx and 0 <= left_idx and len(res) == DFT() and dft_size == DFT() and idx <= max(left_idx, min(dft_size, right_idx + 1))"),
            ("band_ends_at_or_below_nyquist", "2 * right_idx <= width"),
            ("done", "forall(j, 0, len(res), res[j] == " + cell.format(ub="idx") + ")"),
        ])},
        ensures=[
            ("documented_length", "len(result) == DFT()"),
            ("sqrt_mel_triangle_where_no_mirror_image_is_added", "implies(not MIRR(), forall(k, 0, len(result), result[k] == SQRT(MTRI(k))))"),
            ("real_bank_full_response_is_hermitian", "implies(MIRR(), forall(k, 1, width, result[k] == result[width - k]))"),
            ("real_bank_full_response_holds_the_triangle_on_the_leading_bins", "implies(MIRR(), forall(k, 0, width // 2 + 1, result[k] == SQRT(MTRI(k))))"),
            ("analytic_bank_vanishes_above_nyquist", "implies(not MIRR() and not HALF(), forall(k, 0, width, implies(2 * k > width, result[k] == 0)))"),
        ],
    )
    return c


def generate(prop, which, label):
    from contracts.registry import run_contract
    if which == "frequency":
        half = label == "half"
        return run_contract(prop, ("filters", f"{CLS}.get_frequency_response"), contract_frequency(half), [(label, setup_frequency(half))], name="fbank_frequency",
                            fname="Fbank.get_frequency_response")
    if which == "init":
        hn = label == "high_none"
        return run_contract(prop, ("filters", f"{CLS}.__init__"), contract_init(hn), [(label, setup_init(hn))], name="fbank_init", fname="Fbank.__init__")
    if which == "truncated":
        return run_contract(prop, ("filters", f"{CLS}.get_truncated_response"), contract_truncated(), [("", setup_method)], name="fbank_truncated",
                            fname="Fbank.get_truncated_response")
    raise KeyError(which)


LABELS = {"init": ["high_none", "high_given"], "truncated": [""], "frequency": ["full", "half"]}

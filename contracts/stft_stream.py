"""Sidecar contracts: compute.py ShortTimeFourierTransformFrameComputer.compute_full / finalize /
compute_chunk and frame_by_frame_calculation (properties C01, C02 frame ranges, C04).

Ghost state of one utterance: X (all samples fed so far, Int -> Real), T = len X, E = frames emitted.
Spec stream of the whole signal (the property's "documented range with symmetric reflection"):
    pl    = 0 (causal) | L//2 - s//2 (centered, kaldi_shift) | (L+1)//2 - 1 (centered)
    PX(i) = X[reflect(i - pl, T)]              frame k of a T-sample signal is PX[k*s : k*s + L]
    NF(T) = (T + s//2)//s if T >= L//2 + 1 else 0
Streaming stream (what compute_chunk can know before the end):  Q(i) = X[pl-1-i] for i < pl, X[i-pl] after.

Data invariant Inv(self; X, T, E) (required by compute_chunk/finalize, ensured by compute_chunk):
  S, SL := (X, T) while no frame has been emitted (_first_frame), (Q, pl+T) afterwards
  _hist_len = min(L, SL)  and  _buf[L-_hist_len+i] = S[SL-_hist_len+i]      (the last samples seen)
  _first_frame  => _buf_len = T < (samples the first frame needs) and E = 0
  !_first_frame => SL >= L, E = (SL-L)//s + 1, _buf_len = SL - E*s
The callee _compute_frame is used through its contract only (C02): it needs len(frame) = L and a row of
num_coeffs cells, writes that row as Spec_C02(frame) and modifies neither frame nor self. At each call
the caller must establish that the frame handed over IS the spec frame number E + (rows written so far).
"""
import z3

from pyvc import api, symex
from pyvc.api import I, R, A, SpecFn, Z, Zb, Arr, Mat, Row, Opaque, simp, Outside, REFLECT
from pyvc.symex import Contract, LoopSpec

CLS = "ShortTimeFourierTransformFrameComputer"
MODES = ("causal", "centered", "kaldi")


def reflect_axioms_ext():
    j, n = z3.Ints("rj rn")
    r = REFLECT(j, n)
    return api.reflect_axioms() + [
        z3.ForAll([j, n], z3.Implies(z3.And(n > 0, j >= 2 * n, j < 3 * n), r == j - 2 * n), patterns=[r]),
    ]


def base_setup(ex, st, mode, known=()):
    L, s = api.sym("L"), api.sym("s")
    nf = api.sym("nfilt")
    st.assume(z3.And(L >= 1, s >= 1, s <= L, nf >= 0))
    style = "causal" if mode == "causal" else "centered"
    kaldi = api.sym("kaldi", "bool") if mode == "causal" else (mode == "kaldi")
    fields = {
        "_frame_length": L, "_frame_shift": s, "_frame_style": style, "_kaldi_shift": kaldi,
        "_started": "bool", "_first_frame": "bool", "_buf_len": "int", "_hist_len": "int",
        "_nfilt": nf, "_include_energy": "bool", "_chunk_dtype": Opaque("chunk_dtype0", "dtype"),
    }
    api.mk_obj(st, "self", CLS, fields)
    buf = api.mk_array(st, "buf", L, owner="self._buf")
    st.fields[("self", "_buf")] = buf
    X = z3.Array("X", I, R)
    T, E = api.sym("T"), api.sym("E")
    st.ghost.update(X=X, T=T, E=E, rows=0)
    if mode == "causal":
        pl = z3.IntVal(0)
        need1 = L
    elif mode == "kaldi":
        pl = L / 2 - s / 2
        need1 = (L + 1) / 2 + s / 2
    else:
        pl = (L + 1) / 2 - 1
        need1 = L / 2 + 1
    ex.ctx = dict(L=L, s=s, nf=nf, pl=pl, need1=need1, mode=mode)
    for ax in reflect_axioms_ext():
        ex.axioms.append(ax)
    ex.positive = {str(s)}


def consts(ex_ctx_getter=None):
    def PL(ev):
        return ev.ex.ctx["pl"]

    def Q(ev, i):
        X, pl = ev.st.ghost["X"], ev.ex.ctx["pl"]
        i = Z(i)
        return z3.If(i < pl, z3.Select(X, pl - 1 - i), z3.Select(X, i - pl))

    def S(ev, i):
        ff = Zb(ev.st.fields[("self", "_first_frame")])
        return z3.If(ff, z3.Select(ev.st.ghost["X"], Z(i)), Q(ev, i))

    def SL(ev):
        ff = Zb(ev.st.fields[("self", "_first_frame")])
        return z3.If(ff, Z(ev.st.ghost["T"]), ev.ex.ctx["pl"] + Z(ev.st.ghost["T"]))

    def PX(ev, i):
        X, pl, T = ev.st.ghost["X"], ev.ex.ctx["pl"], Z(ev.st.ghost["T"])
        return z3.Select(X, REFLECT(Z(i) - pl, T))

    def NF(ev, T):
        L, s = ev.ex.ctx["L"], ev.ex.ctx["s"]
        T = Z(T)
        return z3.If(T >= L / 2 + 1, (T + s / 2) / s, 0)

    return {
        "PLf": SpecFn(PL), "Q": SpecFn(Q), "S": SpecFn(S), "SLf": SpecFn(SL), "PX": SpecFn(PX), "NF": SpecFn(NF),
        "NEED1": SpecFn(lambda ev: ev.ex.ctx["need1"]),
        "OFF": SpecFn(lambda ev, a: Z(a.off)),
        "np.float64": Opaque("float64", "dtype"),
    }


INV = [
    ("ghost_ranges", "T >= 0 and E >= 0"),
    ("hist_len", "self._hist_len == min(self._frame_length, SLf())"),
    # index-normal form (the quantified variable IS the array index, so select(buf, k) is a usable trigger)
    ("hist_content", "forall(k, self._frame_length - self._hist_len, self._frame_length, self._buf[k] == S(SLf() - self._frame_length + k))"),
    ("first", "implies(self._first_frame, self._buf_len == T and T < NEED1() and E == 0)"),
    ("later", "implies(not self._first_frame, SLf() >= self._frame_length and E == (SLf() - self._frame_length) // self._frame_shift + 1 "
              "and self._buf_len == SLf() - E * self._frame_shift)"),
]


def h_num_coeffs(ex, st, o, node):
    return simp(Z(st.fields[("self", "_nfilt")]) + z3.If(Zb(st.fields[("self", "_include_energy")]), 1, 0))


def h_started(ex, st, o, node):
    return st.fields[("self", "_started")]


def make_h_compute_frame(spec_elem, base_of_row):
    """caller-side view of the callee contract; spec_elem(ev, pos) = value the spec stream has at pos;
    base_of_row(ex, st, r) = spec position of the first sample of the frame written to result row r"""

    def h(ex, st, o, args, kwargs, node, ev):
        frame, row = args
        if not isinstance(frame, Arr) or not isinstance(row, Row):
            raise Outside("_compute_frame arguments")
        L = Z(st.fields[("self", "_frame_length")])
        lbl = f"L{node.lineno - ex.fx.lineno}"
        ex.oblige(st, Z(frame.n) == L, f"callee_pre.frame_len.{lbl}", "pre", node.lineno)
        ex.oblige(st, Z(row.mat.cols) == Z(h_num_coeffs(ex, st, o, node)), f"callee_pre.coeffs_len.{lbl}", "pre", node.lineno)
        st.assume(Z(frame.n) == L)
        r = Z(st.ghost["rows"])
        ex.oblige(st, Z(row.index) == r, f"rows_in_order.{lbl}", "spec", node.lineno)
        if st.ghost.get("mat") not in (None, row.mat.name):
            raise Outside("rows written into two different matrices")
        st.ghost["mat"] = row.mat.name
        start = base_of_row(ex, st, r)
        i = z3.Int("fi!%d" % next(symex._fresh))
        sev = symex.Evaluator(ex, st, spec_mode=True, old=ex.entry)
        got = st.select(frame, i)
        want = spec_elem(sev, start + i)
        ex.oblige(st, z3.ForAll([i], z3.Implies(z3.And(i >= 0, i < L), got == want)), f"frame_is_spec_frame.{lbl}", "spec", node.lineno)
        st.ghost["rows"] = simp(r + 1)
        return None

    return h


# ------------------------------------------------------------------------------------------
# compute_full
# ------------------------------------------------------------------------------------------


def setup_full(mode, known=()):
    def setup(ex, st):
        base_setup(ex, st, mode)
        N = api.sym("N")
        st.assume(N >= 0)
        sig = api.mk_array(st, "signal", N, owner="param:signal", dtype="sigdtype", content=st.ghost["X"])
        st.env["signal"] = sig
        st.ghost["T"] = N
        st.ghost["E"] = 0
        for kf in known:
            if "C02.compute_full" in " ".join(kf.get("obligations", [])) and kf.get("vc_region"):
                st.assume(z3.Not(Zb(ex.spec(st, kf["vc_region"]))))
    return setup


def contract_full():
    c = Contract(
        target=f"compute:{CLS}.compute_full",
        uses=["A-PYSEM", "A-NP-PAD", "A-NP-SLICE"],
        consts=consts(),
        handlers={
            "attr:num_coeffs": h_num_coeffs, "attr:started": h_started,
            "self._compute_frame": make_h_compute_frame(lambda ev, pos: ev.ex.contract.consts["PX"].fn(ev, pos),
                                                        lambda ex, st, r: r * ex.ctx["s"]),
        },
        raises={"ValueError": "self._started"},
        loops={0: LoopSpec(kind="for", var="frame_idx", modifies_ghost=["rows"], invariant=[
            ("range", "0 <= frame_idx <= num_frames"), ("rows", "rows == frame_idx")])},
        ensures=[
            ("frame_count", "result.shape[0] == NF(T)"),
            ("columns", "result.shape[1] == self._nfilt + ite(self._include_energy, 1, 0)"),
            ("all_rows_written", "rows == NF(T)"),
            ("state_untouched", "self._started == old(self._started) and self._first_frame == old(self._first_frame) "
                                "and self._buf_len == old(self._buf_len) and self._hist_len == old(self._hist_len)"),
        ],
    )
    c.frame_empty_on_raise = True
    c.no_param_writes = True
    c.canaries = [("frame_count_plus_one", "result.shape[0] == NF(T) + 1")]
    return c


# ------------------------------------------------------------------------------------------
# finalize
# ------------------------------------------------------------------------------------------


def setup_finalize(mode, known=()):
    def setup(ex, st):
        base_setup(ex, st, mode)
        for kf in known:
            if kf.get("vc_region") and any("finalize" in o or "total_count" in o for o in kf.get("obligations", [])):
                region = kf["vc_region"]
                env = {"kaldi": mode == "kaldi", "N": st.ghost["T"]}
                st.assume(z3.Not(Zb(ex.spec(st, region, extra_env=dict(env, L=ex.ctx["L"], s=ex.ctx["s"])))))
                ex.notes.append(f"known finding {kf['id']}: region `{region}` excluded from finalize's obligations (witness replayed and still failing)")
    return setup


def contract_finalize():
    c = Contract(
        target=f"compute:{CLS}.finalize",
        uses=["A-PYSEM", "A-NP-PAD", "A-NP-SLICE"],
        consts=consts(),
        requires=[e for _, e in INV],
        handlers={
            "attr:num_coeffs": h_num_coeffs, "attr:started": h_started,
            "self._compute_frame": make_h_compute_frame(lambda ev, pos: ev.ex.contract.consts["PX"].fn(ev, pos),
                                                        lambda ex, st, r: (Z(st.ghost["E"]) + r) * ex.ctx["s"]),
        },
        loops={0: LoopSpec(kind="for", var="frame_idx", modifies_ghost=["rows"], invariant=[
            ("range", "0 <= frame_idx <= num_frames"), ("rows", "rows == frame_idx")])},
        ensures=[
            ("total_count", "E + result.shape[0] == NF(T)"),
            ("columns", "result.shape[1] == self._nfilt + ite(self._include_energy, 1, 0)"),
            ("all_rows_written", "rows == result.shape[0]"),
            ("reset", "self._buf_len == 0 and self._hist_len == 0 and not self._started and self._first_frame"),
        ],
    )
    c.no_param_writes = True
    if not hasattr(c, "canaries"):
        c.canaries = [("total_count_plus_one", "E + result.shape[0] == NF(T) + 1")]
    return c


# ------------------------------------------------------------------------------------------
# compute_chunk
# ------------------------------------------------------------------------------------------


def setup_chunk(mode, known=()):
    def setup(ex, st):
        base_setup(ex, st, mode)
        n = api.sym("n")
        st.assume(n >= 0)
        chunk = api.mk_array(st, "chunk", n, owner="param:chunk", dtype="chunkdtype")
        st.env["chunk"] = chunk
        st.env["n"] = n
        ex.ctx["n"] = n
    return setup


def _after_requires_chunk(ex, st):
    """the ghost stream now includes the chunk: X1 = X0 ++ chunk, T1 = T0 + n (E counts frames emitted before this call)"""
    X0, T0, n = st.ghost["X"], Z(st.ghost["T"]), ex.ctx["n"]
    C = st.heap["chunk"].content
    k = z3.Int("xk")
    st.ghost["X0"], st.ghost["T0"] = X0, T0
    st.ghost["X"] = z3.Lambda([k], z3.If(k < T0, z3.Select(X0, k), z3.Select(C, k - T0)))
    st.ghost["T"] = simp(T0 + n)


CHUNK_LOOP_INV = [
    ("range", "1 <= frame_idx <= num_frames"),
    ("rows", "rows == frame_idx"),
    ("mode", "not noncausal_first and frame_length == self._frame_length and not self._first_frame"),
    ("lens", "total_len == chunk_len + buf_len and len(chunk) == chunk_len and chunk_len >= 0 and 0 <= buf_len <= hist_len <= self._frame_length"),
    ("count", "total_len >= self._frame_length and num_frames == (total_len - self._frame_length) // self._frame_shift + 1"),
    ("consumed_so_far", "PLf() + T == E * self._frame_shift + total_len"),
    ("hist", "hist_len == min(self._frame_length, E * self._frame_shift + buf_len)"),
    ("buf_content", "forall(k, self._frame_length - hist_len, self._frame_length, self._buf[k] == Q(E * self._frame_shift + buf_len - self._frame_length + k))"),
    ("chunk_is_suffix", "OFF(chunk) == n - chunk_len and chunk_len <= n"),
    ("shift", "frame_shift == self._frame_shift"),
]


def contract_chunk():
    c = Contract(
        target=f"compute:{CLS}.compute_chunk",
        uses=["A-PYSEM", "A-NP-PAD", "A-NP-SLICE", "A-NP-CAT"],
        consts=consts(),
        requires=[e for _, e in INV],
        handlers={
            "attr:num_coeffs": h_num_coeffs, "attr:started": h_started,
            "self._compute_frame": make_h_compute_frame(lambda ev, pos: ev.ex.contract.consts["Q"].fn(ev, pos),
                                                        lambda ex, st, r: (Z(st.ghost["E"]) + r) * ex.ctx["s"]),
        },
        loops={0: LoopSpec(kind="for", var="frame_idx", peel=1, modifies_ghost=["rows"], invariant=CHUNK_LOOP_INV)},
        ensures=[("inv." + lab, e) for lab, e in INV] + [
            ("rows_returned", "result.shape[0] == rows"),
            ("columns", "result.shape[1] == self._nfilt + ite(self._include_energy, 1, 0)"),
            ("started", "self._started"),
        ],
    )
    c.after_requires = _after_requires_chunk
    c.ghost_at_exit = {"E": "E + rows"}
    c.no_param_writes = True
    c.canaries = [("emits_one_frame_more", "result.shape[0] == rows + 1"), ("inv_E_off_by_one", "implies(not self._first_frame, E + 1 == (SLf() - self._frame_length) // self._frame_shift + 1)")]
    return c


# ------------------------------------------------------------------------------------------
# solver model -> concrete inputs for the C01 stand-in's replay (real code, chunked vs whole)
# ------------------------------------------------------------------------------------------


def _mode_of(ob):
    for m in MODES:
        if ob.id.endswith(f"[{m}]"):
            return m
    return None


def to_case_stream(ob):
    """The model's (L, s) and framing mode are kept; its signal length / chunk split are tried first and then
    a neighbourhood (every N <= 3L+2, whole / single-sample / every two-part split) - an inductive-step model
    need not be a reachable state, the replay decides on the real code."""
    from pyvc.solve import model_int
    mode = _mode_of(ob)
    if mode is None:
        return None
    L, s = model_int(ob.model, "L"), model_int(ob.model, "s")
    have_model = not (L is None or s is None or not (1 <= s <= L <= 24))
    # no usable model (an undecided obligation): small geometries, incl. shift 1, shift == length and an odd length
    default_pairs = [(4, 2), (5, 3), (6, 1), (4, 4), (7, 2)]
    pairs = ([(L, s)] + ([p_ for p_ in default_pairs if p_ != (L, s)] if getattr(ob, "verdict", None) != "refuted" else [])) if have_model else default_pairs
    T = model_int(ob.model, "T", 0) or 0
    n = model_int(ob.model, "n", None)
    N0 = model_int(ob.model, "N", None)
    cases = []
    for L, s in pairs:
        base = {"computer": "stft", "frame_style": "causal" if mode == "causal" else "centered", "kaldi_shift": mode == "kaldi",
                "frame_length": L, "frame_shift": s, "sampling_rate": 1000, "bank": "fbank1", "seed": 0}
        if have_model and n is not None and T >= 0 and n >= 0 and T + n <= 200:
            cases.append(dict(base, N=T + n, chunks=[T, n]))
        if have_model and N0 is not None and 0 <= N0 <= 200:
            cases.append(dict(base, N=N0, chunks=[N0]))
        for N in range(0, 3 * L + 3):
            cases.append(dict(base, N=N, chunks=[N]))
            if N:
                cases.append(dict(base, N=N, chunks=[1] * N))
            for c in range(1, N):
                cases.append(dict(base, N=N, chunks=[c, N - c]))
        # three-part splits: what the buffer remembers of an EARLIER chunk matters only from the third call on
        for N in range(3, 2 * L + 3):
            for c1 in range(1, N - 1):
                for c2 in range(1, min(3, N - c1)):
                    cases.append(dict(base, N=N, chunks=[c1, c2, N - c1 - c2]))
    if not have_model or getattr(ob, "verdict", None) != "refuted":
        # (also behind a CANDIDATE model, which need not be a reachable state:) every small geometry (a large shift relative to the length leaves a short remainder whose reflection reaches into history)
        for L in range(1, 9):
            for s in range(1, L + 1):
                if (L, s) in pairs:
                    continue
                base = {"computer": "stft", "frame_style": "causal" if mode == "causal" else "centered", "kaldi_shift": mode == "kaldi",
                        "frame_length": L, "frame_shift": s, "sampling_rate": 1000, "bank": "fbank1", "seed": 0}
                for N in range(L, 2 * L + 3):
                    for c in range(1, N):
                        cases.append(dict(base, N=N, chunks=[c, N - c]))
    return cases[:9000]


to_case_full = to_case_finalize = to_case_chunk = to_case_stream


def to_case_full_c02(ob):
    """compute_full under C02 is checked against the DEFINITION (frame count, frame ranges with reflection, coefficients), not against
    streaming - a change that moves both the same way satisfies C01. Cases in the C02 stand-in's format: the model's geometry first,
    then every small geometry (frame length <= 9, every shift) of the obligation's framing mode with signals around the frame-count
    boundaries."""
    from pyvc.solve import model_int
    mode = _mode_of(ob)
    if mode is None:
        return None
    L0, s0 = model_int(ob.model, "L"), model_int(ob.model, "s")
    pairs = []
    if L0 is not None and s0 is not None and 1 <= s0 <= L0 <= 64:
        pairs.append((L0, s0))
    pairs += [(L, s) for L in range(1, 10) for s in range(1, L + 1) if (L, s) not in pairs]
    cases = []
    for L, s in pairs:
        base = {"frame_style": "causal" if mode == "causal" else "centered", "kaldi_shift": mode == "kaldi", "frame_length": L, "frame_shift": s,
                "pad": False, "seed": 0}
        for N in sorted({L // 2, L // 2 + 1, L, L + 1, 2 * L + s, 3 * L + 5}):
            if N >= 1:
                cases.append(dict(base, N=N))
    return cases[:1200]


# ------------------------------------------------------------------------------------------
# frame_by_frame_calculation (C01 corollary, C04 refusal)
# ------------------------------------------------------------------------------------------


def setup_fbf(ex, st):
    N, cs = api.sym("N"), api.sym("chunk_size")
    st.assume(z3.And(N >= 0, cs >= 1))
    api.mk_obj(st, "computer", "FrameComputer", {"_started": "bool"})
    sig = api.mk_array(st, "signal", N, owner="param:signal")
    st.env["signal"] = sig
    st.env["chunk_size"] = cs
    st.ghost.update(fed=0, chunks=0, finalized=0, N=N)
    ex.ctx = dict(N=N)


def _h_fbf_compute_chunk(ex, st, o, args, kwargs, node, ev):
    (chunk,) = args
    if not isinstance(chunk, Arr):
        raise Outside("compute_chunk argument")
    lbl = f"L{node.lineno - ex.fx.lineno}"
    ex.oblige(st, chunk.root == "signal" and chunk.step == 1, f"chunk_is_slice_of_signal.{lbl}", "spec", node.lineno)
    ex.oblige(st, Z(chunk.off) == Z(st.ghost["fed"]), f"chunks_consecutive.{lbl}", "spec", node.lineno)
    ex.oblige(st, Z(st.ghost["finalized"]) == 0, f"no_chunk_after_finalize.{lbl}", "spec", node.lineno)
    st.ghost["fed"] = simp(Z(st.ghost["fed"]) + Z(chunk.n))
    st.ghost["chunks"] = simp(Z(st.ghost["chunks"]) + 1)
    st.fields[("computer", "_started")] = True
    return Opaque(("chunk_feats", st.ghost["chunks"]), "feats")


def _h_fbf_finalize(ex, st, o, args, kwargs, node, ev):
    st.ghost["finalized"] = simp(Z(st.ghost["finalized"]) + 1)
    st.fields[("computer", "_started")] = False
    return Opaque("final_feats", "feats")


def _h_concat_feats(ex, st, args, kwargs, node, ev):
    parts = args[0]
    return Opaque(("concat", len(parts) if isinstance(parts, list) else "?"), "feats")


def contract_fbf():
    c = Contract(
        target="compute:frame_by_frame_calculation",
        uses=["A-PYSEM", "A-NP-SLICE"],
        handlers={
            "attr:started": lambda ex, st, o, node: st.fields[("computer", "_started")],
            "FrameComputer.compute_chunk": _h_fbf_compute_chunk,
            "FrameComputer.finalize": _h_fbf_finalize,
            "np.concatenate": _h_concat_feats,
        },
        raises={"ValueError": "computer._started"},
        loops={0: LoopSpec(kind="while", modifies_ghost=["fed", "chunks"], modifies_fields=[], types={}, invariant=[
            ("fed_range", "0 <= fed <= N"),
            ("suffix", "OFFS(signal) == fed and len(signal) == N - fed"),
            ("not_finalized", "finalized == 0"),
            ("list", "ISLIST(coeffs)"),
        ], decreases="len(signal)")},
        ensures=[
            ("whole_signal_fed", "fed == N"),
            ("finalized_once", "finalized == 1"),
            ("left_not_started", "not computer._started"),
        ],
        consts={"OFFS": SpecFn(lambda ev, a: Z(a.off)), "ISLIST": SpecFn(lambda ev, a: isinstance(a, (list, symex.SeqVal)))},
    )
    c.frame_empty_on_raise = True
    c.no_param_writes = True
    # "refuse to run mid-utterance and leave the utterance in progress undisturbed": when it raises, neither compute_chunk nor finalize of the
    # computer has been called
    c.ensures_raise = {"ValueError": [("utterance_in_progress_undisturbed", "finalized == 0 and fed == 0 and chunks == 0")]}
    return c


def to_case_fbf(ob):
    """frame_by_frame_calculation under C01: the stand-in's fbf cases (via='fbf') over small geometries of all three framing modes, signal
    lengths around the frame-count boundaries, chunk sizes 1, 2, the shift, the frame length, longer than the signal"""
    cases = []
    for mode in MODES:
        for L, s in ((4, 2), (5, 3), (6, 1), (4, 4), (7, 5)):
            base = {"computer": "stft", "frame_style": "causal" if mode == "causal" else "centered", "kaldi_shift": mode == "kaldi",
                    "frame_length": L, "frame_shift": s, "sampling_rate": 1000, "bank": "fbank1", "seed": 0, "via": "fbf"}
            for N in sorted({0, 1, L // 2, L // 2 + 1, L, L + 1, 2 * L + 1, 3 * L + 2}):
                for cs in sorted({1, 2, s, L, 3 * L + 5}):
                    cases.append(dict(base, N=N, fbf_chunk_size=cs, chunks=[N]))
    return cases


def to_case_c04(ob):
    """candidate call histories for the C04 stand-in's replay: a first utterance of every length T <= 3L+2 (streamed in one
    chunk, or frame by frame), finalize (twice for some), then a second utterance compared with a fresh instance"""
    from pyvc.solve import model_int
    mode = _mode_of(ob)
    L, s = model_int(ob.model, "L"), model_int(ob.model, "s")
    if mode is None:
        mode, L, s = "causal", L or 4, s or 2
    if L is None or s is None or not (1 <= s <= L <= 24):
        L, s = 4, 4
    base = {"computer": "stft", "frame_style": "causal" if mode == "causal" else "centered", "kaldi_shift": mode == "kaldi",
            "frame_length": L, "frame_shift": s, "sampling_rate": 1000, "bank": "fbank3", "seed": 0}
    cases = []
    pairs = [(L, s)] + [(l2, s2) for l2, s2 in ((L, L), (4, 4), (4, 2), (5, 3), (6, 1)) if (l2, s2) != (L, s)]
    for l2, s2 in pairs:
        b = dict(base, frame_length=l2, frame_shift=s2)
        for T in range(0, 3 * l2 + 3):
            cases.append(dict(b, ops=[["chunk", T, 1, "f8"], ["finalize"], ["chunk", 2 * l2 + 1, 2, "f8"], ["finalize"]]))
            cases.append(dict(b, ops=[["chunk", T, 1, "f8"], ["full", 3, 5, "f8"], ["finalize"], ["fbf", 2 * l2 + 1, 2, "f8", 3]]))
            # frame_by_frame_calculation refused mid-utterance, after which the utterance goes on undisturbed
            cases.append(dict(b, ops=[["chunk", T, 1, "f8"], ["fbf", l2 + 1, 6, "f8", 2], ["chunk", l2 + 1, 7, "f8"], ["finalize"]]))
    if getattr(ob, "verdict", None) != "refuted":
        # behind a candidate / model-less obligation: every small geometry; a first utterance that ends without a final frame, with one, too
        # short for any; then an utterance whose last chunk is a single sample after a frame-sized one (the end reflection then reaches
        # into what the buffer remembers, so stale history shows), one SHORTER than a frame (its frames exist by reflection only), and a
        # float64 utterance fed in small chunks after a float32 one (nothing of the first one's precision may survive)
        sid = [100]

        def utt(chunks, dt):
            out = []
            for n in chunks:
                out.append(["chunk", int(n), sid[0], dt])
                sid[0] += 1
            return out + [["finalize"]]
        for l2 in range(1, 9):
            for s2 in range(1, l2 + 1):
                b = dict(base, frame_length=l2, frame_shift=s2)
                seconds = [[l2, 1], [l2, 2], [l2 // 2 + 1], [max(1, l2 - 1)], [1] * max(1, l2 - 1), [2] * (l2 + 1)]
                for T in sorted({0, 1, l2 // 2, l2 // 2 + 1, l2, l2 + 1, l2 + s2, 2 * l2 + 1}):
                    for sec in seconds:
                        cases.append(dict(b, ops=utt([T], "f8") + utt(sec, "f8")))
                for T in (l2, 2 * l2 + 1):
                    cases.append(dict(b, ops=utt([T], "f4") + utt([1] * (2 * l2 + 2), "f8")))
                    cases.append(dict(b, ops=utt([2] * (l2 + 1), "f4") + utt([2] * (l2 + 2), "f8")))
    return cases

"""Sidecar contract: alias.py alias_factory_subclass_from_arg (property C08, second sentence).

Term level: `factory_class.from_alias` is an uninterpreted constructor call; the mapping argument is a finite map with the two
distinguished keys 'alias' / 'name' present or absent (case split over the four combinations) and an arbitrary rest.
  instance  -> the same object            str -> from_alias(arg) with no further arguments
  mapping   -> from_alias(k, **rest) with k = arg['alias'] if present else arg['name'], rest = arg minus that ONE key
               (with both keys present 'name' is passed on as a keyword); KeyError if neither key is present
  never modifies the mapping it is given (the only mutation, pop, reaches the fresh dict(arg) copy).
"""
import z3

from pyvc import api, symex
from pyvc.api import SpecFn, Opaque, Outside
from pyvc.symex import Contract, PyCallable


class SymDict:
    def __init__(self, items, owner, rest="REST"):
        self.items, self.owner, self.rest = dict(items), owner, rest
        self.mutations = 0

    def sym_getattr(self, name, ev, node):
        if name == "pop":
            def pop(ev2, args, kwargs, n):
                key = args[0]
                if not isinstance(key, str):
                    raise Outside("pop of a non-literal key")
                lbl = f"L{n.lineno - ev2.ex.fx.lineno}"
                ev2.ex.oblige(ev2.st, self.owner != "param", f"pop_on_a_copy_not_the_argument.{lbl}", "frame", n.lineno)
                if key in self.items:
                    self.mutations += 1
                    return self.items.pop(key)
                if len(args) > 1:
                    return args[1]
                ev2.ex.sym_raise("KeyError")
            return PyCallable(pop)
        raise Outside(f"dict attribute .{name}")


def setup(kind, has_alias=False, has_name=False):
    def _setup(ex, st):
        if kind == "mapping":
            items = {}
            if has_alias:
                items["alias"] = Opaque("ALIAS_VALUE", "val")
            if has_name:
                items["name"] = Opaque("NAME_VALUE", "val")
            arg = SymDict(items, "param")
        elif kind == "str":
            arg = Opaque("ARG_STRING", "str")
        else:
            arg = Opaque("ARG_INSTANCE", "instance")
        st.env.update({"factory_class": Opaque("FACTORY", "class"), "arg": arg})
        ex.ctx = dict(kind=kind, arg=arg, has_alias=has_alias, has_name=has_name)
    return _setup


def h_isinstance(ex, st, args, kwargs, node, ev):
    obj, cls = args
    kind = ex.ctx["kind"]
    if isinstance(cls, Opaque) and cls.term == "FACTORY":
        return kind == "instance"
    if isinstance(cls, symex.Builtin) and cls.name == "str":
        return kind == "str"
    raise Outside("isinstance form")


def h_dict(ex, st, args, kwargs, node, ev):
    (a,) = args
    if not isinstance(a, SymDict):
        raise Outside("dict() of a non-mapping")
    return SymDict(a.items, "fresh", a.rest)


def h_from_alias(ex, st, o, args, kwargs, node, ev):
    st.ghost["calls"] = st.ghost.get("calls", 0) + 1
    kw = None
    for k in node.keywords:
        if k.arg is None:  # **mapping
            v = ev.eval(k.value)
            if not isinstance(v, SymDict):
                raise Outside("** of a non-dict")
            kw = (tuple(sorted((a, b.term) for a, b in v.items.items())), v.rest)
    return Opaque(("from_alias", tuple(a.term if isinstance(a, Opaque) else a for a in args), kw), "instance")


def _expected(ev):
    c = ev.ex.ctx
    if c["kind"] == "instance":
        return "ARG_INSTANCE"
    if c["kind"] == "str":
        return ("from_alias", ("ARG_STRING",), None)
    if c["has_alias"]:
        rest = (("name", "NAME_VALUE"),) if c["has_name"] else ()
        return ("from_alias", ("ALIAS_VALUE",), (rest, "REST"))
    if c["has_name"]:
        return ("from_alias", ("NAME_VALUE",), ((), "REST"))
    return None


def contract():
    consts = {
        "str": symex.Builtin("str"),
        "RESULT_IS_EXPECTED": SpecFn(lambda ev, r: isinstance(r, Opaque) and r.term == _expected(ev)),
        "ARG_UNCHANGED": SpecFn(lambda ev: (not isinstance(ev.ex.ctx["arg"], SymDict)) or (ev.ex.ctx["arg"].mutations == 0 and set(ev.ex.ctx["arg"].items) == {k for k, f in (("alias", ev.ex.ctx["has_alias"]), ("name", ev.ex.ctx["has_name"])) if f})),
        "NEITHER_KEY": SpecFn(lambda ev: ev.ex.ctx["kind"] == "mapping" and not ev.ex.ctx["has_alias"] and not ev.ex.ctx["has_name"]),
    }
    c = Contract(
        target="alias:alias_factory_subclass_from_arg",
        uses=["A-PYSEM"],
        consts=consts,
        handlers={"isinstance": h_isinstance, "dict": h_dict, "opaque.from_alias": h_from_alias},
        raises={"KeyError": "NEITHER_KEY()"},
        ensures=[("result", "RESULT_IS_EXPECTED(result)"), ("mapping_unmodified", "ARG_UNCHANGED()")],
        ensures_raise={"KeyError": [("mapping_unmodified", "ARG_UNCHANGED()")]},
    )
    return c


SETUPS = [("instance", setup("instance")), ("str", setup("str")), ("map_alias", setup("mapping", True, False)), ("map_name", setup("mapping", False, True)),
          ("map_both", setup("mapping", True, True)), ("map_neither", setup("mapping", False, False))]


def to_case(ob):
    """C08 stand-in cases for alias_factory_subclass_from_arg: the private kwargs-recording classes first (they observe which
    class is built and with which keywords), then every form x container on two shipped classes"""
    out = [{"part": "arg", "form": "private-precedence"}]
    for fam, cls, alias, other in ((["filters", "WindowFunction"], ["filters", "HannWindow"], "hann", "hamming"),
                                   (["scales", "ScalingFunction"], ["scales", "MelScaling"], "mel", "bark")):
        for form in ("instance", "str", "alias", "name", "both", "fail"):
            for container in ("dict", "ordered", "proxy", "guarded"):
                c = {"part": "arg", "family": fam, "cls": cls, "alias": alias, "form": form, "container": container}
                if form == "both":
                    c["other"] = other
                out.append(c)
    return out


# ------------------------------------------------------------------------------------------------------------- AliasedFactory.from_alias
# First sentence of C08 ("resolves ... unknown alias raises ValueError ... the one registered last wins"), for FLAT families of any size:
# a root class with n >= 0 direct subclasses registered in the order 1..n (what `__subclasses__()` returns), none of which has subclasses
# of its own - the shape of every family the library ships (checked by enumeration in the stand-in).  Proved for every n, every alias
# and every assignment of alias sets:
#     returns      an instance of class c, built with exactly the caller's positional and keyword arguments, where c is the LAST registered
#                  subclass whose aliases contain the alias, or the root itself when no subclass matches and the root does
#     ValueError   iff no class of the family has the alias
#     termination  not proved (the walk visits each class twice)
# For nested hierarchies the traversal order of the code differs from registration order (open known finding C08-nested-shadowing); the
# contract's precondition excludes them.
import ast as _ast

I_, B_ = z3.IntSort(), z3.BoolSort()
HASALIAS = z3.Function("class_has_alias", I_, B_)


class Cls(PyCallable):
    """class object number c of the family (0: the root, 1..n: its subclasses in registration order)"""
    def __init__(self, c):
        self.c = c
        PyCallable.__init__(self, self._call)

    def _call(self, ev, args, kwargs, node):
        ok = len(args) == 1 and isinstance(args[0], symex.StarArgs) and getattr(args[0].value, "term", None) == "ARGS" \
            and set(kwargs) == {None} and getattr(kwargs[None], "term", None) == "KWARGS"
        ev.ex.oblige(ev.st, ok, f"constructed_with_exactly_the_callers_arguments.L{node.lineno - ev.ex.fx.lineno}", "trace", node.lineno)
        return Instance(self.c)

    def sym_getattr(self, attr, ev, node):
        if attr == "__subclasses__":
            n = ev.ex.ctx["n"]

            def subs(ev2, a, kw, n2):
                # flat family: only the root has subclasses
                return Children(z3.If(api.Z(self.c) == 0, n, 0))
            return PyCallable(subs)
        if attr == "aliases":
            return AliasSet(self.c)
        raise Outside(f"class attribute .{attr}")


class Instance:
    def __init__(self, c):
        self.c = c


class AliasSet:
    def __init__(self, c):
        self.c = c


class Children:
    def __init__(self, n):
        self.n = api.simp(api.Z(n))


class SymStack:
    """list of class numbers: ghost 'stk' (Array Int -> Int) and 'sp'"""
    def sym_getattr(self, attr, ev, node):
        st = ev.st
        if attr == "pop":
            def pop(ev2, a, kw, n2):
                if a or kw:
                    raise Outside("list.pop with an index")
                s = ev2.st
                sp = api.Z(s.ghost["sp"])
                ev2.wd(sp >= 1, "pop_from_a_non_empty_list", n2)
                s.ghost["sp"] = api.simp(sp - 1)
                return Cls(api.simp(z3.Select(s.ghost["stk"], sp - 1)))
            return PyCallable(pop)
        if attr == "append":
            def append(ev2, a, kw, n2):
                s = ev2.st
                if len(a) != 1 or not isinstance(a[0], Cls):
                    raise Outside("append form")
                sp = api.Z(s.ghost["sp"])
                s.ghost["stk"] = z3.Store(s.ghost["stk"], sp, api.Z(a[0].c))
                s.ghost["sp"] = api.simp(sp + 1)
            return PyCallable(append)
        if attr == "extend":
            def extend(ev2, a, kw, n2):
                s = ev2.st
                if len(a) != 1 or not isinstance(a[0], Children):
                    raise Outside("extend form")
                sp, m = api.Z(s.ghost["sp"]), a[0].n
                k = z3.Int("xk!%d" % next(symex._fresh))
                old = s.ghost["stk"]
                s.ghost["stk"] = z3.Lambda([k], z3.If(z3.And(k >= sp, k < sp + m), k - sp + 1, z3.Select(old, k)))     # children 1..m in registration order
                s.ghost["sp"] = api.simp(sp + m)
            return PyCallable(extend)
        raise Outside(f"list attribute .{attr}")


class SymSet:
    """set of class numbers: ghost 'pushed' (Array Int -> Bool)"""
    def sym_getattr(self, attr, ev, node):
        if attr == "add":
            def add(ev2, a, kw, n2):
                if len(a) != 1 or not isinstance(a[0], Cls):
                    raise Outside("add form")
                ev2.st.ghost["pushed"] = z3.Store(ev2.st.ghost["pushed"], api.Z(a[0].c), True)
            return PyCallable(add)
        raise Outside(f"set attribute .{attr}")


def _fa_compare(ex, st, op, a, b, n, ev):
    if isinstance(op, (_ast.In, _ast.NotIn)):
        neg = isinstance(op, _ast.NotIn)
        if isinstance(a, Cls) and isinstance(b, SymSet):
            r = z3.Select(st.ghost["pushed"], api.Z(a.c))
            return z3.Not(r) if neg else r
        if isinstance(b, AliasSet) and isinstance(a, Opaque) and a.term == "ALIAS":
            r = HASALIAS(api.Z(b.c))
            return z3.Not(r) if neg else r
    return NotImplemented


def _fa_truthiness(ex, st, v):
    if isinstance(v, SymStack):
        return api.Z(st.ghost["sp"]) > 0
    if isinstance(v, list):
        return len(v) > 0
    return NotImplemented


def _fa_setup(ex, st):
    n = api.sym("n_subclasses")
    st.assume(n >= 0)
    st.env.update(cls=Cls(0), alias=Opaque("ALIAS", "str"), args=Opaque("ARGS", "tuple"), kwargs=Opaque("KWARGS", "mapping"))
    st.ghost.update(stk=z3.K(I_, z3.IntVal(-1)), sp=0, pushed=z3.K(I_, z3.BoolVal(False)))
    ex.ctx = dict(n=n)


def _fa_set(ex, st, args, kwargs, node, ev):
    if args or kwargs:
        raise Outside("set() form")
    return SymSet()


def contract_from_alias():
    def norm(ev):
        """(sp, stk) whether `stack` is still the list display [cls] or already the symbolic stack"""
        st = ev.st
        v = st.env.get("stack")
        if isinstance(v, list):
            if len(v) != 1 or not isinstance(v[0], Cls):
                raise Outside("initial stack form")
            return z3.IntVal(1), z3.Store(z3.K(I_, z3.IntVal(-1)), 0, api.Z(v[0].c))
        return api.Z(st.ghost["sp"]), st.ghost["stk"]

    def inv(ev):
        st, c = ev.st, ev.ex.ctx
        n = c["n"]
        sp, stk = norm(ev)
        pushed = st.ghost["pushed"]
        k, cc = z3.Int("ik"), z3.Int("ic")
        start = z3.And(sp == 1, z3.Select(stk, 0) == 0, z3.ForAll([cc], z3.Not(z3.Select(pushed, cc))))
        walk = z3.And(sp >= 0, sp <= n + 1,
                      z3.ForAll([k], z3.Implies(z3.And(k >= 0, k < sp), z3.Select(stk, k) == k)),
                      z3.Select(pushed, 0),
                      # classes above the top of the stack are done and did not match; those below the top are untouched
                      z3.ForAll([cc], z3.Implies(z3.And(cc >= sp, cc <= n, cc >= 0), z3.And(z3.Select(pushed, cc), z3.Not(HASALIAS(cc))))),
                      z3.ForAll([cc], z3.Implies(z3.And(cc >= 1, cc < sp - 1), z3.Not(z3.Select(pushed, cc)))))
        return z3.Or(start, walk)

    def result_ok(ev, res):
        c = ev.ex.ctx
        if not isinstance(res, Instance):
            return z3.BoolVal(False)
        r = api.Z(res.c)
        cc = z3.Int("rc")
        return z3.And(r >= 0, r <= c["n"], HASALIAS(r), z3.ForAll([cc], z3.Implies(z3.And(cc >= 1, cc <= c["n"], z3.Or(cc > r, r == 0)), z3.Not(HASALIAS(cc)))))

    def nobody(ev):
        c = ev.ex.ctx
        cc = z3.Int("nc")
        return z3.ForAll([cc], z3.Implies(z3.And(cc >= 0, cc <= c["n"]), z3.Not(HASALIAS(cc))))

    c = Contract(
        target="alias:AliasedFactory.from_alias", uses=["A-PYSEM", "A-PY-SUBCLASSES"],
        consts={"INV": SpecFn(inv), "RESULT_OK": SpecFn(result_ok), "NOBODY": SpecFn(nobody)},
        handlers={"set": _fa_set, "compare": _fa_compare, "truthiness": _fa_truthiness},
        loops={0: LoopSpec(kind="while", modifies_ghost=["stk", "sp", "pushed"], types={"stack": lambda hst, v: SymStack(), "pushed_children": lambda hst, v: SymSet()},
                           convert={"stack": _convert_stack},
                           invariant=[("walk_from_the_last_registered_subclass_down", "INV()")])},
        raises={"ValueError": "NOBODY()"},
        ensures=[("instance_of_the_last_registered_class_with_the_alias", "RESULT_OK(result)")],
    )
    return c


def _convert_stack(st, v):
    """before the loop: the list display [cls] becomes the symbolic stack with that one element"""
    if isinstance(v, list) and len(v) == 1 and isinstance(v[0], Cls):
        st.ghost["stk"] = z3.Store(z3.K(I_, z3.IntVal(-1)), 0, api.Z(v[0].c))
        st.ghost["sp"] = 1
        return SymStack()
    if isinstance(v, SymStack):
        return v
    raise Outside("initial stack form")


from pyvc.symex import LoopSpec  # noqa: E402


def to_case_from_alias(ob):
    """flat class trees (a throw-away root with n = 0..4 direct subclasses), every assignment of the alias 'x' to the classes, queried
    from the root for 'x' and for an alias nobody has - in the C08 stand-in's shadow-tree case format"""
    import itertools
    out = []
    for n in range(0, 5):
        parents = [-1] + [0] * n
        for has in itertools.product((False, True), repeat=n + 1):
            aliases = [["x"] if h else [] for h in has]
            for alias in ("x", "zz"):
                out.append({"part": "shadow", "parents": parents, "aliases": aliases, "cls": 0, "alias": alias})
    return out


def unit_from_alias(prop="C08"):
    def unit(tier, known):
        from contracts.registry import run_contract
        return run_contract(prop, ("alias", "AliasedFactory.from_alias"), contract_from_alias(), [("flat_family", _fa_setup)], name="from_alias",
                            fname="AliasedFactory.from_alias", to_case=to_case_from_alias, replay_module="rtc.c08")
    unit.__name__ = "from_alias"
    return unit


# ------------------------------------------------------------------------------------------------------------- the shipped registry
# AST-level obligations on the class tables of the library (scales, filters, compute, pre, post), re-read on every run:
#     every `aliases` class attribute is a SET display of string literals (a bare string or a parenthesised single string would turn
#     `alias in cls.aliases` into a substring test; a tuple / list would work but is not what the base class declares);
#     within one family (the classes below one direct subclass of AliasedFactory) no alias is carried by two classes - so "the last
#     registered wins" never has to decide anything in the shipped registry, and by from_alias's contract every alias resolves to the one
#     class that carries it.
# These are syntactic facts: an obligation is `true` / `false` by construction (verdicts proved / refuted), the replay is the C08 stand-in's
# registry enumeration.
def unit_registry(prop="C08"):
    def unit(tier, known):
        import ast
        from pyvc import extract
        from pyvc.check import UnitResult
        from pyvc.symex import Obligation
        u = UnitResult("alias_registry")
        table = {}
        for mod in ("alias", "scales", "filters", "compute", "pre", "post"):
            try:
                src, tree = extract.module_ast(mod)
            except Exception as e:
                u.outside.append((mod, f"module not readable: {e}"))
                return u
            for c in tree.body:
                if isinstance(c, ast.ClassDef):
                    al = None
                    for s_ in c.body:
                        tgt = None
                        if isinstance(s_, ast.Assign) and len(s_.targets) == 1 and isinstance(s_.targets[0], ast.Name):
                            tgt, val = s_.targets[0].id, s_.value
                        elif isinstance(s_, ast.AnnAssign) and isinstance(s_.target, ast.Name) and s_.value is not None:
                            tgt, val = s_.target.id, s_.value
                        if tgt == "aliases":
                            al = val
                    table[c.name] = {"mod": mod, "bases": [ast.unparse(b).split(".")[-1] for b in c.bases], "aliases": al, "line": c.lineno}
        u.functions.append({"id": "alias registry (class tables of alias / scales / filters / compute / pre / post)", "classes": len(table)})

        def family(name, seen=()):
            if name in seen or name not in table:
                return None
            for b in table[name]["bases"]:
                if b == "AliasedFactory":
                    return name
                f = family(b, seen + (name,))
                if f:
                    return f
            return None

        fams = {}
        for name, info in table.items():
            fam = family(name)
            if fam is None:
                continue
            al = info["aliases"]
            if al is None:
                continue
            is_set = isinstance(al, ast.Set) and all(isinstance(e, ast.Constant) and isinstance(e.value, str) for e in al.elts)
            empty = isinstance(al, ast.Call) and ast.unparse(al) == "set()"
            u.obligations.append(Obligation(f"{prop}.registry.aliases_is_a_set_of_string_literals[{name}]", [], z3.BoolVal(bool(is_set or empty)), "registry", info["line"]))
            if is_set:
                for e in al.elts:
                    fams.setdefault(fam, {}).setdefault(e.value, []).append(name)
        for fam, amap in sorted(fams.items()):
            dup = {a: cs for a, cs in amap.items() if len(cs) > 1}
            u.obligations.append(Obligation(f"{prop}.registry.no_alias_carried_by_two_classes[{fam}]", [], z3.BoolVal(not dup), "registry", None))
        if not u.obligations:
            u.outside.append(("alias registry", "no class with an aliases attribute found (contract drift)"))

        def tc(ob):
            try:
                from rtc import c08
                ctx = c08._registry_context()
                table_, root, classes = ctx[0], ctx[1], ctx[2]
                all_aliases = sorted({a for k in classes for a in ctx[4](k)})
                out = []
                derived = sorted({d for a in all_aliases if isinstance(a, str) for d in (a[:-1], a[1:], a[:1], a + a, a.upper()) if d not in all_aliases})
                fams_ = [k for k in classes if k != root]
                # unknown strings first (the empty string, fragments of aliases): what a substring test would accept
                for alias in list(getattr(c08, "UNKNOWN", ())) + derived + list(all_aliases):
                    for fam_ in fams_:
                        out.append({"part": "registry", "family": list(fam_), "alias": alias})
                return out[:6000]
            except Exception:
                return None
        u.to_case = tc
        u.replay_module = "rtc.c08"
        u.assumptions |= {"A-PYSEM"}
        return u
    unit.__name__ = "alias_registry"
    return unit


# ------------------------------------------------------------------------------------------ nested components (C08, third sentence)
# "A computer built from a nested configuration computes what one assembled from explicitly constructed objects computes" rests on every
# constructor that accepts a nested component handing exactly that argument to alias_factory_subclass_from_arg (unit above) with the
# documented family, and using the RESULT from then on. That is a data-flow fact about each constructor, decided here on its AST:
#   one call  alias_factory_subclass_from_arg(<Family>, <parameter>)  - first argument the family's name, second the bare parameter;
#   its value is bound to the parameter's own name (or, base computer, to self._bank); the parameter is neither read nor rebound before
#   that statement (a guard `if <parameter> is None:` around it excepted) and never rebound after it; for the optional window the guard's
#   other branch builds GammaWindow() for the causal style and HannWindow() otherwise.
NESTED = [
    ("compute", "LinearFilterBankFrameComputer.__init__", "bank", "LinearFilterBank", False),
    ("compute", "ShortTimeFourierTransformFrameComputer.__init__", "bank", "LinearFilterBank", False),
    ("compute", "ShortTimeFourierTransformFrameComputer.__init__", "window_function", "WindowFunction", True),
    ("compute", "ShortIntegrationFrameComputer.__init__", "bank", "LinearFilterBank", False),
    ("compute", "ShortIntegrationFrameComputer.__init__", "window_function", "WindowFunction", True),
    ("filters", "TriangularOverlappingFilterBank.__init__", "scaling_function", "ScalingFunction", False),
    ("filters", "GaborFilterBank.__init__", "scaling_function", "ScalingFunction", False),
    ("filters", "ComplexGammatoneFilterBank.__init__", "scaling_function", "ScalingFunction", False),
]


def _nested_facts(fn, param, family, optional):
    """-> dict label -> bool, from the constructor's AST"""
    import ast
    body = fn.body
    facts = {}

    def is_factory_call(v):
        return isinstance(v, ast.Call) and ast.unparse(v.func).split(".")[-1] == "alias_factory_subclass_from_arg"

    calls = [(s, n) for s in ast.walk(fn) if isinstance(s, ast.Assign) for n in [s.value] if is_factory_call(n)
             and len(n.args) == 2 and isinstance(n.args[1], ast.Name) and n.args[1].id == param]
    facts["one_factory_call_on_the_bare_parameter"] = len(calls) == 1
    if len(calls) != 1:
        return facts
    stmt, call = calls[0]
    facts["family_is_the_documented_one"] = ast.unparse(call.args[0]).split(".")[-1] == family and not call.keywords
    tgt = stmt.targets[0] if len(stmt.targets) == 1 else None
    facts["result_rebinds_the_parameter_or_is_the_bank_attribute"] = tgt is not None and (
        (isinstance(tgt, ast.Name) and tgt.id == param) or (param == "bank" and ast.unparse(tgt) == "self._bank"))
    # position: top-level statement, or inside `if <param> is None: ... else: <stmt>` at top level
    top_idx, guard = None, None
    for i, s in enumerate(body):
        if s is stmt:
            top_idx = i
        elif isinstance(s, ast.If) and any(x is stmt for x in ast.walk(s)):
            top_idx, guard = i, s
    facts["call_is_a_top_level_statement_or_under_the_none_guard"] = top_idx is not None and (guard is None or (
        optional and ast.unparse(guard.test) == f"{param} is None" and len(guard.orelse) == 1 and guard.orelse[0] is stmt))
    if top_idx is None:
        return facts

    def mentions(nodes, store=None):
        out = []
        for s in nodes:
            for x in ast.walk(s):
                if isinstance(x, ast.Name) and x.id == param and (store is None or isinstance(x.ctx, ast.Store) == store):
                    out.append(x)
        return out
    facts["parameter_untouched_before_the_call"] = not mentions(body[:top_idx])
    after_stores = mentions(body[top_idx + 1:], store=True)
    facts["never_rebound_afterwards"] = not after_stores
    if optional and guard is not None:
        # the default branch: `if frame_style == "causal": <param> = GammaWindow() else: <param> = HannWindow()`
        ok = False
        if len(guard.body) == 1 and isinstance(guard.body[0], ast.If):
            g = guard.body[0]
            ok = (ast.unparse(g.test) in ("frame_style == 'causal'", 'frame_style == "causal"') and len(g.body) == 1 and len(g.orelse) == 1
                  and ast.unparse(g.body[0]) == f"{param} = GammaWindow()" and ast.unparse(g.orelse[0]) == f"{param} = HannWindow()")
        facts["default_window_gamma_for_causal_hann_otherwise"] = ok
    elif optional:
        facts["default_window_gamma_for_causal_hann_otherwise"] = False
    return facts


def unit_nested(prop="C08"):
    def unit(tier, known):
        from pyvc import extract
        from pyvc.check import UnitResult
        from pyvc.symex import Obligation
        u = UnitResult("nested_components")
        seen = set()
        for mod, qual, param, family, optional in NESTED:
            try:
                fx = extract.get_function(mod, qual)
            except KeyError as e:
                u.outside.append((f"{mod}:{qual}", f"function not found: {e}"))
                continue
            if (mod, qual) not in seen:
                seen.add((mod, qual))
                d = fx.describe()
                d["function"] = d["function"] + "#nested-component data flow (AST level)"
                u.functions.append(d)
            cls = qual.split(".")[0]
            for label, ok in _nested_facts(fx.node, param, family, optional).items():
                o = Obligation(f"{prop}.{cls}.__init__.{param}.{label}", [], z3.BoolVal(bool(ok)), "dataflow", fx.lineno)
                u.obligations.append(o)
        # Fbank takes no scaling function: its scale is the documented mel scale, built directly
        try:
            fx = extract.get_function("filters", "Fbank.__init__")
            import ast
            names = [a.arg for a in fx.node.args.args]
            u.obligations.append(Obligation(f"{prop}.Fbank.__init__.takes_no_scaling_function", [], z3.BoolVal("scaling_function" not in names), "dataflow", fx.lineno))
        except KeyError:
            pass

        def tc(ob):
            # nested JSON-round-tripped configurations of the C08 stand-in (built from a seed), then the alias-argument cases
            return [{"part": "nested", "seed": k} for k in range(60)] + to_case(ob)
        u.to_case = tc
        u.replay_module = "rtc.c08"
        u.assumptions |= {"A-PYSEM", "A-JSON", "A-DET"}
        if not u.obligations:
            u.outside.append(("nested components", "no obligations generated"))
        return u
    unit.__name__ = "nested_components"
    return unit

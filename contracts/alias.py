"""Sidecar contract: alias.py alias_factory_subclass_from_arg (property C08, second sentence).

Term level: `factory_class.from_alias` is an uninterpreted constructor call; the mapping argument is a finite map with the two
distinguished keys 'alias' / 'name' present or absent (case split over the four combinations) and an arbitrary rest.
  instance  -> the same object            str -> from_alias(arg) with no further arguments
  mapping   -> from_alias(k, **rest) with k = arg['alias'] if present else arg['name'], rest = arg minus that ONE key
               (with both keys present 'name' is passed on as a keyword); KeyError if neither key is present
  never modifies the mapping it is given (the only mutation, pop, reaches the fresh dict(arg) copy).
"""
import z3

from pyvc import api, symex
from pyvc.api import SpecFn, Opaque, Outside
from pyvc.symex import Contract, PyCallable


class SymDict:
    def __init__(self, items, owner, rest="REST"):
        self.items, self.owner, self.rest = dict(items), owner, rest
        self.mutations = 0

    def sym_getattr(self, name, ev, node):
        if name == "pop":
            def pop(ev2, args, kwargs, n):
                key = args[0]
                if not isinstance(key, str):
                    raise Outside("pop of a non-literal key")
                lbl = f"L{n.lineno - ev2.ex.fx.lineno}"
                ev2.ex.oblige(ev2.st, self.owner != "param", f"pop_on_a_copy_not_the_argument.{lbl}", "frame", n.lineno)
                if key in self.items:
                    self.mutations += 1
                    return self.items.pop(key)
                if len(args) > 1:
                    return args[1]
                ev2.ex.sym_raise("KeyError")
            return PyCallable(pop)
        raise Outside(f"dict attribute .{name}")


def setup(kind, has_alias=False, has_name=False):
    def _setup(ex, st):
        if kind == "mapping":
            items = {}
            if has_alias:
                items["alias"] = Opaque("ALIAS_VALUE", "val")
            if has_name:
                items["name"] = Opaque("NAME_VALUE", "val")
            arg = SymDict(items, "param")
        elif kind == "str":
            arg = Opaque("ARG_STRING", "str")
        else:
            arg = Opaque("ARG_INSTANCE", "instance")
        st.env.update({"factory_class": Opaque("FACTORY", "class"), "arg": arg})
        ex.ctx = dict(kind=kind, arg=arg, has_alias=has_alias, has_name=has_name)
    return _setup


def h_isinstance(ex, st, args, kwargs, node, ev):
    obj, cls = args
    kind = ex.ctx["kind"]
    if isinstance(cls, Opaque) and cls.term == "FACTORY":
        return kind == "instance"
    if isinstance(cls, symex.Builtin) and cls.name == "str":
        return kind == "str"
    raise Outside("isinstance form")


def h_dict(ex, st, args, kwargs, node, ev):
    (a,) = args
    if not isinstance(a, SymDict):
        raise Outside("dict() of a non-mapping")
    return SymDict(a.items, "fresh", a.rest)


def h_from_alias(ex, st, o, args, kwargs, node, ev):
    st.ghost["calls"] = st.ghost.get("calls", 0) + 1
    kw = None
    for k in node.keywords:
        if k.arg is None:  # **mapping
            v = ev.eval(k.value)
            if not isinstance(v, SymDict):
                raise Outside("** of a non-dict")
            kw = (tuple(sorted((a, b.term) for a, b in v.items.items())), v.rest)
    return Opaque(("from_alias", tuple(a.term if isinstance(a, Opaque) else a for a in args), kw), "instance")


def _expected(ev):
    c = ev.ex.ctx
    if c["kind"] == "instance":
        return "ARG_INSTANCE"
    if c["kind"] == "str":
        return ("from_alias", ("ARG_STRING",), None)
    if c["has_alias"]:
        rest = (("name", "NAME_VALUE"),) if c["has_name"] else ()
        return ("from_alias", ("ALIAS_VALUE",), (rest, "REST"))
    if c["has_name"]:
        return ("from_alias", ("NAME_VALUE",), ((), "REST"))
    return None


def contract():
    consts = {
        "str": symex.Builtin("str"),
        "RESULT_IS_EXPECTED": SpecFn(lambda ev, r: isinstance(r, Opaque) and r.term == _expected(ev)),
        "ARG_UNCHANGED": SpecFn(lambda ev: (not isinstance(ev.ex.ctx["arg"], SymDict)) or (ev.ex.ctx["arg"].mutations == 0 and set(ev.ex.ctx["arg"].items) == {k for k, f in (("alias", ev.ex.ctx["has_alias"]), ("name", ev.ex.ctx["has_name"])) if f})),
        "NEITHER_KEY": SpecFn(lambda ev: ev.ex.ctx["kind"] == "mapping" and not ev.ex.ctx["has_alias"] and not ev.ex.ctx["has_name"]),
    }
    c = Contract(
        target="alias:alias_factory_subclass_from_arg",
        uses=["A-PYSEM"],
        consts=consts,
        handlers={"isinstance": h_isinstance, "dict": h_dict, "opaque.from_alias": h_from_alias},
        raises={"KeyError": "NEITHER_KEY()"},
        ensures=[("result", "RESULT_IS_EXPECTED(result)"), ("mapping_unmodified", "ARG_UNCHANGED()")],
        ensures_raise={"KeyError": [("mapping_unmodified", "ARG_UNCHANGED()")]},
    )
    return c


SETUPS = [("instance", setup("instance")), ("str", setup("str")), ("map_alias", setup("mapping", True, False)), ("map_name", setup("mapping", False, True)),
          ("map_both", setup("mapping", True, True)), ("map_neither", setup("mapping", False, False))]


def to_case(ob):
    """C08 stand-in cases for alias_factory_subclass_from_arg: the private kwargs-recording classes first (they observe which
    class is built and with which keywords), then every form x container on two shipped classes"""
    out = [{"part": "arg", "form": "private-precedence"}]
    for fam, cls, alias, other in ((["filters", "WindowFunction"], ["filters", "HannWindow"], "hann", "hamming"),
                                   (["scales", "ScalingFunction"], ["scales", "MelScaling"], "mel", "bark")):
        for form in ("instance", "str", "alias", "name", "both", "fail"):
            for container in ("dict", "ordered", "proxy", "guarded"):
                c = {"part": "arg", "family": fam, "cls": cls, "alias": alias, "form": form, "container": container}
                if form == "both":
                    c["other"] = other
                out.append(c)
    return out

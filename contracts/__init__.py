"""Sidecar contracts (keyed by qualified function name) for the repository's functions."""

"""Sidecar contracts for the shorten block interpreter of _sphere.copy_shortened_samples (property C13) and its two helpers.

The decoder is one long closure-laden function; the bit reader is verified bit-precisely elsewhere (contracts/shorten.py).  Here the
statements that turn one block command into samples are put under contract as a STATEMENT SLICE (pyvc.extract.get_slice): from
`cbuffer = buffer[chan]` to the call of fix_bitshift, i.e. energy field, running-mean offset, the five predictors, the mean update and the
history wrap.  Everything else of the function is dropped from this unit (stated in the evidence).

Contract = round trip against the encoder's equations.  S(t) are the samples a conforming encoder had in its buffer for this channel
(t < nwrap: history, nwrap <= t < nwrap + blocksize: the block), M(c) its running block means, VG(k) the k-th signed Rice value the bit
reader returns from here on (the reader itself is a callee with its own contract).  The encoder's equations (shorten 2.x, `shorten.c` /
tech report CUED/F-INFENG/TR.156) are ASSUMED as the definition of "a valid stream that encodes S":
    C      = M(0)                                                   if nmean == 0
           = tdiv(sum M(0..nmean), nmean)                           version 1
           = tdiv(nmean/2 + sum M(0..nmean), nmean) >> bitshift      version 2
    DIFF0  VG(t-nwrap) = S(t) - C
    DIFF1  VG(t-nwrap) = S(t) - S(t-1)
    DIFF2  VG(t-nwrap) = S(t) - 2 S(t-1) + S(t-2)
    DIFF3  VG(t-nwrap) = S(t) - 3 S(t-1) + 3 S(t-2) - S(t-3)
    QLPC   q_j = VG(j), j < nlpc;  VG(nlpc + t-nwrap) = (S(t) - C) - ((lpcqoffset + sum_j q_j (S(t-j-1) - C)) >> 5)
    ZERO   S(t) = 0
and the obligations discharged for ALL block sizes, histories, orders, means and shifts are
    decoded      at the call of fix_bitshift, buffer[chan, t] == S(t) on the block
    wrap         ... and buffer[chan, t] == S(blocksize + t) for t < nwrap, i.e. the history is taken BEFORE the bit-shift fix-up
    mean         offset[chan] is shifted by one and its last entry is tdiv(sum S(block), blocksize) (v1) or
                 tdiv(blocksize/2 + sum S(block), blocksize) << bitshift (v2); untouched when nmean == 0
    frame        no other channel's row of buffer / offset is written; qlpc is written only below nlpc
    stream       exactly blocksize (+ nlpc) Rice values are consumed, coefficients first, each with the documented width
    fix-up       fix_bitshift is called once on exactly the block (length blocksize) with the current bitshift and file type
    indices      every subscript is within its array (a negative index would silently wrap in NumPy)
Assumed, not proved here: A-INT32 (int32 stores do not overflow: integers are mathematical), A-SHIFT (`>>`, `<<` by the run-time
bit shift are the same operator on both sides of the contract: uninterpreted SHR / SHL), the bit reader's contract (callee), and for
QLPC the property's own side condition blocksize >= nwrap.
"""
import ast

import z3

from pyvc import api, extract, symex
from pyvc.api import SpecFn, Opaque, Z, Zb, simp, Outside
from pyvc.symex import Contract, LoopSpec

I = z3.IntSort()
S = z3.Function("enc_sample", I, I)
M = z3.Function("enc_mean", I, I)
VG = z3.Function("rice_value", I, I)
SSUM = z3.Function("sum_enc_sample", I, I, I)      # sum of S over [a, b)
MSUM = z3.Function("sum_enc_mean", I, I, I)        # sum of M over [a, b)
SHR = z3.Function("shift_right", I, I, I)
SHL = z3.Function("shift_left", I, I, I)
PS = z3.Function("lpc_partial_sum", I, I, I)       # PS(t, j) = lpcqoffset + sum_{j' < j} q_j' (S(t-j'-1) - C)


def tdiv(a, b):
    """C99 integer division (truncation towards zero), b > 0"""
    a, b = Z(a), Z(b)
    return z3.If(a >= 0, a / b, -((-a) / b))


def _fresh_ints(*names):
    k = next(symex._fresh)
    return [z3.Int(f"{n}!{k}") for n in names]


class IArr2:
    """2-D int32 array held in the ghost state as a z3 array (Int, Int) -> Int"""
    def __init__(self, key, rows, cols):
        self.key, self.rows, self.cols = key, rows, cols

    def _row(self, ev, r, node):
        r = Z(ev.eval(r))
        ev.wd(z3.And(r >= 0, r < Z(self.rows)), "row_index_in_range", node)
        return simp(r)

    def sym_getitem(self, sl, ev, node):
        if isinstance(sl, ast.Tuple) and len(sl.elts) == 2 and not isinstance(sl.elts[0], ast.Slice):
            row = IView(self.key, self._row(ev, sl.elts[0], node), 0, self.cols)
            return row.sym_getitem(sl.elts[1], ev, node)
        if isinstance(sl, ast.Tuple) and len(sl.elts) == 2 and isinstance(sl.elts[0], ast.Slice) and isinstance(sl.elts[1], ast.Slice):
            a, b = sl.elts
            if a.lower is not None or a.upper is not None or a.step is not None or b.step is not None:
                raise Outside("2-D subscript form")
            lo = z3.IntVal(0) if b.lower is None else Z(ev.eval(b.lower))
            hi = Z(self.cols) if b.upper is None else Z(ev.eval(b.upper))
            ev.wd(z3.And(lo >= 0, lo <= hi, hi <= Z(self.cols)), "slice_in_range", node)
            return IBlock(self.key, self.rows, lo, hi - lo)
        if isinstance(sl, (ast.Slice, ast.Tuple)):
            raise Outside("2-D subscript form")
        return IView(self.key, self._row(ev, sl, node), 0, self.cols)

    def sym_setitem(self, sl, v, ev, node):
        if isinstance(sl, ast.Tuple) and len(sl.elts) == 2 and not isinstance(sl.elts[0], ast.Slice):
            row = IView(self.key, self._row(ev, sl.elts[0], node), 0, self.cols)
            return row.sym_setitem(sl.elts[1], v, ev, node)
        raise Outside("2-D store form")


class IExpr:
    """view op scalar, elementwise (the right-hand side of `view op= scalar`)"""
    def __init__(self, view, fn):
        self.view, self.fn = view, fn


class IView:
    """1-D view [lo, lo + n) of a row of a 2-D ghost array (row is None: of a 1-D ghost array)"""
    def __init__(self, key, row, lo, n):
        self.key, self.row, self.lo, self.n = key, row, simp(Z(lo)), simp(Z(n))

    def sel(self, arr, t):
        return z3.Select(arr, self.row, self.lo + t) if self.row is not None else z3.Select(arr, self.lo + t)

    def _bounds(self, sl, ev, node):
        if sl.step is not None:
            raise Outside("stepped slice")
        lo = z3.IntVal(0) if sl.lower is None else Z(ev.eval(sl.lower))
        hi = self.n if sl.upper is None else Z(ev.eval(sl.upper))
        # no clamping, no negative bounds: a slice that leaves the array would silently be cut short (or wrap) in NumPy
        ev.wd(z3.And(lo >= 0, lo <= hi, hi <= self.n), "slice_in_range", node)
        return simp(lo), simp(hi)

    def sym_getitem(self, sl, ev, node):
        if isinstance(sl, ast.Slice):
            lo, hi = self._bounds(sl, ev, node)
            return IView(self.key, self.row, self.lo + lo, hi - lo)
        i = Z(ev.eval(sl))
        ev.wd(z3.And(i >= 0, i < self.n), "index_in_range", node)
        return simp(self.sel(ev.st.ghost[self.key], i))

    def _write(self, st, lo, n, fn):
        """cells [lo, lo+n) of this view := fn(offset within that range), read from the array value BEFORE the store"""
        arr = st.ghost[self.key]
        st.writes.append(("ghost_array", self.key))
        if self.row is not None:
            r_, t_ = _fresh_ints("wr", "wt")
            a0, a1 = self.lo + lo, self.lo + lo + n
            st.ghost[self.key] = z3.Lambda([r_, t_], z3.If(z3.And(r_ == self.row, t_ >= a0, t_ < a1), fn(t_ - a0), z3.Select(arr, r_, t_)))
        else:
            (t_,) = _fresh_ints("wt")
            a0, a1 = self.lo + lo, self.lo + lo + n
            st.ghost[self.key] = z3.Lambda([t_], z3.If(z3.And(t_ >= a0, t_ < a1), fn(t_ - a0), z3.Select(arr, t_)))

    def sym_setitem(self, sl, v, ev, node):
        st = ev.st
        arr = st.ghost[self.key]
        hook = ev.ex.contract.handlers.get("iview.store")
        if isinstance(sl, ast.Slice):
            lo, hi = self._bounds(sl, ev, node)
            n = simp(hi - lo)
            tgt = IView(self.key, self.row, self.lo + lo, n)
            if isinstance(v, IView):
                ev.ex.oblige(st, v.n == n, f"store_length.L{node.lineno - ev.ex.fx.lineno}", "wd", node.lineno)
                src_arr = st.ghost[v.key]
                self._write(st, lo, n, lambda u: v.sel(src_arr, u))
            elif isinstance(v, IExpr):
                ev.ex.oblige(st, v.view.n == n, f"store_length.L{node.lineno - ev.ex.fx.lineno}", "wd", node.lineno)
                src_arr = st.ghost[v.view.key]
                self._write(st, lo, n, lambda u: v.fn(v.view.sel(src_arr, u)))
            elif isinstance(v, int) or (symex.is_z3(v) and z3.is_int(v)):
                self._write(st, lo, n, lambda u: Z(v))
            else:
                raise Outside("slice store of an unsupported value")
            if hook:
                hook(ev.ex, st, tgt, node)
            return
        i = Z(ev.eval(sl))
        ev.wd(z3.And(i >= 0, i < self.n), "index_in_range", node)
        if not (isinstance(v, int) or (symex.is_z3(v) and z3.is_int(v))):
            raise Outside("store of a non-integer into an int32 array")
        self._write(st, i, z3.IntVal(1), lambda u: Z(v))
        if hook:
            hook(ev.ex, st, IView(self.key, self.row, self.lo + i, 1), node)

    def sym_getattr(self, attr, ev, node):
        if attr == "sum":
            h = ev.ex.contract.handlers.get("iview.sum")
            if h is None:
                raise Outside("sum of an int view without a contract")
            return symex.PyCallable(lambda ev2, a, kw, n2: h(ev2.ex, ev2.st, self, n2))
        if attr == "fill":
            def fill(ev2, a, kw, n2):
                if len(a) != 1 or kw or not (isinstance(a[0], int) or (symex.is_z3(a[0]) and z3.is_int(a[0]))):
                    raise Outside("fill form")
                self._write(ev2.st, z3.IntVal(0), self.n, lambda u: Z(a[0]))
                return None
            return symex.PyCallable(fill)
        raise Outside(f"int view attribute .{attr}")

    def sym_len(self):
        return self.n


def h_binop(ex, st, op, a, b, n):
    if isinstance(a, IView) and (isinstance(b, int) or (symex.is_z3(b) and z3.is_int(b))):
        zb = Z(b)
        if isinstance(op, ast.Add):
            e = IExpr(a, lambda x: x + zb)
        elif isinstance(op, ast.Sub):
            e = IExpr(a, lambda x: x - zb)
        elif isinstance(op, ast.LShift):
            e = IExpr(a, lambda x: SHL(x, zb))
        else:
            raise Outside(f"int view {type(op).__name__} scalar")
        if isinstance(getattr(ex, "aug_target", None), ast.Name):
            # `name op= scalar` on an ndarray writes through; the name keeps denoting the same array
            src = st.ghost[a.key]
            a._write(st, z3.IntVal(0), a.n, lambda u: e.fn(a.sel(src, u)))
            hook = ex.contract.handlers.get("iview.store")
            if hook:
                hook(ex, st, a, n)
            return a
        return e
    if isinstance(op, (ast.LShift, ast.RShift)) and symex.is_z3(b) and z3.is_int(b) and (isinstance(a, int) or (symex.is_z3(a) and z3.is_int(a))):
        return (SHL if isinstance(op, ast.LShift) else SHR)(Z(a), Z(b))
    return NotImplemented


# ------------------------------------------------------------------------------------------------------------- the block slice
CMDS = {"DIFF0": 0, "DIFF1": 1, "DIFF2": 2, "DIFF3": 3, "QLPC": 7, "ZERO": 8}


def sel_block(fn):
    for w in ast.walk(fn):
        if isinstance(w, ast.If) and isinstance(w.test, ast.Compare) and "FN_ZERO" in ast.unparse(w.test) and "FN_QLPC" in ast.unparse(w.test) \
                and isinstance(w.test.ops[0], ast.In):
            out = []
            for s in w.body:
                out.append(s)
                if "fix_bitshift(" in ast.unparse(s):        # the call itself, or a statement of this level that contains it
                    return out
    return []


def setup_block(cmd, version, mean_mode):
    """mean_mode: 'nomean' (nmean == 0) | 'mean' (nmean >= 1)"""
    def setup(ex, st):
        g = lambda n: api.sym(n)
        nchan, chan, bs, nwrap, maxnlpc, nmean, bitshift, ftype = map(g, ("nchan", "chan", "blocksize", "nwrap", "maxnlpc", "nmean", "bitshift", "ftype"))
        st.assume(z3.And(nchan >= 1, chan >= 0, chan < nchan, bs >= 1, maxnlpc >= 0, nwrap >= 3, nwrap >= maxnlpc,
                         z3.Or(nwrap == 3, nwrap == maxnlpc), bitshift >= 0, bitshift <= 31, ftype >= 0, ftype < 9))
        st.assume(nmean == 0 if mean_mode == "nomean" else nmean >= 1)
        nblock = simp(z3.If(nmean >= 1, nmean, 1))
        st.ghost.update(BUF=z3.Array("BUF0", I, I, I), OFF=z3.Array("OFF0", I, I, I), QLPC=z3.Array("QLPC0", I, I), rc=0, fixcalls=0)
        width = api.sym("buffer_width")     # allocated for the stream's FIRST block size; a later BLOCKSIZE command may only shorten blocks
        st.assume(width >= bs + nwrap)
        st.env.update(buffer=IArr2("BUF", nchan, width), offset=IArr2("OFF", nchan, nblock), qlpc=IView("QLPC", None, 0, maxnlpc),
                      chan=chan, nchan=nchan, blocksize=bs, nwrap=nwrap, nmean=nmean, bitshift=bitshift, ftype=ftype,
                      cmd=CMDS[cmd], version=version, lpcqoffset=(32 if version > 1 else 0))
        resn, nlpc = g("resn"), g("nlpc")
        st.assume(z3.And(resn >= 0, nlpc >= 0, nlpc <= maxnlpc))         # the fields a valid stream carries (nlpc <= maxnlpc: header promise)
        t, c, j = z3.Ints("t_ c_ j_")
        BUF0, OFF0 = st.ghost["BUF"], st.ghost["OFF"]
        st.assume(z3.ForAll([t], z3.Implies(z3.And(t >= 0, t < nwrap), z3.Select(BUF0, chan, t) == S(t))))        # history
        st.assume(z3.ForAll([c], z3.Implies(z3.And(c >= 0, c < nblock), z3.Select(OFF0, chan, c) == M(c))))       # running means
        if mean_mode == "nomean":
            C = M(0)
        elif version < 2:
            C = tdiv(MSUM(0, nmean), nmean)
        else:
            C = SHR(tdiv(nmean / 2 + MSUM(0, nmean), nmean), bitshift)
        C = simp(C)
        blk = lambda tt: z3.And(tt >= nwrap, tt < nwrap + bs)
        if cmd == "ZERO":
            st.assume(z3.ForAll([t], z3.Implies(blk(t), S(t) == 0)))
        elif cmd == "DIFF0":
            st.assume(z3.ForAll([t], z3.Implies(blk(t), VG(t - nwrap) == S(t) - C)))
        elif cmd == "DIFF1":
            st.assume(z3.ForAll([t], z3.Implies(blk(t), VG(t - nwrap) == S(t) - S(t - 1))))
        elif cmd == "DIFF2":
            st.assume(z3.ForAll([t], z3.Implies(blk(t), VG(t - nwrap) == S(t) - 2 * S(t - 1) + S(t - 2))))
        elif cmd == "DIFF3":
            st.assume(z3.ForAll([t], z3.Implies(blk(t), VG(t - nwrap) == S(t) - 3 * S(t - 1) + 3 * S(t - 2) - S(t - 3))))
        else:
            lq = 32 if version > 1 else 0
            st.assume(bs >= nwrap)                                        # the property's side condition for QLPC blocks
            st.assume(z3.ForAll([t], PS(t, 0) == lq))
            st.assume(z3.ForAll([t, j], z3.Implies(z3.And(j >= 0, j < nlpc), PS(t, j + 1) == PS(t, j) + VG(j) * (S(t - j - 1) - C)),
                                patterns=[PS(t, j + 1)]))
            st.assume(z3.ForAll([t], z3.Implies(blk(t), VG(nlpc + t - nwrap) == (S(t) - C) - PS(t, nlpc) / 32)))
        ex.ctx = dict(cmd=cmd, version=version, mean_mode=mean_mode, nchan=nchan, chan=chan, bs=bs, nwrap=nwrap, maxnlpc=maxnlpc, nmean=nmean,
                      bitshift=bitshift, ftype=ftype, resn=resn, nlpc=nlpc, C=C, BUF0=BUF0, OFF0=OFF0, nblock=nblock)
    return setup


def h_uvar_get(ex, st, args, kwargs, node, ev):
    lbl = f"L{node.lineno - ex.fx.lineno}"
    if len(args) != 1 or kwargs or not isinstance(args[0], int):
        raise Outside("uvar_get form")
    if args[0] == 3:        # ENERGYSIZE
        ex.oblige(st, st.ghost["rc"] == 0, f"energy_field_read_before_any_residual.{lbl}", "trace", node.lineno)
        return ex.ctx["resn"]
    if args[0] == 2:        # LPCQSIZE
        ex.oblige(st, st.ghost["rc"] == 0, f"order_field_read_before_any_coefficient.{lbl}", "trace", node.lineno)
        return ex.ctx["nlpc"]
    raise Outside(f"uvar_get({args[0]}) in the block slice")


def h_var_get(ex, st, args, kwargs, node, ev):
    lbl = f"L{node.lineno - ex.fx.lineno}"
    if len(args) != 1 or kwargs:
        raise Outside("var_get form")
    rc, c = Z(st.ghost["rc"]), ex.ctx
    if c["cmd"] == "QLPC":
        want = z3.If(rc < c["nlpc"], z3.IntVal(5), c["resn"])       # LPCQUANT-bit coefficients first, then resn-bit residuals
    else:
        want = c["resn"]
    ex.oblige(st, Z(args[0]) == want, f"rice_width_is_the_documented_one.{lbl}", "trace", node.lineno)
    st.ghost["rc"] = simp(rc + 1)
    return VG(rc)


def h_c99_div(ex, st, args, kwargs, node, ev):
    lbl = f"L{node.lineno - ex.fx.lineno}"
    a, b = args
    ex.oblige(st, Z(b) > 0, f"c99_div_by_a_positive_count.{lbl}", "pre", node.lineno)
    return simp(tdiv(a, b))


def h_sum(ex, st, view, node):
    """callee contract of ndarray.sum on an int view, used with extensionality: the obligation shows the view holds the encoder's values
    pointwise, the result is then the encoder's sum by definition"""
    lbl = f"L{node.lineno - ex.fx.lineno}"
    c = ex.ctx
    (t,) = _fresh_ints("st")
    arr = st.ghost[view.key]
    if view.key == "OFF":
        ex.oblige(st, z3.And(view.row == c["chan"], view.lo == 0), f"mean_sum_is_over_this_channels_history.{lbl}", "trace", node.lineno)
        ex.oblige(st, z3.ForAll([t], z3.Implies(z3.And(t >= 0, t < view.n), view.sel(arr, t) == M(view.lo + t))), f"summed_means_are_the_encoders.{lbl}", "trace", node.lineno)
        return MSUM(view.lo, simp(view.lo + view.n))
    if view.key == "BUF":
        ex.oblige(st, view.row == c["chan"], f"block_sum_is_over_this_channel.{lbl}", "trace", node.lineno)
        ex.oblige(st, z3.ForAll([t], z3.Implies(z3.And(t >= 0, t < view.n), view.sel(arr, t) == S(view.lo + t))), f"summed_samples_are_the_encoders.{lbl}", "trace", node.lineno)
        return SSUM(view.lo, simp(view.lo + view.n))
    raise Outside("sum of an unexpected array")


def _decoded(st, c, upto=None):
    (t,) = _fresh_ints("dt")
    hi = c["nwrap"] + c["bs"] if upto is None else upto
    return z3.ForAll([t], z3.Implies(z3.And(t >= c["nwrap"], t < hi), z3.Select(st.ghost["BUF"], c["chan"], t) == S(t)))


def _frame(st, c):
    r, t = _fresh_ints("fr", "ft")
    return z3.And(z3.ForAll([r, t], z3.Implies(r != c["chan"], z3.Select(st.ghost["BUF"], r, t) == z3.Select(c["BUF0"], r, t))),
                  z3.ForAll([r, t], z3.Implies(r != c["chan"], z3.Select(st.ghost["OFF"], r, t) == z3.Select(c["OFF0"], r, t))))


def h_fix_bitshift(ex, st, args, kwargs, node, ev):
    lbl = f"L{node.lineno - ex.fx.lineno}"
    c = ex.ctx
    ok = len(args) == 4 and not kwargs and isinstance(args[0], IView)
    ex.oblige(st, ok, f"fix_bitshift_called_on_a_view_of_the_buffer.{lbl}", "trace", node.lineno)
    if not ok:
        raise Outside("fix_bitshift call form")
    v = args[0]
    ex.oblige(st, z3.And(v.row == c["chan"], v.lo == c["nwrap"], v.n >= c["bs"]) if v.key == "BUF" else False,
              f"fix_up_starts_at_the_block_and_covers_it.{lbl}", "trace", node.lineno)
    ex.oblige(st, z3.And(Z(args[1]) == c["bs"], Z(args[2]) == c["bitshift"], Z(args[3]) == c["ftype"]), f"fix_up_gets_blocksize_bitshift_ftype.{lbl}", "trace", node.lineno)
    ex.oblige(st, _decoded(st, c), f"decoded_block_is_the_encoded_samples.{lbl}", "post", node.lineno)
    (t,) = _fresh_ints("ht")
    ex.oblige(st, z3.ForAll([t], z3.Implies(z3.And(t >= 0, t < c["nwrap"]), z3.Select(st.ghost["BUF"], c["chan"], t) == S(c["bs"] + t))),
              f"history_is_the_block_tail_before_the_fix_up.{lbl}", "post", node.lineno)
    st.ghost["fixcalls"] = st.ghost["fixcalls"] + 1
    return None


def _inv_diff(ev):
    """predictor loops: everything below i is decoded, one Rice value per sample, nothing else of the state moved"""
    st, c = ev.st, ev.ex.ctx
    i = Z(st.env["i"])
    (t,) = _fresh_ints("it")
    hist = z3.ForAll([t], z3.Implies(z3.And(t >= 0, t < c["nwrap"]), z3.Select(st.ghost["BUF"], c["chan"], t) == S(t)))
    return z3.And(i >= c["nwrap"], i <= c["nwrap"] + c["bs"], _decoded(st, c, upto=i), hist, Z(st.ghost["rc"]) == i - c["nwrap"], _frame(st, c),
                  st.ghost["OFF"] == c["OFF0"])


def _qhist(st, c):
    """QLPC: the nlpc newest history samples are held mean-removed, the older ones as they were"""
    (t,) = _fresh_ints("qt")
    b = lambda tt: z3.Select(st.ghost["BUF"], c["chan"], tt)
    return z3.And(z3.ForAll([t], z3.Implies(z3.And(t >= 0, t < c["nwrap"] - c["nlpc"]), b(t) == S(t))),
                  z3.ForAll([t], z3.Implies(z3.And(t >= c["nwrap"] - c["nlpc"], t < c["nwrap"]), b(t) == S(t) - c["C"])))


def _qcoef(st, c, upto):
    (j,) = _fresh_ints("qj")
    return z3.ForAll([j], z3.Implies(z3.And(j >= 0, j < upto), z3.Select(st.ghost["QLPC"], j) == VG(j)))


def _inv_qread(ev):
    st, c = ev.st, ev.ex.ctx
    i = Z(st.env["i"])
    (t,) = _fresh_ints("rt")
    hist = z3.ForAll([t], z3.Implies(z3.And(t >= 0, t < c["nwrap"]), z3.Select(st.ghost["BUF"], c["chan"], t) == S(t)))
    (j,) = _fresh_ints("rj")
    rest = z3.ForAll([j], z3.Implies(z3.Or(j < 0, j >= i), z3.Select(st.ghost["QLPC"], j) == z3.Select(z3.Array("QLPC0", I, I), j)))
    return z3.And(i >= 0, i <= c["nlpc"], _qcoef(st, c, i), rest, Z(st.ghost["rc"]) == i, hist, _frame(st, c), st.ghost["OFF"] == c["OFF0"])


def _inv_qouter(ev):
    st, c = ev.st, ev.ex.ctx
    i = Z(st.env["i"])
    (t,) = _fresh_ints("ot")
    dec = z3.ForAll([t], z3.Implies(z3.And(t >= c["nwrap"], t < i), z3.Select(st.ghost["BUF"], c["chan"], t) == S(t) - c["C"]))
    return z3.And(i >= c["nwrap"], i <= c["nwrap"] + c["bs"], dec, _qhist(st, c), _qcoef(st, c, c["nlpc"]), Z(st.ghost["rc"]) == c["nlpc"] + i - c["nwrap"],
                  _frame(st, c), st.ghost["OFF"] == c["OFF0"])


def _inv_qinner(ev):
    st, c = ev.st, ev.ex.ctx
    i, j = Z(st.env["i"]), Z(st.env["j"])
    (t,) = _fresh_ints("nt")
    dec = z3.ForAll([t], z3.Implies(z3.And(t >= c["nwrap"], t < i), z3.Select(st.ghost["BUF"], c["chan"], t) == S(t) - c["C"]))
    return z3.And(i >= c["nwrap"], i < c["nwrap"] + c["bs"], j >= 0, j <= c["nlpc"], Z(st.env["sum"]) == PS(i, j), dec, _qhist(st, c), _qcoef(st, c, c["nlpc"]),
                  Z(st.ghost["rc"]) == c["nlpc"] + i - c["nwrap"], _frame(st, c), st.ghost["OFF"] == c["OFF0"])


def _mean_ok(ev):
    st, c = ev.st, ev.ex.ctx
    OFF, ch = st.ghost["OFF"], c["chan"]
    if c["mean_mode"] == "nomean":
        return OFF == c["OFF0"]
    (k,) = _fresh_ints("mk")
    bs, nw, nm = c["bs"], c["nwrap"], c["nmean"]
    if c["version"] < 2:
        new = tdiv(SSUM(nw, nw + bs), bs)
    else:
        new = SHL(tdiv(bs / 2 + SSUM(nw, nw + bs), bs), c["bitshift"])
    other = z3.ForAll([k], z3.Implies(z3.And(k >= nm), z3.Select(OFF, ch, k) == z3.Select(c["OFF0"], ch, k)))
    return z3.And(z3.ForAll([k], z3.Implies(z3.And(k >= 0, k < nm - 1), z3.Select(OFF, ch, k) == M(k + 1))), z3.Select(OFF, ch, nm - 1) == new, other)


def _consumed(ev):
    c = ev.ex.ctx
    want = {"ZERO": z3.IntVal(0), "QLPC": c["nlpc"] + c["bs"]}.get(c["cmd"], c["bs"])
    return Z(ev.st.ghost["rc"]) == want


def _qlpc_frame(ev):
    st, c = ev.st, ev.ex.ctx
    (j,) = _fresh_ints("fj")
    lim = c["nlpc"] if c["cmd"] == "QLPC" else z3.IntVal(0)
    return z3.ForAll([j], z3.Implies(z3.Or(j < 0, j >= lim), z3.Select(st.ghost["QLPC"], j) == z3.Select(z3.Array("QLPC0", I, I), j)))


def contract_block():
    consts = {"INV_DIFF": SpecFn(_inv_diff), "INV_QREAD": SpecFn(_inv_qread), "INV_QOUTER": SpecFn(_inv_qouter), "INV_QINNER": SpecFn(_inv_qinner),
              "MEAN_OK": SpecFn(_mean_ok), "CONSUMED": SpecFn(_consumed), "FRAME": SpecFn(lambda ev: _frame(ev.st, ev.ex.ctx)),
              "QLPC_FRAME": SpecFn(_qlpc_frame), "FIXCALLS": SpecFn(lambda ev: ev.st.ghost["fixcalls"])}
    for k_, v_ in extract.module_constants("_sphere").items():
        if isinstance(v_, int) and k_ not in consts:
            consts[k_] = v_
    g = ["BUF", "rc"]
    consts["CONSUMED1"] = SpecFn(lambda ev: Z(ev.st.ghost["rc"]) == {"ZERO": z3.IntVal(0), "QLPC": ev.ex.ctx["nlpc"] + ev.ex.ctx["bs"]}.get(ev.ex.ctx["cmd"], ev.ex.ctx["bs"]) + 1)
    c = Contract(
        target="_sphere:copy_shortened_samples", uses=["A-PYSEM", "A-INT32", "A-SHIFT", "A-BITREADER"],
        consts=consts,
        handlers={"uvar_get": h_uvar_get, "var_get": h_var_get, "c99_div": h_c99_div, "fix_bitshift": h_fix_bitshift, "iview.sum": h_sum, "binop": h_binop},
        loops={0: LoopSpec(kind="for", var="i", modifies_ghost=g, invariant=[("decoded_so_far", "INV_DIFF()")]),
               1: LoopSpec(kind="for", var="i", modifies_ghost=g, invariant=[("decoded_so_far", "INV_DIFF()")]),
               2: LoopSpec(kind="for", var="i", modifies_ghost=g, invariant=[("decoded_so_far", "INV_DIFF()")]),
               3: LoopSpec(kind="for", var="i", modifies_ghost=g, invariant=[("decoded_so_far", "INV_DIFF()")]),
               4: LoopSpec(kind="for", var="i", modifies_ghost=["QLPC", "rc"], invariant=[("coefficients_so_far", "INV_QREAD()")]),
               5: LoopSpec(kind="for", var="i", modifies_ghost=g, invariant=[("mean_removed_block_so_far", "INV_QOUTER()")]),
               6: LoopSpec(kind="for", var="j", modifies_ghost=[], invariant=[("partial_prediction", "INV_QINNER()")])},
        ensures=[("running_mean_updated_as_the_encoder_does", "MEAN_OK()"),
                 ("rice_values_consumed", "CONSUMED()"),
                 ("other_channels_untouched", "FRAME()"),
                 ("coefficients_written_only_below_the_order", "QLPC_FRAME()"),
                 ("fix_up_called_once", "FIXCALLS() == 1")],
    )
    c.canaries = [("one_rice_value_more", "CONSUMED1()"), ("fix_up_called_twice", "FIXCALLS() == 2")]
    return c


LABELS = [f"{cmd}|v{v}|{mm}" for cmd in CMDS for v in (1, 2) for mm in ("nomean", "mean")]


def _to_case(ob):
    try:
        from rtc import c13
        # forced command sequences first (every predictor after every other, short blocks, ZERO blocks between non-zero ones), then the grid
        return list(c13._seq_cases(0, "quick")) + list(c13._grid_cases(0, "quick"))[:40]
    except Exception:
        return None


def generate_block(prop, label):
    from contracts.registry import run_contract
    from pyvc.check import UnitResult
    cmd, v, mm = label.split("|")
    try:
        fx = extract.get_slice("_sphere", "copy_shortened_samples", sel_block, "one block command: offset, predictor, mean update, wrap, fix-up call")
    except KeyError as e:
        u = UnitResult("shorten_block")
        u.outside.append(("_sphere:copy_shortened_samples", str(e)))
        return u
    return run_contract(prop, fx, contract_block(), [(label, setup_block(cmd, int(v[1:]), mm))], name="shorten_block", fname="shorten_block")


def unit_block(prop="C13"):
    def unit(tier, known):
        from contracts.registry import run_parallel
        jobs = [("contracts.shorten_block", "generate_block", (prop, label)) for label in LABELS]
        return run_parallel("shorten_block", jobs, to_case=_to_case, replay_module="rtc.c13")
    unit.__name__ = "shorten_block"
    return unit


# ------------------------------------------------------------------------------------------------------------- fix_bitshift
# Per element, against shorten's own definition (shorten.c `fix_bitshift`): file types AU1 / AU2 map the internal mu-law code through the
# ulaw_outward table of the current bit shift (AU2 with its two-zero convention), every other type is shifted left by bitshift;
# Preconditions (established by the caller / the format): the view has at least nitem cells (cells past the block are scratch),
# internal mu-law codes lie in the table's domain and the bit shift in its 13 rows.
UO = z3.Function("ulaw_outward", I, I, I)


class UOTable:
    """ULAW_OUTWARD[bitshift, codes]: fancy indexing of the (13, 256) table with an array of column indices"""
    def sym_getitem(self, sl, ev, node):
        if not (isinstance(sl, ast.Tuple) and len(sl.elts) == 2):
            raise Outside("ULAW_OUTWARD subscript form")
        b = Z(ev.eval(sl.elts[0]))
        ev.wd(z3.And(b >= 0, b < 13), "table_row_in_range", node)
        col = ev.eval(sl.elts[1])
        if isinstance(col, IExpr):
            (t,) = _fresh_ints("ut")
            arr = ev.st.ghost[col.view.key]
            x = col.fn(col.view.sel(arr, t))
            ev.ex.oblige(ev.st, z3.ForAll([t], z3.Implies(z3.And(t >= 0, t < col.view.n), z3.And(x >= 0, x < 256))),
                         f"table_column_in_range.L{node.lineno - ev.ex.fx.lineno}", "wd", node.lineno)
            return IExpr(col.view, lambda v: UO(b, col.fn(v)))
        c = Z(col)
        ev.wd(z3.And(c >= 0, c < 256), "table_column_in_range", node)
        return UO(b, c)


def fixspec(kind, x, bitshift, neg_zero):
    if kind == "AU1":
        return UO(bitshift, x + 128)
    if kind == "AU2":
        return z3.If(x >= 0, UO(bitshift, x + 128), z3.If(x == -1, z3.IntVal(neg_zero), UO(bitshift, x + 129)))
    return z3.If(bitshift != 0, SHL(x, bitshift), x)


def setup_fix(kind):
    def setup(ex, st):
        n, nitem, bitshift, ftype = (api.sym(x) for x in ("n", "nitem", "bitshift", "ftype"))
        B0 = z3.Array("FB0", I, I)
        st.ghost.update(FB=B0)
        (t,) = _fresh_ints("pt")
        st.assume(z3.And(n >= nitem, nitem >= 0, bitshift >= 0, bitshift <= 31))
        if kind == "AU1":
            st.assume(z3.And(ftype == 0, bitshift <= 12, z3.ForAll([t], z3.Implies(z3.And(t >= 0, t < nitem), z3.And(z3.Select(B0, t) >= -128, z3.Select(B0, t) <= 127)))))
        elif kind == "AU2":
            st.assume(z3.And(ftype == 8, bitshift <= 12, z3.ForAll([t], z3.Implies(z3.And(t >= 0, t < nitem), z3.And(z3.Select(B0, t) >= -129, z3.Select(B0, t) <= 127)))))
        else:
            st.assume(z3.And(ftype >= 1, ftype <= 7))
        st.env.update(buffer=IView("FB", None, 0, n), nitem=nitem, bitshift=bitshift, ftype=ftype)
        ex.ctx = dict(kind=kind, n=n, nitem=nitem, bitshift=bitshift, B0=B0)
    return setup


def contract_fix():
    mc = extract.module_constants("_sphere")
    negz = mc.get("NEGATIVE_ULAW_ZERO")

    def fixed(ev, upto=None):
        st, c = ev.st, ev.ex.ctx
        (t,) = _fresh_ints("xt")
        hi = c["nitem"] if upto is None else Z(upto)
        done = z3.ForAll([t], z3.Implies(z3.And(t >= 0, t < hi), z3.Select(st.ghost["FB"], t) == fixspec(c["kind"], z3.Select(c["B0"], t), c["bitshift"], negz)))
        rest = z3.ForAll([t], z3.Implies(z3.Or(t < 0, t >= hi), z3.Select(st.ghost["FB"], t) == z3.Select(c["B0"], t)))
        return z3.And(done, rest)

    def fixed_block(ev):
        st, c = ev.st, ev.ex.ctx
        (t,) = _fresh_ints("yt")
        return z3.ForAll([t], z3.Implies(z3.And(t >= 0, t < c["nitem"]), z3.Select(st.ghost["FB"], t) == fixspec(c["kind"], z3.Select(c["B0"], t), c["bitshift"], negz)))

    consts = {"FIXED": SpecFn(fixed_block), "FIXED_UPTO": SpecFn(lambda ev, i: z3.And(Z(i) >= 0, Z(i) <= ev.ex.ctx["nitem"], fixed(ev, i))),
              "ULAW_OUTWARD": UOTable()}
    for k_, v_ in mc.items():
        if isinstance(v_, int) and k_ not in consts:
            consts[k_] = v_
    c = Contract(
        target="_sphere:fix_bitshift", uses=["A-PYSEM", "A-INT32", "A-SHIFT", "A-NP-FANCY"],
        consts=consts, handlers={"binop": h_binop},
        loops={0: LoopSpec(kind="for", var="i", modifies_ghost=["FB"], invariant=[("fixed_so_far", "FIXED_UPTO(i)")])},
        ensures=[("every_sample_of_the_block_fixed_up", "FIXED()")],
    )
    return c


def generate_fix(prop, kind):
    from contracts.registry import run_contract
    if not isinstance(extract.module_constants("_sphere").get("NEGATIVE_ULAW_ZERO"), int):
        from pyvc.check import UnitResult
        u = UnitResult("fix_bitshift")
        u.outside.append(("_sphere:fix_bitshift", "NEGATIVE_ULAW_ZERO is not a module-level integer literal"))
        return u
    return run_contract(prop, ("_sphere", "fix_bitshift"), contract_fix(), [(kind, setup_fix(kind))], name="fix_bitshift")


def _to_case_helpers(ob):
    try:
        from rtc import c13
        return list(c13._helper_cases(0, "quick")) + list(c13._grid_cases(0, "quick"))[:20]
    except Exception:
        return None


def unit_fix(prop="C13"):
    def unit(tier, known):
        from contracts.registry import run_parallel
        jobs = [("contracts.shorten_block", "generate_fix", (prop, k)) for k in ("AU1", "AU2", "PCM")]
        return run_parallel("fix_bitshift", jobs, to_case=_to_case_helpers, replay_module="rtc.c13")
    unit.__name__ = "fix_bitshift"
    return unit


# ------------------------------------------------------------------------------------------------------------- c99_div
def _setup_div(ex, st):
    a, b = api.sym("a"), api.sym("b")
    st.assume(b > 0)                # the callers divide by nmean / blocksize, both shown positive at the call sites (block slice)
    st.env.update(a=a, b=b)


def contract_div():
    return Contract(
        target="_sphere:c99_div", uses=["A-PYSEM", "A-REAL"],
        consts={"TDIV": SpecFn(lambda ev, a, b: tdiv(a, b))},
        ensures=[("truncates_towards_zero", "result == TDIV(a, b)")],
    )


def unit_div(prop="C13"):
    def unit(tier, known):
        from contracts.registry import run_contract
        return run_contract(prop, ("_sphere", "c99_div"), contract_div(), [("", _setup_div)], name="c99_div", to_case=_to_case_helpers, replay_module="rtc.c13")
    unit.__name__ = "c99_div"
    return unit


# ------------------------------------------------------------------------------------------------------------- decoder set-up
# The statements between the stream header and the command loop establish exactly what the block contract assumes on entry:
# history length nwrap = max(maxnlpc, 3), a zeroed (nchan, blocksize + nwrap) int32 buffer, maxnlpc coefficient cells, the version's
# rounding offset, max(1, nmean) running means per channel initialised to the type's zero level (0 for every SPHERE sample type).
class Alloc:
    def __init__(self, how, shape, fill, dtype):
        self.how, self.shape, self.fill, self.dtype = how, shape, fill, dtype


def _h_alloc(how):
    def h(ex, st, args, kwargs, node, ev):
        shape = args[0]
        fill = 0 if how == "zeros" else (args[1] if how == "full" else None)
        dt = kwargs.get("dtype")
        return Alloc(how, tuple(shape) if isinstance(shape, (tuple, list)) else (shape,), fill, dt.term if isinstance(dt, Opaque) else dt)
    return h


def sel_setup(fn):
    out, on = [], False
    for s in fn.body:
        txt = ast.unparse(s)
        if isinstance(s, ast.Assign) and txt.startswith("nwrap ="):
            on = True
        if isinstance(s, ast.While):
            break
        if on:
            out.append(s)
    return out


def setup_setup(version):
    def setup(ex, st):
        nchan, bs, maxnlpc, nmean, ftype = (api.sym(x) for x in ("nchan", "blocksize", "maxnlpc", "nmean", "ftype"))
        st.assume(z3.And(nchan >= 1, bs >= 0, maxnlpc >= 0, nmean >= 0, ftype >= 0, ftype < 9))
        st.env.update(nchan=nchan, blocksize=bs, maxnlpc=maxnlpc, nmean=nmean, ftype=ftype, version=version, lpcqoffset=0,
                      error=Opaque("IOError", "exc"))
        ex.ctx = dict(version=version, nchan=nchan, bs=bs, maxnlpc=maxnlpc, nmean=nmean, ftype=ftype)
    return setup


def contract_setup():
    def shape_is(ev, name, *dims):
        v = ev.st.env.get(name)
        if not isinstance(v, Alloc) or len(v.shape) != len(dims):
            return z3.BoolVal(False)
        return z3.And(*[Z(a) == Z(b) for a, b in zip(v.shape, dims)], z3.BoolVal(v.dtype == "int32"))

    def filled(ev, name, val):
        v = ev.st.env.get(name)
        return z3.And(z3.BoolVal(isinstance(v, Alloc) and v.fill is not None), Z(v.fill) == Z(val)) if isinstance(v, Alloc) and v.fill is not None else z3.BoolVal(False)

    def zero_level(ev):
        ft = ev.ex.ctx["ftype"]
        return z3.If(ft == 2, z3.IntVal(0x8), z3.If(z3.Or(ft == 4, ft == 6), z3.IntVal(0x8000), z3.IntVal(0)))

    consts = {"SHAPE_IS": SpecFn(shape_is), "FILLED": SpecFn(filled), "ZERO_LEVEL": SpecFn(zero_level), "np.int32": Opaque("int32", "dtype"),
              "HAS_QLPC": SpecFn(lambda ev: isinstance(ev.st.env.get("qlpc"), Alloc))}
    for k_, v_ in extract.module_constants("_sphere").items():
        if isinstance(v_, int) and k_ not in consts:
            consts[k_] = v_
    return Contract(
        target="_sphere:copy_shortened_samples", uses=["A-PYSEM", "A-NP-ALLOC"],
        consts=consts, handlers={"np.zeros": _h_alloc("zeros"), "np.empty": _h_alloc("empty"), "np.full": _h_alloc("full")},
        raises={"IOError": "False"},
        ensures=[("history_length", "nwrap >= 3 and nwrap >= maxnlpc and (nwrap == 3 or nwrap == maxnlpc)"),
                 ("buffer_is_zeroed_nchan_by_block_plus_history", "SHAPE_IS('buffer', nchan, blocksize + nwrap) and FILLED('buffer', 0)"),
                 ("one_cell_per_possible_coefficient", "implies(maxnlpc > 0, HAS_QLPC() and SHAPE_IS('qlpc', maxnlpc))"),
                 ("rounding_offset_of_the_version", "lpcqoffset == (32 if version > 1 else 0)"),
                 ("running_means_start_at_the_types_zero_level", "SHAPE_IS('offset', nchan, ite(nmean >= 1, nmean, 1)) and FILLED('offset', ZERO_LEVEL())"),
                 ("first_block_is_channel_0", "chan == 0")],
    )


def unit_setup(prop="C13"):
    def unit(tier, known):
        from contracts.registry import run_contract
        from pyvc.check import UnitResult
        try:
            fx = extract.get_slice("_sphere", "copy_shortened_samples", sel_setup, "decoder set-up between the stream header and the command loop")
        except KeyError as e:
            u = UnitResult("shorten_setup")
            u.outside.append(("_sphere:copy_shortened_samples", str(e)))
            return u
        return run_contract(prop, fx, contract_setup(), [("v1", setup_setup(1)), ("v2", setup_setup(2))], name="shorten_setup", fname="shorten_setup",
                            to_case=_to_case, replay_module="rtc.c13")
    unit.__name__ = "shorten_setup"
    return unit


# ------------------------------------------------------------------------------------------------------------- the command loop
# `while True: cmd = uvar_get(FNSIZE) ...` with the statements of the block slice (covered above) DROPPED except its first
# (`cbuffer = buffer[chan]`) and last (the fix_bitshift call), whose handler here applies the block contract's postcondition: row `chan`
# of the buffer now holds this block's fixed-up samples D(block, chan, i), other rows untouched.  The specification is stated on ghost
# counters that the handler advances on its own (expected channel, block size and bit shift from the stream, output position): sample i
# of channel c of a block must land at output position base + i * nchan + c once ALL channels of that block are decoded, mu-law codes
# expanded through ULAW2PCM iff the caller asked for a wider type; QUIT returns the number of samples per channel; an unknown
# command raises the caller's IOError; BLOCKSIZE / BITSHIFT take their operand from the stream.
# Channel counts are enumerated (1, 2, 3: the interleaving index algebra i * nchan + c is then linear); block sizes, block counts,
# shifts and sample values are unbounded.  Assumed: A-NP-TFLAT (`a[:, p:q].T.flat` enumerates column by column), A-DATA-FITS (the
# caller's output array is long enough for the stream; its length is not modelled).
D = z3.Function("decoded_sample", I, I, I, I)      # (block number, channel, index in block) -> fixed-up sample
CMD = z3.Function("command_code", I, I)
OPER = z3.Function("command_operand", I, I)
U2P = z3.Function("ulaw2pcm", I, I)


class IBlock:
    """buffer[:, lo:lo+n]"""
    def __init__(self, key, rows, lo, n):
        self.key, self.rows, self.lo, self.n = key, rows, simp(Z(lo)), simp(Z(n))

    def sym_getattr(self, attr, ev, node):
        if attr == "T":
            return ITrans(self)
        raise Outside(f"2-D block attribute .{attr}")


class ITrans:
    def __init__(self, blk):
        self.blk = blk

    def sym_getattr(self, attr, ev, node):
        if attr == "flat":
            b = self.blk
            if not isinstance(b.rows, int):
                raise Outside("transpose-flat with a symbolic channel count")
            return IFlat(b.key, b.rows, b.lo, simp(b.n * b.rows))
        raise Outside(f"transposed block attribute .{attr}")


class IFlat:
    """(buffer[:, lo:lo+n]).T.flat : element k is buffer[k mod rows, lo + k div rows]   (A-NP-TFLAT)"""
    def __init__(self, key, rows, lo, n):
        self.key, self.rows, self.lo, self.n = key, rows, lo, n

    def at(self, arr, k):
        return z3.Select(arr, k % self.rows, self.lo + k / self.rows)


class U2PTable:
    def sym_getitem(self, sl, ev, node):
        v = ev.eval(sl)
        if not isinstance(v, IView):
            raise Outside("ULAW2PCM subscript form")
        (t,) = _fresh_ints("pt")
        arr = ev.st.ghost[v.key]
        ev.ex.oblige(ev.st, z3.ForAll([t], z3.Implies(z3.And(t >= 0, t < v.n), z3.And(v.sel(arr, t) >= 0, v.sel(arr, t) < 256))),
                     f"expansion_table_index_in_range.L{node.lineno - ev.ex.fx.lineno}", "wd", node.lineno)
        return IExpr(v, lambda x: U2P(x))


class DataView(IView):
    """the caller's output array; its length is not modelled (A-DATA-FITS)"""
    def _bounds(self, sl, ev, node):
        if sl.step is not None:
            raise Outside("stepped slice")
        lo = z3.IntVal(0) if sl.lower is None else Z(ev.eval(sl.lower))
        if sl.upper is None:
            return simp(lo), None
        hi = Z(ev.eval(sl.upper))
        ev.wd(z3.And(lo >= 0, lo <= hi), "slice_in_range", node)
        return simp(lo), simp(hi)

    def sym_getitem(self, sl, ev, node):
        if isinstance(sl, ast.Slice):
            lo, hi = self._bounds(sl, ev, node)
            if hi is None:
                ev.wd(lo >= 0, "slice_in_range", node)
                return DataView(self.key, None, self.lo + lo, 0)
            return IView(self.key, None, self.lo + lo, hi - lo)
        raise Outside("scalar read of the output array")

    def sym_setitem(self, sl, v, ev, node):
        if isinstance(sl, ast.Slice) and sl.upper is not None:
            lo, hi = self._bounds(sl, ev, node)
            tgt = IView(self.key, None, self.lo + lo, hi - lo)
            if isinstance(v, IFlat):
                ev.ex.oblige(ev.st, Z(v.n) == tgt.n, f"store_length.L{node.lineno - ev.ex.fx.lineno}", "wd", node.lineno)
                src = ev.st.ghost[v.key]
                tgt._write(ev.st, z3.IntVal(0), tgt.n, lambda u: v.at(src, u))
                return
            return tgt.sym_setitem(ast.Slice(lower=None, upper=None, step=None), v, ev, node)
        raise Outside("output store form")


def sel_loop(fn):
    import copy
    loops = [s for s in fn.body if isinstance(s, ast.While)]
    rets = [s for s in fn.body if isinstance(s, ast.Return)]
    if not loops or not rets:
        return []
    w = copy.deepcopy(loops[-1])
    blk = sel_block(w)
    if len(blk) < 2:
        return []
    drop = set(id(s) for s in blk[1:-1])
    for x in ast.walk(w):
        if isinstance(x, ast.If) and any(id(s) in drop for s in x.body):
            x.body = [s for s in x.body if id(s) not in drop]
    return [w, rets[-1]]


def setup_loop(nchan, convert, aukind):
    """aukind: 'AU' (ftype in {AU1, AU2}: samples are mu-law codes) | 'PCM'"""
    def setup(ex, st):
        bs0, nwrap, ftype = (api.sym(x) for x in ("blocksize0", "nwrap", "ftype"))
        st.assume(z3.And(bs0 >= 1, nwrap >= 3, z3.Or(ftype == 0, ftype == 8) if aukind == "AU" else z3.And(ftype >= 1, ftype <= 7)))
        st.ghost.update(BUF=z3.Array("BUF0", I, I, I), DATA=z3.Array("DATA0", I, I), EXPECT=z3.Array("EXPECT0", I, I),
                        gchan=0, gbs=bs0, gshift=0, gbase=0, gdone=0, gblk=0, gcmd=0)
        st.env.update(buffer=IArr2("BUF", nchan, bs0 + nwrap), data=DataView("DATA", None, 0, 0), nchan=nchan, blocksize=bs0, nwrap=nwrap, bitshift=0,
                      ftype=ftype, convert=convert, chan=0, sampsdone=0, error=Opaque("IOError", "exc"), cmd=0)
        k, t = z3.Ints("k_ t_")
        b, c = z3.Ints("b_ c_")
        # the block contract's postcondition + fix_bitshift's: mu-law codes come out of the outward table, i.e. are bytes (table checked below)
        if aukind == "AU":
            st.assume(z3.ForAll([b, c, t], z3.And(D(b, c, t) >= 0, D(b, c, t) <= 255)))
        ex.ctx = dict(nchan=nchan, convert=convert, bs0=bs0, nwrap=nwrap, ftype=ftype, aukind=aukind)
    return setup


def _out(c, x):
    return U2P(x) if c["convert"] else x


def _inv_loop_parts(ev):
    st, c = ev.st, ev.ex.ctx
    g = st.ghost
    env = st.env
    nch = c["nchan"]
    (k,) = _fresh_ints("lk")
    cc, i = _fresh_ints("lc", "li")
    data = env["data"]
    written = z3.ForAll([k], z3.Implies(z3.And(k >= 0, k < Z(g["gbase"])), z3.Select(g["DATA"], k) == _out(c, z3.Select(g["EXPECT"], k))))
    pending = z3.ForAll([cc, i], z3.Implies(z3.And(cc >= 0, cc < Z(g["gchan"]), i >= 0, i < Z(g["gbs"])),
                                            z3.Select(g["BUF"], cc, c["nwrap"] + i) == z3.Select(g["EXPECT"], Z(g["gbase"]) + i * nch + cc)))
    return {
        "position": z3.And(z3.BoolVal(isinstance(data, DataView)), data.lo == Z(g["gbase"]) if isinstance(data, IView) else False,
                           Z(env["sampsdone"]) == Z(g["gdone"]), Z(g["gbase"]) == Z(g["gdone"]) * nch, Z(g["gdone"]) >= 0),
        "channel": z3.And(Z(env["chan"]) == Z(g["gchan"]), Z(g["gchan"]) >= 0, Z(g["gchan"]) < nch),
        "stream_state": z3.And(Z(env["blocksize"]) == Z(g["gbs"]), Z(g["gbs"]) >= 1, Z(g["gbs"]) <= c["bs0"], Z(env["bitshift"]) == Z(g["gshift"]),
                               Z(g["gcmd"]) >= 0, Z(g["gblk"]) >= 0),
        "written": written, "pending": pending,
        # an iteration that neither returned nor raised was a block / BLOCKSIZE / BITSHIFT command (0-3, 5-8)
        "only_known_commands_continue": z3.Or(Z(g["gcmd"]) == 0, z3.And(CMD(Z(g["gcmd"])) >= 0, CMD(Z(g["gcmd"])) <= 8, CMD(Z(g["gcmd"])) != 4)),
        "pending_codes_are_bytes": z3.ForAll([cc, i], z3.Implies(z3.And(cc >= 0, cc < Z(g["gchan"]), i >= 0, i < Z(g["gbs"])),
                                                                 z3.And(z3.Select(g["BUF"], cc, c["nwrap"] + i) >= 0, z3.Select(g["BUF"], cc, c["nwrap"] + i) <= 255)))
        if c["aukind"] == "AU" else z3.BoolVal(True)}


def _inv_loop(ev, part):
    return _inv_loop_parts(ev)[part]


def h_loop_uvar_get(ex, st, args, kwargs, node, ev):
    what = ast.unparse(node.args[0]) if node.args else ""
    g = st.ghost
    if what == "FNSIZE":
        g["gcmd"] = simp(Z(g["gcmd"]) + 1)
        code = CMD(Z(g["gcmd"]))
        st.assume(code >= 0)
        return code
    if what == "BITSHIFTSIZE":
        v = OPER(Z(g["gcmd"]))
        st.assume(z3.And(v >= 0, v <= 31))
        g["gshift"] = v
        return v
    raise Outside(f"uvar_get({what}) in the command loop")


def h_loop_ulong_get(ex, st, args, kwargs, node, ev):
    g = st.ghost
    v = OPER(Z(g["gcmd"]))
    # a conforming encoder only ever shortens blocks, and announces a new size between complete blocks (before channel 0)
    st.assume(z3.And(v >= 1, v <= ex.ctx["bs0"], Z(g["gchan"]) == 0))
    g["gbs"] = v
    return v


def h_loop_fix(ex, st, args, kwargs, node, ev):
    """the block contract's postcondition, and the ghost bookkeeping of the specification"""
    lbl = f"L{node.lineno - ex.fx.lineno}"
    c, g = ex.ctx, st.ghost
    ok = len(args) == 4 and not kwargs and isinstance(args[0], IView) and args[0].key == "BUF"
    ex.oblige(st, ok, f"fix_bitshift_called_on_a_view_of_the_buffer.{lbl}", "trace", node.lineno)
    if not ok:
        raise Outside("fix_bitshift call form")
    v = args[0]
    ex.oblige(st, z3.And(v.row == Z(g["gchan"]), v.lo == c["nwrap"], v.n >= Z(g["gbs"])), f"block_decoded_into_the_expected_channel_row.{lbl}", "trace", node.lineno)
    ex.oblige(st, z3.And(Z(args[1]) == Z(g["gbs"]), Z(args[2]) == Z(g["gshift"]), Z(args[3]) == c["ftype"]),
              f"fix_up_gets_the_streams_blocksize_and_bitshift.{lbl}", "trace", node.lineno)
    ch, bs, base, blk, nch = Z(g["gchan"]), Z(g["gbs"]), Z(g["gbase"]), Z(g["gblk"]), c["nchan"]
    r_, t_ = _fresh_ints("br", "bt")
    hist = z3.Function(f"history!{next(symex._fresh)}", I, I)
    old = g["BUF"]
    g["BUF"] = z3.Lambda([r_, t_], z3.If(r_ == ch, z3.If(z3.And(t_ >= c["nwrap"], t_ < c["nwrap"] + bs), D(blk, ch, t_ - c["nwrap"]), hist(t_)), z3.Select(old, r_, t_)))
    (k_,) = _fresh_ints("ek")
    olde = g["EXPECT"]
    # EXPECT[base + i * nchan + ch] := D(blk, ch, i) for i < bs
    g["EXPECT"] = z3.Lambda([k_], z3.If(z3.And(k_ >= base, k_ < base + bs * nch, (k_ - base) % nch == ch), D(blk, ch, (k_ - base) / nch), z3.Select(olde, k_)))
    last = ch == nch - 1
    g["gchan"] = simp(z3.If(last, 0, ch + 1))
    g["gbase"] = simp(z3.If(last, base + bs * nch, base))
    g["gdone"] = simp(z3.If(last, Z(g["gdone"]) + bs, Z(g["gdone"])))
    g["gblk"] = simp(z3.If(last, blk + 1, blk))
    return None


def contract_loop():
    mc = extract.module_constants("_sphere")

    consts = {"INV": SpecFn(_inv_loop), "ULAW2PCM": U2PTable()}
    parts = ("position", "channel", "stream_state", "written", "pending", "pending_codes_are_bytes", "only_known_commands_continue")
    for k_, v_ in mc.items():
        if isinstance(v_, int) and k_ not in consts:
            consts[k_] = v_

    def result_ok(ev, res):
        st, c = ev.st, ev.ex.ctx
        g = st.ghost
        (k,) = _fresh_ints("rk")
        return z3.And(Z(res) == Z(g["gdone"]), z3.ForAll([k], z3.Implies(z3.And(k >= 0, k < Z(g["gdone"]) * c["nchan"]),
                                                                          z3.Select(g["DATA"], k) == _out(c, z3.Select(g["EXPECT"], k)))))

    consts["RESULT_OK"] = SpecFn(result_ok)
    consts["LAST_CMD"] = SpecFn(lambda ev: CMD(Z(ev.st.ghost["gcmd"])))
    consts["WHOLE_BLOCKS"] = SpecFn(lambda ev: Z(ev.st.ghost["gchan"]) == 0)
    c = Contract(
        target="_sphere:copy_shortened_samples", uses=["A-PYSEM", "A-INT32", "A-NP-TFLAT", "A-DATA-FITS", "A-BITREADER", "A-BLOCK"],
        consts=consts,
        handlers={"uvar_get": h_loop_uvar_get, "ulong_get": h_loop_ulong_get, "fix_bitshift": h_loop_fix, "binop": h_binop},
        loops={0: LoopSpec(kind="while", modifies_ghost=["BUF", "DATA", "EXPECT", "gchan", "gbs", "gshift", "gbase", "gdone", "gblk", "gcmd"],
                           types={"data": lambda hst, v: DataView("DATA", None, symex.fresh("dlo"), 0)},
                           invariant=[(p_, f"INV('{p_}')") for p_ in parts])},
        ensures=[("returns_samples_per_channel_and_the_interleaved_output", "RESULT_OK(result)"),
                 ("returns_only_on_QUIT", "LAST_CMD() == 4")],
    )
    c.canaries = [("returns_one_sample_more", "RESULT_OK(result + 1)")]
    c.raises_now = {"IOError": "LAST_CMD() >= 9"}
    return c


LOOP_LABELS = [f"{n}|{cv}|{au}" for n in (1, 2, 3) for (cv, au) in ((0, "PCM"), (0, "AU"), (1, "AU"))]


def generate_loop(prop, label):
    from contracts.registry import run_contract
    from pyvc.check import UnitResult
    n, cv, au = label.split("|")
    mc = extract.module_constants("_sphere")
    uo, nz = mc.get("ULAW_OUTWARD"), mc.get("NEGATIVE_ULAW_ZERO")
    u = UnitResult("shorten_loop")
    # the one fact about table CONTENTS the contract uses (mu-law codes after the fix-up are bytes): checked by enumeration, every run
    if not (isinstance(uo, list) and len(uo) == 13 and all(isinstance(r, list) and len(r) == 256 and all(isinstance(x, int) and 0 <= x <= 255 for x in r) for r in uo)
            and isinstance(nz, int) and 0 <= nz <= 255):
        u.outside.append(("_sphere:ULAW_OUTWARD", "the outward table is not a 13 x 256 table of bytes (or is no longer a literal)"))
        return u
    try:
        fx = extract.get_slice("_sphere", "copy_shortened_samples", sel_loop, "command loop with the block statements dropped (covered by shorten_block)")
    except KeyError as e:
        u.outside.append(("_sphere:copy_shortened_samples", str(e)))
        return u
    return run_contract(prop, fx, contract_loop(), [(label, setup_loop(int(n), bool(int(cv)), au))], name="shorten_loop", fname="shorten_loop")


def unit_loop(prop="C13"):
    def unit(tier, known):
        from contracts.registry import run_parallel
        jobs = [("contracts.shorten_block", "generate_loop", (prop, label)) for label in LOOP_LABELS]
        return run_parallel("shorten_loop", jobs, to_case=_to_case, replay_module="rtc.c13")
    unit.__name__ = "shorten_loop"
    return unit


# ------------------------------------------------------------------------------------------------------------- stream header
# The top-level statements before the decoder set-up, with the nested function definitions and the mask-table construction dropped
# (the closures are verified bit-precisely in contracts/shorten.py): version byte, reader initialisation, the six header fields and
# the skipped bytes.  IOError exactly when the buffer is shorter than magic + version, the version is not 1 or 2, or the file type is
# not one of shorten's nine; the bit reader starts right after the version byte with an empty word; the fields are read in the
# order ftype, nchan, blocksize, maxnlpc, nmean, nskip; nskip bytes are skipped; mu-law codes are expanded iff the caller's output type
# is wider than a byte and the stream holds mu-law (types AU1 / AU2).
ULONG = z3.Function("header_field", I, I)


class ByteBuf:
    def __init__(self, buflen, lo=0, hi=None):
        self.buflen, self.lo, self.hi = buflen, lo, hi

    def sym_len(self):
        if self.hi is not None:
            raise Outside("len of a buffer slice")
        return simp(self.buflen - self.lo)

    def sym_getitem(self, sl, ev, node):
        if not isinstance(sl, ast.Slice) or sl.step is not None:
            raise Outside("buffer subscript form")
        lo = 0 if sl.lower is None else ev.eval(sl.lower)
        hi = None if sl.upper is None else ev.eval(sl.upper)
        if not isinstance(lo, int) or not (hi is None or isinstance(hi, int)) or self.hi is not None:
            raise Outside("buffer slice with symbolic bounds")
        return ByteBuf(self.buflen, self.lo + lo, None if hi is None else self.lo + hi)

    def sym_getattr(self, attr, ev, node):
        if attr == "tobytes":
            return symex.PyCallable(lambda ev2, a, kw, n2: self)
        raise Outside(f"buffer attribute .{attr}")


def sel_header(fn):
    out = []
    for s in fn.body:
        txt = ast.unparse(s)
        if isinstance(s, ast.Assign) and txt.startswith("nwrap ="):
            break
        if isinstance(s, ast.FunctionDef):
            continue                                   # word_get / uvar_get / ulong_get / var_get: contracts/shorten.py
        if "masktab" in txt or (isinstance(s, ast.Assign) and txt.startswith("val =")):
            continue                                   # mask table: contracts/shorten.py
        out.append(s)
    return out


def setup_header(wide):
    def setup(ex, st):
        buflen, itemsize, version = api.sym("buflen"), api.sym("itemsize"), api.sym("version_byte")
        st.assume(z3.And(buflen >= 4, version >= -128, version <= 127))     # the caller saw the 4 magic bytes (copy_samples' contract)
        st.assume(itemsize >= 2 if wide else itemsize == 1)
        j = z3.Int("hj")
        st.assume(z3.ForAll([j], ULONG(j) >= 0))
        dt = api.mk_obj(st, "data_dtype", "DType", {"itemsize": itemsize})
        api.mk_obj(st, "data", "Data", {"dtype": dt})
        api.mk_obj(st, "word_get", "Closure", {"inpbuf": None})
        api.mk_obj(st, "uvar_get", "Closure", {"gbuffer": None, "nbitget": None})
        st.env.update(inpbuf=ByteBuf(buflen), error=Opaque("IOError", "exc"), file_=Opaque("file", "file"))
        st.ghost.update(nfields=0, xbytes=0, unpacked=0)
        ex.ctx = dict(buflen=buflen, itemsize=itemsize, version=version, wide=wide)
    return setup


def h_hdr_compare(ex, st, op, a, b, n, ev):
    if isinstance(a, ByteBuf) and isinstance(b, bytes) and isinstance(op, ast.Eq):
        ok = (a.lo, a.hi) == (0, 4)
        ex.oblige(st, ok, f"magic_looked_for_in_the_first_four_bytes.L{n.lineno - ex.fx.lineno}", "trace", n.lineno)
        return True          # precondition: the caller hands over a data section that starts with the magic
    return NotImplemented


def h_unpack(ex, st, args, kwargs, node, ev):
    ok = len(args) == 2 and args[0] == "b" and isinstance(args[1], ByteBuf) and (args[1].lo, args[1].hi) == (4, 5)
    ex.oblige(st, ok, f"version_is_the_signed_byte_after_the_magic.L{node.lineno - ex.fx.lineno}", "trace", node.lineno)
    if not ok:
        raise Outside("struct.unpack form")
    st.ghost["unpacked"] = 1
    return (ex.ctx["version"],)


def h_hdr_ulong(ex, st, args, kwargs, node, ev):
    k = st.ghost["nfields"]
    st.ghost["nfields"] = k + 1
    rd = st.fields.get(("word_get", "inpbuf"))
    ok = isinstance(rd, ByteBuf) and (rd.lo, rd.hi) == (5, None) and st.fields.get(("uvar_get", "gbuffer")) == 0 and st.fields.get(("uvar_get", "nbitget")) == 0
    ex.oblige(st, ok, f"bit_reader_starts_after_the_version_byte_with_an_empty_word.L{node.lineno - ex.fx.lineno}", "trace", node.lineno)
    return ULONG(z3.IntVal(k))


def h_hdr_uvar(ex, st, args, kwargs, node, ev):
    if len(args) == 1 and args[0] == 7:       # XBITESIZE: one skipped byte
        st.ghost["xbytes"] = simp(Z(st.ghost["xbytes"]) + 1)
        return symex.fresh("skipped_byte")
    raise Outside("uvar_get in the header slice")


def contract_header_slice():
    names = ("ftype", "nchan", "blocksize", "maxnlpc", "nmean", "nskip")

    def fields_ok(ev):
        env = ev.st.env
        return z3.And(z3.BoolVal(ev.st.ghost["nfields"] == 6), *[Z(env[nm]) == ULONG(z3.IntVal(k)) if nm in env and symex.is_z3(env[nm]) else z3.BoolVal(False) for k, nm in enumerate(names)])

    def convert_ok(ev):
        env, c = ev.st.env, ev.ex.ctx
        want = z3.And(c["itemsize"] > 1, z3.Or(ULONG(z3.IntVal(0)) == 0, ULONG(z3.IntVal(0)) == 8))
        return Zb(env["convert"]) == want

    def must_raise(ev):
        c = ev.ex.ctx
        bad_version = z3.Or(c["version"] < 1, c["version"] > 2)
        # (the file type is only looked at when the first two tests pass)
        return z3.Or(c["buflen"] < 5, bad_version, ULONG(z3.IntVal(0)) >= 9)

    consts = {"FIELDS_OK": SpecFn(fields_ok), "CONVERT_OK": SpecFn(convert_ok), "MUST_RAISE": SpecFn(must_raise),
              "XBYTES": SpecFn(lambda ev: Z(ev.st.ghost["xbytes"])), "memoryview": None}
    for k_, v_ in extract.module_constants("_sphere").items():
        if isinstance(v_, (int, bytes)) and k_ not in consts:
            consts[k_] = v_
    consts.pop("memoryview")
    c = Contract(
        target="_sphere:copy_shortened_samples", uses=["A-PYSEM", "A-BITREADER"],
        consts=consts,
        handlers={"memoryview": lambda ex, st, args, kwargs, node, ev: args[0], "compare": h_hdr_compare, "struct.unpack": h_unpack,
                  "ulong_get": h_hdr_ulong, "uvar_get": h_hdr_uvar, "warnings.warn": lambda ex, st, args, kwargs, node, ev: None},
        loops={0: LoopSpec(kind="for", modifies_ghost=["xbytes"], invariant=[("one_byte_per_iteration", "XBYTES() == _ and 0 <= _ <= nskip")])},
        ensures=[("six_fields_in_the_documented_order", "FIELDS_OK()"), ("expansion_iff_wide_output_and_mulaw_stream", "CONVERT_OK()"),
                 ("skips_nskip_bytes", "XBYTES() == nskip"), ("decoder_state_starts_clear", "chan_unset_bitshift_zero()")],
    )
    c.consts["chan_unset_bitshift_zero"] = SpecFn(lambda ev: z3.And(Z(ev.st.env["bitshift"]) == 0, Z(ev.st.env["sampsdone"]) == 0))
    c.raises_now = {"IOError": "MUST_RAISE()"}
    return c


def unit_header(prop="C13"):
    def unit(tier, known):
        from contracts.registry import run_contract
        from pyvc.check import UnitResult
        try:
            fx = extract.get_slice("_sphere", "copy_shortened_samples", sel_header, "stream header: version, reader initialisation, six fields, skipped bytes (closures and mask table dropped)")
        except KeyError as e:
            u = UnitResult("shorten_header")
            u.outside.append(("_sphere:copy_shortened_samples", str(e)))
            return u

        def tc(ob):
            try:
                from rtc import c13
                return list(c13._error_cases(0, "quick")) + list(c13._grid_cases(0, "quick"))[:30]
            except Exception:
                return None
        return run_contract(prop, fx, contract_header_slice(), [("wide_output", setup_header(True)), ("byte_output", setup_header(False))],
                            name="shorten_header", fname="shorten_header", to_case=tc, replay_module="rtc.c13")
    unit.__name__ = "shorten_header"
    return unit


# ------------------------------------------------------------------------------------------------------------- word_get (the refill)
# The closure that feeds the bit reader: the next four bytes of (buffered data section ++ rest of the file) as a big-endian signed
# word; the stream position advances by exactly four, no byte is skipped or read twice across a refill; IOError exactly when fewer
# than four bytes are left in buffer and file together (a stream that ends early).
WORD = z3.Function("be_word_at", I, I)


class SymBuf:
    """bytes [lo, lo + n) of the ghost stream"""
    def __init__(self, lo, n):
        self.lo, self.n = simp(Z(lo)), simp(Z(n))

    def sym_len(self):
        return self.n

    def sym_getitem(self, sl, ev, node):
        if not isinstance(sl, ast.Slice) or sl.step is not None:
            raise Outside("buffer subscript form")
        lo = 0 if sl.lower is None else ev.eval(sl.lower)
        hi = None if sl.upper is None else ev.eval(sl.upper)
        if not isinstance(lo, int) or lo < 0 or not (hi is None or (isinstance(hi, int) and hi >= lo)):
            raise Outside("buffer slice bounds")
        # Python slices clamp to the length
        a = simp(z3.If(self.n < lo, self.n, z3.IntVal(lo)))
        b = self.n if hi is None else simp(z3.If(self.n < hi, self.n, z3.IntVal(hi)))
        return SymBuf(self.lo + a, b - a)

    def sym_getattr(self, attr, ev, node):
        if attr == "tobytes":
            return symex.PyCallable(lambda ev2, a, kw, n2: self)
        raise Outside(f"buffer attribute .{attr}")


def _wg_binop(ex, st, op, a, b, n):
    if isinstance(op, ast.Add) and isinstance(a, SymBuf) and isinstance(b, SymBuf):
        ex.oblige(st, b.lo == a.lo + a.n, f"refill_continues_where_the_buffer_ends.L{n.lineno - ex.fx.lineno}", "trace", n.lineno)
        return SymBuf(a.lo, a.n + b.n)
    return NotImplemented


def _wg_read(ex, st, o, args, kwargs, node, ev):
    (k,) = args
    ev.wd(Z(k) >= 0, "read_size", node)
    fp, end = Z(st.ghost["fp"]), ex.ctx["end"]
    got = simp(z3.If(end - fp < Z(k), end - fp, Z(k)))
    st.ghost["fp"] = simp(fp + got)
    st.ghost["reads"] = st.ghost["reads"] + 1
    return SymBuf(fp, got)


def _wg_unpack(ex, st, args, kwargs, node, ev):
    if not (len(args) == 2 and isinstance(args[0], str) and isinstance(args[1], SymBuf)):
        raise Outside("struct.unpack form")
    ex.oblige(st, args[1].n == 4, f"unpack_gets_four_bytes.L{node.lineno - ex.fx.lineno}", "wd", node.lineno)
    if args[0] in (">l", "!l", ">i", "!i"):
        return (WORD(args[1].lo),)
    other = z3.Function("word_in_format_" + "".join(ch if ch.isalnum() else "_" for ch in args[0]), I, I)      # some other reading of the bytes
    return (other(args[1].lo),)


def _wg_setup(ex, st):
    p, L, end = api.sym("p"), api.sym("buffered"), api.sym("stream_end")
    st.assume(z3.And(p >= 0, L >= 0, end >= p + L))
    api.mk_obj(st, "word_get", "Closure", {"inpbuf": SymBuf(p, L)})
    api.mk_obj(st, "file_", "File", {})
    st.env["error"] = Opaque("IOError", "exc")
    st.ghost.update(fp=simp(p + L), reads=0)          # the file is positioned right after the buffered bytes
    ex.ctx = dict(p=p, L=L, end=end)


def contract_word_get():
    def after(ev):
        c, st = ev.ex.ctx, ev.st
        b = st.fields.get(("word_get", "inpbuf"))
        if not isinstance(b, SymBuf):
            return z3.BoolVal(False)
        return z3.And(b.lo == c["p"] + 4, b.lo + b.n == Z(st.ghost["fp"]), b.n >= 0)

    consts = {"AFTER": SpecFn(after), "WORD0": SpecFn(lambda ev: WORD(ev.ex.ctx["p"])), "LEFT": SpecFn(lambda ev: ev.ex.ctx["end"] - ev.ex.ctx["p"]),
              "READS": SpecFn(lambda ev: ev.st.ghost["reads"]), "BUFFERED": SpecFn(lambda ev: ev.ex.ctx["L"])}
    for k_, v_ in extract.module_constants("_sphere").items():
        if isinstance(v_, int) and k_ not in consts:
            consts[k_] = v_
    c = Contract(
        target="_sphere:copy_shortened_samples.<locals>.word_get", uses=["A-PYSEM", "A-IO-STREAM"],
        consts=consts,
        handlers={"memoryview": lambda ex, st, args, kwargs, node, ev: args[0], "binop": _wg_binop, "File.read": _wg_read, "struct.unpack": _wg_unpack},
        ensures=[("next_big_endian_word", "result == WORD0()"), ("advances_by_four_buffer_and_file_stay_contiguous", "AFTER()")],
    )
    c.raises_now = {"IOError": "LEFT() < 4"}
    return c


def unit_word_get(prop="C13"):
    def unit(tier, known):
        from contracts.registry import run_contract

        def tc(ob):
            try:
                from rtc import c13
                return list(c13._error_cases(0, "quick")) + list(c13._grid_cases(0, "quick"))[:30]
            except Exception:
                return None
        return run_contract(prop, ("_sphere", "copy_shortened_samples.<locals>.word_get"), contract_word_get(), [("", _wg_setup)], name="word_get",
                            to_case=tc, replay_module="rtc.c13")
    unit.__name__ = "word_get"
    return unit


# ------------------------------------------------------------------------------------------------------------- ulong_get
# The closure that reads the header fields and BLOCKSIZE operands: a ULONGSIZE-bit Rice value giving the width, then a value of that width.
def contract_ulong():
    def h(ex, st, args, kwargs, node, ev):
        k = st.ghost["ucalls"]
        st.ghost["ucalls"] = k + [args[0] if len(args) == 1 and not kwargs else None]
        return z3.Int("uvar_result_%d" % len(k))

    def ok(ev, res):
        calls = ev.st.ghost["ucalls"]
        if len(calls) != 2 or calls[0] != 2:
            return z3.BoolVal(False)
        return z3.And(Z(calls[1]) == z3.Int("uvar_result_0"), Z(res) == z3.Int("uvar_result_1"))

    consts = {"OK": SpecFn(ok)}
    for k_, v_ in extract.module_constants("_sphere").items():
        if isinstance(v_, int) and k_ not in consts:
            consts[k_] = v_
    return Contract(target="_sphere:copy_shortened_samples.<locals>.ulong_get", uses=["A-PYSEM", "A-BITREADER"], consts=consts,
                    handlers={"uvar_get": h}, ensures=[("width_field_then_a_value_of_that_width", "OK(result)")])


def unit_ulong(prop="C13"):
    def unit(tier, known):
        from contracts.registry import run_contract

        def setup(ex, st):
            st.ghost.update(ucalls=[])
        return run_contract(prop, ("_sphere", "copy_shortened_samples.<locals>.ulong_get"), contract_ulong(), [("", setup)], name="ulong_get",
                            to_case=_to_case, replay_module="rtc.c13")
    unit.__name__ = "ulong_get"
    return unit

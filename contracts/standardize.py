"""Sidecar contracts: post.py Standardize._accumulate_vector, Standardize._apply_vector, have_stats (properties C16, C17).

Abstract view of the object: the sufficient statistics (count, sum_j, sumsq_j). `_stats` is the 2 x (n+1) float64 array
[[sum_0..sum_{n-1}, count], [sumsq_0..sumsq_{n-1}, 0]], modelled as two 1-D rows.
  accumulate (vector)   view' = view + (1, x, x^2)  - additive, so any split or order of the same vectors gives the same view
                        (sums are additive and permutation invariant, A-NP-RED); ValueError on a length mismatch before any write
  class invariant       count is a non-negative integer, every sum of squares is >= 0, the spare cell stays 0
                        (established by np.zeros, preserved by accumulate) - this is Image(save) of C17: the loader's validity test
                        `round(count) ~ count, count >= 0, sums of squares >= 0` accepts every state the invariant allows
  apply (vector)        out_j = (x_j - mean_j) * k_j,  mean_j = sum_j / count,  k_j = 1/sqrt(sumsq_j/count - mean_j^2) (norm_var) or 1
                        result float64, input untouched unless in_place and float64
Precondition of the real-arithmetic apply clause: no variance is within np.isclose's tolerance of 0 (observation O-3).
"""
import ast

import z3

from pyvc import api, symex
from pyvc.api import I, R, SpecFn, Z, Zb, Arr, Opaque, simp, to_real, Outside
from pyvc.symex import fresh,  Contract


class Stats2:
    """the 2 x (n+1) statistics array as two rows"""

    def __init__(self, row0, row1, width):
        self.row0, self.row1, self.width = row0, row1, width

    def sym_getattr(self, name, ev, node):
        if name == "shape":
            return (2, self.width)
        raise Outside(f"stats attribute .{name}")

    def _split(self, sl, ev):
        if not (isinstance(sl, ast.Tuple) and len(sl.elts) == 2):
            raise Outside("stats subscript form")
        r = simp(ev.eval(sl.elts[0]))
        if r not in (0, 1):
            raise Outside("stats row index")
        return (self.row0 if r == 0 else self.row1), sl.elts[1]

    def sym_getitem(self, sl, ev, node):
        row, inner = self._split(sl, ev)
        if isinstance(inner, ast.Slice):
            return ev.slice_view(row, inner, node)
        j = ev.norm_index(row, ev.eval(inner), node)
        return ev.st.select(row, j)

    def sym_setitem(self, sl, v, ev, node):
        row, inner = self._split(sl, ev)
        return ev.ex._store(ev.st, row, inner, v, node, ev)


def _mk_stats(st, width, fresh=False):
    r0 = api.mk_array(st, "row0", width, owner="self._stats", content=z3.K(I, z3.RealVal(0)) if fresh else None)
    r1 = api.mk_array(st, "row1", width, owner="self._stats", content=z3.K(I, z3.RealVal(0)) if fresh else None)
    return Stats2(r0, r1, width)


def h_zeros(ex, st, args, kwargs, node, ev):
    shape = args[0]
    if isinstance(shape, tuple) and len(shape) == 2 and simp(shape[0]) == 2:
        s2 = _mk_stats(st, shape[1], fresh=True)
        st.ghost["fresh_stats"] = True
        return s2
    raise Outside("np.zeros form")


def h_astype(ex, st, o, args, kwargs, node, ev):
    k = z3.Int("k!%d" % next(symex._fresh))
    src = st.heap[o.root].content
    return st.new_root(o.n, z3.Lambda([k], z3.Select(src, o.idx(k))), "float64", "fresh", "astype")


def h_square(ex, st, args, kwargs, node, ev):
    (a,) = args
    return api.elementwise(st, lambda x: x * x, a, name="sq")


def h_arr_binop(ex, st, op, a, b, node, ev):
    if not isinstance(a, Arr) and not isinstance(b, Arr):
        raise Outside(f"array arithmetic on {type(a).__name__} and {type(b).__name__} at line {node.lineno}")
    if isinstance(a, Arr) and isinstance(b, Arr):
        ev.wd(Z(a.n) == Z(b.n), "bcast", node)
    if isinstance(op, ast.Pow):
        if symex.concrete(b) and b == 2:
            return api.elementwise(st, lambda x: x * x, a, name="pow2")
        from fractions import Fraction
        if symex.concrete(b) and b == Fraction(1, 2):
            ex.assumption_ids.add("A-MATH")
            return api.elementwise(st, lambda x: api.SQRT(x), a, name="sqrt")
        raise Outside("array power")
    if isinstance(op, ast.Div):
        if not isinstance(b, Arr):
            ev.wd(to_real(b) != 0, "div0", node)
        return api.elementwise(st, lambda x, y: x / y, a, b, name="div")
    f = {ast.Mult: lambda x, y: x * y, ast.Sub: lambda x, y: x - y, ast.Add: lambda x, y: x + y}.get(type(op))
    if f is None:
        raise Outside("array operator")
    return api.elementwise(st, f, a, b, name="tmp")


def h_isclose(ex, st, args, kwargs, node, ev):
    return Opaque("close_zero_mask", "mask")


def h_any(ex, st, args, kwargs, node, ev):
    # precondition of the clause (O-3): no variance within np.isclose's tolerance of zero
    ex.assumption_ids.add("precondition: every variance exceeds np.isclose's absolute tolerance (O-3)")
    return False


def h_have_stats(ex, st, o, node):
    s = st.fields[("self", "_stats")]
    if s is None:
        return False
    return simp(st.select(s.row0, Z(s.width) - 1) != 0)


# ------------------------------------------------------------------------------------------ _accumulate_vector

def setup_acc(have):
    def setup(ex, st):
        n = api.sym("n")
        st.assume(n >= 1)
        vec = api.mk_array(st, "vec", n, owner="param:vec")
        st.env["vec"] = vec
        if have:
            w = api.sym("stats_width")
            st.assume(w >= 1)
            stats = _mk_stats(st, w)
        else:
            stats = None
        api.mk_obj(st, "self", "Standardize", {"_stats": stats, "_norm_var": "bool"})
        st.ghost.update(R0=st.heap["row0"].content if have else z3.K(I, z3.RealVal(0)), R1=st.heap["row1"].content if have else z3.K(I, z3.RealVal(0)),
                        V=st.heap["vec"].content, N=n)
        ex.ctx = dict(n=n, have=have)
        if have:
            # class invariant on entry
            k = z3.Int("ik")
            c = z3.Select(st.ghost["R0"], w - 1)
            st.assume(z3.And(z3.IsInt(c), c >= 0, z3.Select(st.ghost["R1"], w - 1) == 0))
            st.assume(z3.ForAll([k], z3.Implies(z3.And(k >= 0, k < w - 1), z3.Select(st.ghost["R1"], k) >= 0)))
    return setup


def _row(ev, which, k):
    s = ev.st.fields[("self", "_stats")]
    return ev.st.select(s.row0 if which == 0 else s.row1, k)


CONSTS = {
    "np.float64": Opaque(z3.StringVal("float64"), "dtype"),
    "ROW0": SpecFn(lambda ev, k: _row(ev, 0, k)), "ROW1": SpecFn(lambda ev, k: _row(ev, 1, k)),
    "WIDTH": SpecFn(lambda ev: Z(ev.st.fields[("self", "_stats")].width) if ev.st.fields[("self", "_stats")] is not None else z3.IntVal(0)),
    "ISINT": SpecFn(lambda ev, x: z3.IsInt(to_real(x))),
    "HAVE": SpecFn(lambda ev: ev.ex.ctx["have"]),
}


def contract_accumulate_vector():
    c = Contract(
        target="post:Standardize._accumulate_vector",
        uses=["A-REAL", "A-PYSEM", "A-NP-SLICE", "A-NP-RED"],
        consts=dict(CONSTS),
        handlers={"np.zeros": h_zeros, "arr.astype": h_astype, "np.square": h_square, "arr_binop": h_arr_binop},
        raises={"ValueError": "HAVE() and old(WIDTH()) != N + 1"},
        ensures=[
            ("width", "WIDTH() == N + 1"),
            ("count_plus_one", "ROW0(N) == R0[N] + 1"),
            ("sums_additive", "forall(j, 0, N, ROW0(j) == R0[j] + V[j])"),
            ("squares_additive", "forall(j, 0, N, ROW1(j) == R1[j] + V[j] * V[j])"),
            ("spare_cell_untouched", "ROW1(N) == R1[N]"),
            ("inv_count_is_a_nonnegative_integer", "ISINT(ROW0(N)) and ROW0(N) >= 1"),
            ("inv_squares_nonnegative", "forall(j, 0, N, ROW1(j) >= 0)"),
        ],
    )
    c.frame_empty_on_raise = True
    c.no_param_writes = True
    c.lazy_products = False
    c.canaries = [("count_plus_two", "ROW0(N) == R0[N] + 2")]
    return c


# ------------------------------------------------------------------------------------------ _apply_vector (with statistics)

def setup_apply(ex, st):
    n = api.sym("n")
    st.assume(n >= 1)
    vec = api.mk_array(st, "vec", n, owner="param:vec")
    f64 = api.sym("input_is_float64", "bool")
    st.heap["vec"].dtype = z3.If(f64, z3.StringVal("float64"), z3.StringVal("other"))
    stats = _mk_stats(st, simp(n + 1))
    api.mk_obj(st, "self", "Standardize", {"_stats": stats, "_norm_var": "bool"})
    st.env.update({"vec": vec, "in_place": api.sym("in_place", "bool")})
    R0, R1 = st.heap["row0"].content, st.heap["row1"].content
    cnt = z3.Select(R0, n)
    st.assume(cnt >= 1)
    k = z3.Int("ik")
    var = lambda j: z3.Select(R1, j) / cnt - (z3.Select(R0, j) / cnt) * (z3.Select(R0, j) / cnt)
    st.assume(z3.ForAll([k], z3.Implies(z3.And(k >= 0, k < n), var(k) > 0)))
    sq = api.SQRT
    x = z3.Real("sx")
    ex.axioms.append(z3.ForAll([x], z3.Implies(x > 0, z3.And(sq(x) > 0, sq(x) * sq(x) == x)), patterns=[sq(x)]))
    st.ghost.update(R0=R0, R1=R1, V=st.heap["vec"].content, N=n, f64=f64)
    ex.ctx = dict(n=n)


def contract_apply_vector():
    def res(ev, r, k):
        return ev.st.select(r, k)
    consts = dict(CONSTS)
    consts.update({
        "RES": SpecFn(res), "SQRT": SpecFn(lambda ev, x: api.SQRT(to_real(x))), "F64": SpecFn(lambda ev: ev.st.ghost["f64"]),
        "IS_F64": SpecFn(lambda ev, r: Z(ev.st.heap[r.root].dtype) == z3.StringVal("float64")),
        "INPUT_NOW": SpecFn(lambda ev, k: z3.Select(ev.st.heap["vec"].content, Z(k))),
        "SAME_OBJECT": SpecFn(lambda ev, r: r.root == "vec"),
    })
    c = Contract(
        target="post:Standardize._apply_vector",
        uses=["A-REAL", "A-PYSEM", "A-NP-SLICE", "A-MATH"],
        consts=consts,
        handlers={"attr:have_stats": h_have_stats, "arr.astype": h_astype, "arr_binop": h_arr_binop, "np.isclose": h_isclose, "np.any": h_any},
        lets={"CNT": "R0[N]"},
        ensures=[
            ("length", "len(result) == N"),
            ("standardised", "forall(j, 0, N, RES(result, j) == (V[j] - R0[j] / CNT) * ite(self._norm_var, 1 / SQRT(R1[j] / CNT - (R0[j] / CNT) * (R0[j] / CNT)), 1))"),
            ("float64", "IS_F64(result)"),
            ("input_untouched_unless_in_place", "implies(not (in_place and F64()), forall(j, 0, N, INPUT_NOW(j) == V[j]))"),
            ("in_place_writes_through", "implies(in_place and F64(), SAME_OBJECT(result))"),
            ("statistics_untouched", "forall(j, 0, N + 1, ROW0(j) == R0[j] and ROW1(j) == R1[j])"),
        ],
    )
    c.param_writes_only_if = "in_place and F64()"
    c.lazy_products = False
    c.canaries = [("mean_not_scaled", "forall(j, 0, N, RES(result, j) == V[j] * ite(self._norm_var, 1 / SQRT(R1[j] / CNT - (R0[j] / CNT) * (R0[j] / CNT)), 1) - R0[j] / CNT)")]
    return c


def unit_sanitize_accepts_saved(prop="C17"):
    """lemma (C17): every statistics array satisfying the class invariant passes _sanitize_stats's validity test as it stands in
    the source (read from the AST): valid = isclose(round(count), count) & (count >= 0) & all(squares >= 0)"""
    def unit(tier, known):
        from pyvc import extract
        from pyvc.check import UnitResult
        from pyvc.symex import Obligation
        u = UnitResult("sanitize_accepts_saved")
        try:
            fx = extract.get_function("post", "Standardize._sanitize_stats")
        except KeyError as e:
            u.outside.append(("post:Standardize._sanitize_stats", str(e)))
            return u
        u.functions.append(fx.describe())
        # the validity test: the statements `valid = ...` / `valid &= ...` inside the try block
        tests = []
        for n in ast.walk(fx.node):
            if isinstance(n, ast.Assign) and ast.unparse(n.targets[0]) == "valid" and not isinstance(n.value, ast.Constant):
                tests.append(ast.unparse(n.value))
            if isinstance(n, ast.AugAssign) and ast.unparse(n.target) == "valid" and isinstance(n.op, ast.BitAnd):
                tests.append(ast.unparse(n.value))
        count, sq, sm = z3.Real("count"), z3.Real("sumsq_j"), z3.Real("sum_j")
        inv = [z3.IsInt(count), count >= 1, sq >= 0]
        known_forms = {
            "np.isclose(np.round(self._stats[0, -1]), self._stats[0, -1])": z3.BoolVal(True),  # round(c) == c for integer c (A-REAL)
            "self._stats[0, -1] >= 0 and np.all(self._stats[1] >= 0)": z3.And(count >= 0, sq >= 0),
            "np.all(self._stats >= 0)": z3.And(count >= 0, sq >= 0, sm >= 0),
        }
        for t in tests:
            if t not in known_forms:
                u.outside.append(("post:Standardize._sanitize_stats", f"validity clause `{t}` is not one the lemma knows (contract drift)"))
                continue
            u.obligations.append(Obligation(f"{prop}._sanitize_stats.accepts_every_saved_state", inv, known_forms[t], "lemma", fx.lineno))
        if not tests:
            u.outside.append(("post:Standardize._sanitize_stats", "no validity test found (contract drift)"))
        u.to_case = lambda ob: [{"kind": "negative_raw"}]
        return u
    unit.__name__ = "sanitize_accepts_saved"
    return unit


def to_case(ob):
    """the C16 stand-in's own deterministic cases (first 60 of its quick enumeration): they cover vectors and tensors, in_place
    both ways, float64 / float32 / int inputs"""
    from rtc import c16
    out = []
    for k, c in enumerate(c16._cases("quick", 0)):
        out.append(c)
        if k >= 1500:
            break
    # tensors with variance normalisation first when the obligation is about the tensor path
    if "tensor" in ob.id:
        out.sort(key=lambda c: 0 if c.get("norm_var") else 1)
    return out[:300]


# ------------------------------------------------------------------------------------------ have_stats

def setup_have(have):
    def setup(ex, st):
        if have:
            w = api.sym("stats_width")
            st.assume(w >= 1)
            stats = _mk_stats(st, w)
            cnt = z3.Select(st.heap["row0"].content, w - 1)
            st.assume(z3.And(cnt >= 0, z3.IsInt(cnt)))  # class invariant: the count is a non-negative integer
        else:
            stats = None
        api.mk_obj(st, "self", "Standardize", {"_stats": stats})
        ex.ctx = dict(have=have)
    return setup


def contract_have_stats():
    def truth(ev, r):
        return Zb(r)
    c = Contract(
        target="post:Standardize.have_stats",
        uses=["A-PYSEM"],
        consts={"TRUTH": SpecFn(truth), "HAVE": SpecFn(lambda ev: ev.ex.ctx["have"]),
                "COUNT": SpecFn(lambda ev: _row(ev, 0, Z(ev.st.fields[("self", "_stats")].width) - 1) if ev.st.fields[("self", "_stats")] is not None else z3.RealVal(0))},
        ensures=[("true_iff_at_least_one_vector", "TRUTH(result) == (HAVE() and COUNT() >= 1)")],
    )
    return c


# ------------------------------------------------------------------------------------------ tensors (ranks 2 and 3, every axis)

class STensor:
    """N-D feature tensor of fixed rank: sizes symbolic; reductions over 'the other axes' are uninterpreted sums per coefficient"""

    def __init__(self, dims, name="tensor", squared=False):
        self.dims, self.name, self.squared = tuple(dims), name, squared

    def sym_len(self):
        return self.dims[0]

    def sym_getattr(self, attr, ev, node):
        if attr == "shape":
            return tuple(self.dims)
        if attr == "ndim":
            return len(self.dims)
        if attr == "sum":
            def _sum(ev2, args, kwargs, node2):
                axes = kwargs.get("axis", args[0] if args else None)
                if not isinstance(axes, tuple) or not all(isinstance(a, int) for a in axes):
                    raise Outside("tensor.sum axis form")
                d = len(self.dims)
                keep = [j for j in range(d) if j not in [a % d for a in axes]]
                ev2.ex.oblige(ev2.st, len(keep) == 1 and len(set(a % d for a in axes)) == len(axes) == d - 1, f"reduces_all_axes_but_one.L{node2.lineno - ev2.ex.fx.lineno}", "spec", node2.lineno)
                if len(keep) != 1:
                    raise Outside("tensor.sum does not keep exactly one axis")
                F = TSQ if self.squared else TSUM
                f = z3.Int("tf!%d" % next(symex._fresh))
                arr = ev2.st.new_root(self.dims[keep[0]], z3.Lambda([f], F(keep[0], f)), "float64", "fresh", "tsum")
                ev2.st.ghost.setdefault("kept_axes", []).append(keep[0])
                ev2.ex.assumption_ids.add("A-NP-RED")
                return arr
            return symex.PyCallable(_sum)
        raise Outside(f"tensor attribute .{attr}")


TSUM = z3.Function("sum_over_other_axes", I, I, R)       # (kept axis, coefficient) -> sum of the tensor's entries with that coefficient
TSQ = z3.Function("sumsq_over_other_axes", I, I, R)     # ... of their squares


def h_square_any(ex, st, args, kwargs, node, ev):
    (a,) = args
    if isinstance(a, STensor):
        return STensor(a.dims, a.name, squared=True)
    return h_square(ex, st, args, kwargs, node, ev)


def h_prod(ex, st, args, kwargs, node, ev):
    (t,) = args
    if not isinstance(t, tuple):
        raise Outside("np.prod form")
    r = z3.IntVal(1)
    for x in t:
        r = r * Z(x)
    r = simp(r)
    if len(t) <= 1:
        return r
    p = fresh("prod")  # a name for the (non-linear) product: what is done with it afterwards is linear
    st.assume(p == r)
    return p


def setup_acc_tensor(d, axis, have):
    def setup(ex, st):
        dims = [api.sym("n%d" % j) for j in range(d)]
        st.assume(z3.And(*[x >= 1 for x in dims]))
        st.env.update({"tensor": STensor(dims), "axis": axis})
        keep = axis % d
        n = dims[keep]
        if have:
            w = api.sym("stats_width")
            st.assume(w >= 1)
            stats = _mk_stats(st, w)
        else:
            stats = None
        api.mk_obj(st, "self", "Standardize", {"_stats": stats, "_norm_var": "bool"})
        other = z3.IntVal(1)
        for j, x in enumerate(dims):
            if j != keep:
                other = other * x
        # the number of vectors in the tensor, named so that integrality of the new count is a linear fact
        P = api.sym("vectors_in_tensor")
        st.assume(P == other)
        st.ghost.update(R0=st.heap["row0"].content if have else z3.K(I, z3.RealVal(0)), R1=st.heap["row1"].content if have else z3.K(I, z3.RealVal(0)),
                        N=n, OTHER=P, KEEP=keep)
        ex.ctx = dict(n=n, have=have, keep=keep)
        cnt0 = api.sym("count_before")
        st.assume(cnt0 >= 0)
        if have:
            # class invariant on entry: the count cell holds a non-negative INTEGER
            st.assume(z3.Select(st.ghost["R0"], w - 1) == z3.ToReal(cnt0))
        else:
            st.assume(cnt0 == 0)
        st.ghost["INTCOUNT"] = z3.ToReal(cnt0 + P)
        # squares are non-negative (A-NP-RED: a sum of squares)
        f = z3.Int("qf")
        st.assume(z3.ForAll([f], TSQ(keep, f) >= 0, patterns=[TSQ(keep, f)]))
    return setup


def contract_accumulate_tensor():
    consts = dict(CONSTS)
    consts.update({"TSUM": SpecFn(lambda ev, f: TSUM(ev.ex.ctx["keep"], Z(f))), "TSQ": SpecFn(lambda ev, f: TSQ(ev.ex.ctx["keep"], Z(f))),
                   "KEPT_OK": SpecFn(lambda ev: ev.st.ghost.get("kept_axes", []) == [ev.ex.ctx["keep"]] * 2)})
    c = Contract(
        target="post:Standardize._accumulate_tensor",
        uses=["A-REAL", "A-PYSEM", "A-NP-SLICE", "A-NP-RED"],
        consts=consts,
        handlers={"np.zeros": h_zeros, "np.square": h_square_any, "np.prod": h_prod, "arr_binop": h_arr_binop},
        raises={"ValueError": "HAVE() and old(WIDTH()) != N + 1"},
        ensures=[
            ("width_is_chosen_axis_plus_one", "WIDTH() == N + 1"),
            ("count_plus_number_of_vectors", "ROW0(N) == R0[N] + OTHER"),
            ("sums_over_the_other_axes", "KEPT_OK() and forall(j, 0, N, ROW0(j) == R0[j] + TSUM(j))"),
            ("squares_over_the_other_axes", "forall(j, 0, N, ROW1(j) == R1[j] + TSQ(j))"),
            ("spare_cell_untouched", "ROW1(N) == R1[N]"),
            ("inv_count_is_a_positive_integer", "ROW0(N) == INTCOUNT and INTCOUNT >= 1"),  # INTCOUNT is to_real of an integer term
        ],
    )
    c.frame_empty_on_raise = True
    c.no_param_writes = True
    c.lazy_products = False
    c.canaries = [("count_plus_one_only", "ROW0(N) == R0[N] + 1 and OTHER != 1")]
    return c


def tensor_labels():
    return ["d%d_axis%d_%s" % (d, a, "have" if h else "first") for d in (2, 3) for a in range(-d, d) for h in (False, True)]


def generate_tensor(prop, label):
    import re
    from contracts.registry import run_contract
    m = re.match(r"d(\d)_axis(-?\d)_(have|first)", label)
    d, a, h = int(m.group(1)), int(m.group(2)), m.group(3) == "have"
    return run_contract(prop, ("post", "Standardize._accumulate_tensor"), contract_accumulate_tensor(), [(label, setup_acc_tensor(d, a, h))],
                        name="std_accumulate_tensor", fname="Standardize._accumulate_tensor")


# ------------------------------------------------------------------------------------------ _apply_tensor (ranks 2 and 3, every axis)

TMEAN = z3.Function("mean_over_other_axes", I, I, R)


class ATensor:
    """tensor with a tracked element map: elem(index tuple) -> Real; `obj` names the array object (input / copy)"""

    def __init__(self, dims, elem, dtype, obj):
        self.dims, self.elem, self.dtype, self.obj = tuple(dims), elem, dtype, obj

    def sym_len(self):
        return self.dims[0]

    def _keep(self, ev, axes, node):
        d = len(self.dims)
        if not isinstance(axes, tuple) or not all(isinstance(a, int) for a in axes):
            raise Outside("reduction axis form")
        keep = [j for j in range(d) if j not in [a % d for a in axes]]
        ev.ex.oblige(ev.st, len(keep) == 1 and len(axes) == d - 1, f"reduces_all_axes_but_one.L{node.lineno - ev.ex.fx.lineno}", "spec", node.lineno)
        if len(keep) != 1:
            raise Outside("reduction does not keep exactly one axis")
        ev.st.ghost.setdefault("kept_axes", []).append(keep[0])
        return keep[0]

    def sym_getattr(self, attr, ev, node):
        if attr == "shape":
            return tuple(self.dims)
        if attr == "ndim":
            return len(self.dims)
        if attr == "dtype":
            return Opaque(self.dtype, "dtype")
        if attr == "astype":
            def astype(ev2, args, kwargs, node2):
                ev2.st.ghost["copies"] = ev2.st.ghost.get("copies", 0) + 1
                t = ATensor(self.dims, self.elem, args[0].term, "copy")
                t.is_input_values = getattr(self, "is_input_values", False)
                return t
            return symex.PyCallable(astype)
        if attr in ("mean", "sum"):
            def red(ev2, args, kwargs, node2):
                keep = self._keep(ev2, kwargs.get("axis", args[0] if args else None), node2)
                if getattr(self, "is_input_values", False) is False and not getattr(self, "squared", False):
                    raise Outside("reduction of a derived tensor")
                F = TMEAN if attr == "mean" else (TSQ if getattr(self, "squared", False) else TSUM)
                f = z3.Int("tf!%d" % next(symex._fresh))
                ev2.ex.assumption_ids.add("A-NP-RED")
                return ev2.st.new_root(self.dims[keep], z3.Lambda([f], F(keep, f)), "float64", "fresh", "tred")
            return symex.PyCallable(red)
        raise Outside(f"tensor attribute .{attr}")

    def sym_setitem(self, sl, v, ev, node):
        # tensor[...] = scalar
        if not (isinstance(sl, ast.Constant) and sl.value is Ellipsis) or not symex.is_num(v):
            raise Outside("tensor store form")
        _note_write(ev, self, node)
        vv = to_real(v)
        new = ATensor(self.dims, lambda idx: vv, self.dtype, self.obj)
        for k2, v2 in list(ev.st.env.items()):
            if v2 is self:
                ev.st.env[k2] = new


class BView:
    """arr[(None, .., slice(None), .., None)]: a 1-D array broadcast along one axis of a tensor"""

    def __init__(self, arr, axis, rank):
        self.arr, self.axis, self.rank = arr, axis, rank


def _note_write(ev, t, node):
    ex, st = ev.ex, ev.st
    if t.obj == "input":
        st.writes.append(("param:tensor", "in-place arithmetic"))
        ok = ex.spec(st, "in_place and F64()")
        ex.oblige(st, ok, f"store_into_parameter_allowed.L{node.lineno - ex.fx.lineno}", "frame", node.lineno)


def _len1(arr):
    n = simp(Z(arr.n))
    if isinstance(n, int):
        return n == 1
    return z3.is_int_value(n) and n.as_long() == 1


def h_arr_binop_bcast1(ex, st, op, a, b, node, ev):
    """numpy broadcasting of a length-1 array (np.ones(1)) against a vector: the single element acts as a scalar"""
    if isinstance(a, Arr) and isinstance(b, Arr):
        if _len1(b) and not _len1(a):
            return h_arr_binop(ex, st, op, a, st.select(b, 0), node, ev)
        if _len1(a) and not _len1(b):
            f = {ast.Mult: lambda x, y: x * y, ast.Add: lambda x, y: x + y}.get(type(op))
            if f is not None:
                return h_arr_binop(ex, st, op, b, st.select(a, 0), node, ev)
    return h_arr_binop(ex, st, op, a, b, node, ev)


def h_binop_tensor(ex, st, op, a, b, node):
    ev = symex.Evaluator(ex, st)
    if isinstance(a, ATensor) and isinstance(b, BView):
        d = len(a.dims)
        one = _len1(b.arr)
        ex.oblige(st, b.rank == d and (one or z3.And(Z(b.arr.n) == Z(a.dims[b.axis]))) if b.rank == d else False, f"broadcast_along_the_chosen_axis.L{node.lineno - ex.fx.lineno}", "wd", node.lineno)
        st.ghost.setdefault("bcast_axes", []).append(b.axis)
        e, arr, ax = a.elem, b.arr, b.axis
        if one:
            c0 = st.select(arr, 0)
            f1 = {ast.Mult: lambda x, y: x * y, ast.Sub: lambda x, y: x - y}.get(type(op))
            if f1 is None:
                raise Outside("tensor operator")
            return ATensor(a.dims, lambda idx: f1(e(idx), c0), a.dtype, a.obj)
        f = {ast.Mult: lambda x, y: x * y, ast.Sub: lambda x, y: x - y}.get(type(op))
        if f is None:
            raise Outside("tensor operator")
        content = st.heap[arr.root].content
        if getattr(ev, "_aug_target", None) is not None or True:
            pass
        new = ATensor(a.dims, lambda idx: f(e(idx), z3.Select(content, Z(arr.off) + arr.step * Z(idx[ax]))), a.dtype, a.obj)
        return new
    if isinstance(a, ATensor) and isinstance(op, ast.Pow) and symex.concrete(b) and b == 2:
        t = ATensor(a.dims, lambda idx: a.elem(idx) * a.elem(idx), a.dtype, "tmp")
        t.squared = True
        t.is_input_values = getattr(a, "is_input_values", False)
        return t
    return NotImplemented


def h_tuple_index(ex, st, arr, idx, node, ev):
    from pyvc.symex import PySlice
    full = [k for k, e in enumerate(idx) if isinstance(e, PySlice) and e.is_full()]
    if len(full) != 1 or not all(e is None or (isinstance(e, PySlice) and e.is_full()) for e in idx):
        raise Outside("tuple index form")
    return BView(arr, full[0], len(idx))


class _ArrWithNoneIndex:
    pass


def setup_apply_tensor(d, axis, have):
    def setup(ex, st):
        dims = [api.sym("n%d" % j) for j in range(d)]
        st.assume(z3.And(*[x >= 1 for x in dims]))
        keep = axis % d
        n = dims[keep]
        X = z3.Function("X", *([I] * d + [R]))
        f64 = api.sym("input_is_float64", "bool")
        t = ATensor(dims, lambda idx: X(*[Z(i) for i in idx]), z3.If(f64, z3.StringVal("float64"), z3.StringVal("other")), "input")
        t.is_input_values = True
        st.env.update({"tensor": t, "axis": axis, "in_place": api.sym("in_place", "bool")})
        stats = _mk_stats(st, simp(n + 1)) if have else None
        api.mk_obj(st, "self", "Standardize", {"_stats": stats, "_norm_var": "bool"})
        other = z3.IntVal(1)
        for j, x in enumerate(dims):
            if j != keep:
                other = other * x
        st.ghost.update(N=n, f64=f64, copies=0)
        ex.ctx = dict(n=n, have=have, keep=keep, d=d, dims=dims, X=X, other=simp(other))
        sq = api.SQRT
        x = z3.Real("sx")
        ex.axioms.append(z3.ForAll([x], z3.Implies(x > 0, z3.And(sq(x) > 0, sq(x) * sq(x) == x)), patterns=[sq(x)]))
        k = z3.Int("ik")
        if have:
            R0, R1 = st.heap["row0"].content, st.heap["row1"].content
            cnt = z3.Select(R0, n)
            st.assume(cnt >= 1)
            var = lambda j: z3.Select(R1, j) / cnt - (z3.Select(R0, j) / cnt) * (z3.Select(R0, j) / cnt)
            st.assume(z3.ForAll([k], z3.Implies(z3.And(k >= 0, k < n), var(k) > 0)))
            st.ghost.update(R0=R0, R1=R1)
            ex.ctx.update(mean=lambda j: z3.Select(R0, j) / cnt, var=var)
        else:
            # per-utterance statistics: more than one vector in the tensor (the single-vector case raises / zeroes; stand-in)
            st.assume(ex.ctx["other"] >= 2)
            cntl = z3.ToReal(ex.ctx["other"])
            var = lambda j: TSQ(keep, j) / cntl - TMEAN(keep, j) * TMEAN(keep, j)
            st.assume(z3.ForAll([k], z3.Implies(z3.And(k >= 0, k < n), var(k) > 0)))
            ex.ctx.update(mean=lambda j: TMEAN(keep, j), var=var)
    return setup


def _apply_spec(ev, res):
    ex = ev.ex
    d, keep, dims, X = ex.ctx["d"], ex.ctx["keep"], ex.ctx["dims"], ex.ctx["X"]
    if not isinstance(res, ATensor) or len(res.dims) != d:
        return z3.BoolVal(False)
    idx = [z3.Int("ai%d" % j) for j in range(d)]
    rng = z3.And(*[z3.And(i >= 0, i < Z(n)) for i, n in zip(idx, dims)])
    f = idx[keep]
    nv = Zb(ev.st.fields[("self", "_norm_var")])
    scale = z3.If(nv, 1 / api.SQRT(ex.ctx["var"](f)), 1)
    want = (X(*idx) - ex.ctx["mean"](f)) * scale
    shape_ok = z3.And(*[Z(a) == Z(b) for a, b in zip(res.dims, dims)])
    return z3.And(shape_ok, z3.ForAll(idx, z3.Implies(rng, res.elem(tuple(idx)) == want)))


def h_ones(ex, st, args, kwargs, node, ev):
    return st.new_root(args[0], z3.K(I, z3.RealVal(1)), "float64", "fresh", "ones")


def h_sum_builtin(ex, st, args, kwargs, node, ev):
    (g,) = args
    if isinstance(g, tuple):
        r = z3.IntVal(0)
        for x in g:
            r = r + Z(x)
        return simp(r)
    raise Outside("sum form")


def contract_apply_tensor(have):
    consts = dict(CONSTS)
    consts.update({"SPEC": SpecFn(_apply_spec), "F64": SpecFn(lambda ev: ev.st.ghost["f64"]),
                   "IS_F64": SpecFn(lambda ev, r: r.dtype == "float64" or (symex.is_z3(r.dtype) and simp(r.dtype == z3.StringVal("float64")))),
                   "IS_INPUT_OBJECT": SpecFn(lambda ev, r: r.obj == "input"),
                   "BCAST_OK": SpecFn(lambda ev: ev.st.ghost.get("bcast_axes", []) == [ev.ex.ctx["keep"]] * 2)})
    c = Contract(
        target="post:Standardize._apply_tensor",
        uses=["A-REAL", "A-PYSEM", "A-NP-SLICE", "A-MATH", "A-NP-RED", "A-NP-BCAST"],
        consts=consts,
        handlers={"attr:have_stats": h_have_stats, "arr_binop": h_arr_binop_bcast1, "np.isclose": h_isclose, "np.any": h_any, "binop": h_binop_tensor,
                  "np.prod": h_prod, "np.ones": h_ones, "sum": h_sum_builtin, "arr.tuple_index": h_tuple_index},
        ensures=[
            ("standardised_per_coefficient_of_the_chosen_axis", "SPEC(result) and BCAST_OK()"),
            ("in_place_returns_the_input_object", "implies(in_place and F64(), IS_INPUT_OBJECT(result))"),
            ("otherwise_a_copy", "implies(not (in_place and F64()), not IS_INPUT_OBJECT(result))"),
        ],
    )
    c.lazy_products = False
    c.canaries = [("not_a_copy", "implies(not (in_place and F64()), IS_INPUT_OBJECT(result))")]
    return c


def apply_tensor_labels():
    return ["d%d_axis%d_%s" % (d, a, "stats" if h else "local") for d in (2, 3) for a in range(-d, d) for h in (True, False)]


def generate_apply_tensor(prop, label):
    import re
    from contracts.registry import run_contract
    m = re.match(r"d(\d)_axis(-?\d)_(stats|local)", label)
    d, a, h = int(m.group(1)), int(m.group(2)), m.group(3) == "stats"
    return run_contract(prop, ("post", "Standardize._apply_tensor"), contract_apply_tensor(h), [(label, setup_apply_tensor(d, a, h))],
                        name="std_apply_tensor", fname="Standardize._apply_tensor")


# ------------------------------------------------------------------------------------------------------------- accumulate / apply (dispatch)
# The two public entry points only choose between the vector and the tensor routine (both under contract above):
#     an array without elements                 -> ValueError, nothing called (for every rank, whichever dimension is empty)
#     more than one dimension                   -> the tensor routine, ONCE, with (features, axis[, in_place]) exactly as given
#     one dimension                             -> the vector routine, ONCE, with (features[, in_place]); `axis` is irrelevant for a vector
# and `apply` returns what the routine returns. Shapes are modelled by their rank (1, 2, 3 enumerated) and symbolic dimensions.
class FeatArr:
    def __init__(self, dims):
        self.dims = dims

    def sym_getattr(self, attr, ev, node):
        if attr == "shape":
            return tuple(self.dims)
        if attr == "ndim":
            return len(self.dims)
        raise Outside(f"feature array attribute .{attr}")

    def sym_len(self):
        return self.dims[0]


def setup_dispatch(rank):
    def _setup(ex, st):
        dims = [api.sym(f"d{k}") for k in range(rank)]
        for d in dims:
            st.assume(d >= 0)
        api.mk_obj(st, "self", "Standardize", {})
        st.env.update({"features": FeatArr(dims), "axis": api.sym("axis"), "in_place": api.sym("in_place", "bool")})
        st.ghost.update(calls=[])
        ex.ctx = dict(rank=rank, dims=dims)
    return _setup


def _h_prod_shape(ex, st, args, kwargs, node, ev):
    (shape,) = args
    if not isinstance(shape, tuple):
        raise Outside("np.prod form")
    r = z3.IntVal(1)
    for d in shape:
        r = r * Z(d)
    return simp(r)


def _h_routine(name):
    def h(ex, st, o, args, kwargs, node, ev):
        st.ghost["calls"] = st.ghost["calls"] + [(name, tuple(args), dict(kwargs))]
        return Opaque(("result_of", name), "array")
    return h


def _h_dispatch_truthiness(ex, st, v):
    if isinstance(v, tuple):
        return len(v) > 0
    return NotImplemented


def contract_dispatch(which):
    tensor, vector = ("_accumulate_tensor", "_accumulate_vector") if which == "accumulate" else ("_apply_tensor", "_apply_vector")

    def empty(ev):
        return z3.Or(*[Z(d) == 0 for d in ev.ex.ctx["dims"]])

    def call_ok(ev):
        st, c = ev.st, ev.ex.ctx
        calls = st.ghost["calls"]
        if len(calls) != 1:
            return False
        name, args, kw = calls[0]
        f, ax, ip = st.env["features"], st.env["axis"], st.env["in_place"]
        if kw:
            return False
        if c["rank"] > 1:
            want = (f, ax) if which == "accumulate" else (f, ax, ip)
            return name == tensor and len(args) == len(want) and all(a is b for a, b in zip(args, want))
        want = (f,) if which == "accumulate" else (f, ip)
        return name == vector and len(args) == len(want) and all(a is b for a, b in zip(args, want))

    def result_ok(ev, res):
        if which == "accumulate":
            return res is None
        calls = ev.st.ghost["calls"]
        return isinstance(res, Opaque) and len(calls) == 1 and res.term == ("result_of", calls[0][0])

    c = Contract(
        target=f"post:Standardize.{which}", uses=["A-PYSEM"],
        consts={"EMPTY": SpecFn(empty), "CALL_OK": SpecFn(call_ok), "RESULT_OK": SpecFn(result_ok), "NO_CALL": SpecFn(lambda ev: len(ev.st.ghost["calls"]) == 0)},
        handlers={"np.prod": _h_prod_shape, "truthiness": _h_dispatch_truthiness,
                  "Standardize." + tensor: _h_routine(tensor), "Standardize." + vector: _h_routine(vector)},
        raises={"ValueError": "EMPTY()"},
        ensures=[("exactly_one_call_of_the_routine_for_the_rank_with_the_callers_arguments", "CALL_OK()"), ("returns_the_routines_result", "RESULT_OK(result)")],
    )
    c.ensures_raise = {"ValueError": [("nothing_called", "NO_CALL()")]}
    return c


def unit_dispatch(prop="C16"):
    def unit(tier, known):
        from contracts.registry import run_contract
        from pyvc.check import UnitResult
        u = None
        for which in ("accumulate", "apply"):
            r = run_contract(prop, ("post", f"Standardize.{which}"), contract_dispatch(which), [(f"rank{k}", setup_dispatch(k)) for k in (1, 2, 3)],
                             name="std_dispatch", fname=f"Standardize.{which}", to_case=to_case, replay_module="rtc.c16")
            if u is None:
                u = r
            else:
                u.obligations += r.obligations
                u.canaries += r.canaries
                u.outside += r.outside
                u.functions += r.functions
                u.assumptions |= r.assumptions
        return u
    unit.__name__ = "std_dispatch"
    return unit

"""Sidecar contract: Standardize.__init__ (property C17: "loaded again through Standardize(rfilename=...)"; C16: "with accumulated or
loaded statistics").

Case split over what the caller passes and over what each read attempt does (an attempt either returns an array or raises one named
exception; the script of outcomes is fixed per set-up, the constructor's reaction is what is proved):

* no file name, no keywords      nothing is read, `_stats` is None, `_norm_var` is bool(norm_var)
* no file name, some keyword     TypeError, nothing read
* file name and an explicit dtype  exactly ONE read_signal(rfilename, **kwargs); its result is kept as it is (no re-interpretation)
* file name, no dtype            attempts with dtype float64, float32, 'dm', 'fm' IN THAT ORDER, each read_signal(rfilename, dtype=.., **kwargs);
                                 IOError / ValueError / ImportError / TypeError move on to the next one, anything else propagates; the FIRST
                                 success is kept and no further attempt is made; IOError when all four fail; the float re-interpretation
                                 heuristic (_sanitize_stats, unit sanitize_accepts_saved) runs exactly when the array read is one-dimensional
In every returning case the base class is initialised once and `_norm_var` is bool(norm_var).
"""
import ast

import z3

from pyvc import api, symex
from pyvc.api import SpecFn, Zb, Opaque, Outside
from pyvc.symex import Contract

ORDER = ["np.float64", "np.float32", "dm", "fm"]
CAUGHT = ("IOError", "ValueError", "ImportError", "TypeError")


class StatsVal:
    """the array one read attempt returned"""

    def __init__(self, attempt, ndim):
        self.attempt, self.ndim = attempt, ndim

    def sym_getattr(self, attr, ev, node):
        if attr == "shape":
            return tuple(z3.Int(f"stats_dim{i}") for i in range(self.ndim))
        raise Outside(f"stats attribute .{attr}")


def setup(mode, script=(), ndim=2, extra_kw=False):
    def _setup(ex, st):
        api.mk_obj(st, "self", "Standardize", {})
        kwargs = {}
        if extra_kw:
            kwargs["key"] = Opaque("KW_key", "arg")
        if mode == "dtype_given":
            kwargs["dtype"] = Opaque("KW_dtype", "arg")
        if mode == "no_file_kw":
            kwargs["key"] = Opaque("KW_key", "arg")
        st.env.update({"rfilename": None if mode in ("no_file", "no_file_kw") else Opaque("RFILENAME", "str"),
                       "norm_var": api.sym("norm_var", "bool"), "kwargs": kwargs})
        st.ghost.update(reads=[], sanitized=0, super_init=0)
        ex.ctx = dict(mode=mode, script=list(script), ndim=ndim, kwargs=kwargs)
    return _setup


def h_read_signal(ex, st, args, kwargs, node, ev):
    k = len(st.ghost["reads"])
    st.ghost["reads"] = st.ghost["reads"] + [(tuple(args), dict(kwargs))]
    script = ex.ctx["script"]
    outcome = script[k] if k < len(script) else "ok"
    if outcome != "ok":
        ex.sym_raise(outcome)
    return StatsVal(k, ex.ctx["ndim"])


def h_sanitize(ex, st, o, args, kwargs, node, ev):
    st.ghost["sanitized"] = st.ghost["sanitized"] + 1
    if args or kwargs:
        raise Outside("_sanitize_stats called with arguments")
    return None


def h_super(ex, st, args, kwargs, node, ev):
    return Opaque("super", "super")


def h_super_init(ex, st, o, args, kwargs, node, ev):
    st.ghost["super_init"] = st.ghost["super_init"] + 1
    return None


def h_compare(ex, st, op, a, b, node, ev):
    if isinstance(op, (ast.In, ast.NotIn)) and isinstance(a, str) and isinstance(b, dict):
        r = a in b
        return r if isinstance(op, ast.In) else (not r)
    return NotImplemented


def h_truthiness(ex, st, c):
    if isinstance(c, dict):
        return bool(c)
    return NotImplemented


def _dtype_name(v):
    if isinstance(v, Opaque):
        return str(v.term)
    return v if isinstance(v, str) else repr(v)


def contract(mode, script, ndim):
    script = list(script)
    n_fail = 0
    for o in script:
        if o in CAUGHT:
            n_fail += 1
        else:
            break
    uncaught = script[n_fail] if n_fail < len(script) and script[n_fail] != "ok" else None
    all_fail = mode == "probe" and n_fail >= 4
    n_reads = {"no_file": 0, "no_file_kw": 0, "dtype_given": 1}.get(mode, min(4, n_fail + 1))

    def reads_ok(ev):
        reads = ev.st.ghost["reads"]
        kw0 = ev.ex.ctx["kwargs"]
        if len(reads) != n_reads:
            return False
        for k, (args, kw) in enumerate(reads):
            if not (len(args) == 1 and isinstance(args[0], Opaque) and args[0].term == "RFILENAME"):
                return False
            if mode == "dtype_given":
                if set(kw) != set(kw0) or any(kw[x] is not kw0[x] for x in kw0):
                    return False
            else:
                if set(kw) != set(kw0) | {"dtype"} or any(kw[x] is not kw0[x] for x in kw0):
                    return False
                if _dtype_name(kw["dtype"]) != ORDER[k]:
                    return False
        return True

    def state_ok(ev):
        f = ev.st.fields
        stats, nv = f.get(("self", "_stats")), f.get(("self", "_norm_var"))
        if nv is None:
            return z3.BoolVal(False)
        nv_ok = Zb(nv) == Zb(ev.ex.entry.env["norm_var"])
        if mode in ("no_file",):
            ok = stats is None and ("self", "_stats") in f
            san = 0
        else:
            ok = isinstance(stats, StatsVal) and stats.attempt == n_reads - 1
            san = 1 if (mode == "probe" and ndim == 1) else 0
        return z3.And(z3.BoolVal(bool(ok) and ev.st.ghost["sanitized"] == san and ev.st.ghost["super_init"] == 1), nv_ok)

    raises = {}
    if mode == "no_file_kw":
        raises["TypeError"] = "True"
    elif all_fail:
        raises["IOError"] = "True"
    elif uncaught:
        raises[uncaught] = "True"
    ens = [("reads_are_the_documented_attempts_in_order", "READS_OK()")]
    if not raises:
        ens.append(("first_success_kept_sanitized_iff_one_dimensional_base_initialised_once", "STATE_OK()"))
    c = Contract(
        target="post:Standardize.__init__", uses=["A-PYSEM", "A-IO-CONTAINER"],
        consts={"READS_OK": SpecFn(lambda ev: reads_ok(ev)), "STATE_OK": SpecFn(state_ok), "np.float64": Opaque("np.float64", "dtype"), "np.float32": Opaque("np.float32", "dtype"),
                "Standardize": Opaque("Standardize", "class")},
        handlers={"read_signal": h_read_signal, "Standardize._sanitize_stats": h_sanitize, "super": h_super, "opaque.__init__": h_super_init,
                  "compare": h_compare, "truthiness": h_truthiness, "tuple": lambda ex, st, args, kwargs, node, ev: Opaque("TUPLE_OF_KWARGS", "tuple"),
                  "str.format": lambda ex, st, o, args, kwargs, node, ev: Opaque("MESSAGE", "str")},
        raises=raises, ensures=ens,
        ensures_raise={k: [("reads_are_the_documented_attempts_in_order", "READS_OK()")] for k in raises},
    )
    return c


def cases():
    out = [("no_file", (), 2, False), ("no_file_kw", (), 2, False), ("dtype_given", (), 2, False), ("dtype_given", (), 1, True)]
    # probing: first success at attempt p after p caught failures (rotating through the four caught exception types), 1-D and 2-D
    for p in range(4):
        fails = tuple(CAUGHT[(p + j) % 4] for j in range(p))
        for ndim in (1, 2):
            out.append(("probe", fails + ("ok",), ndim, p % 2 == 1))
    out.append(("probe", ("IOError", "ValueError", "ImportError", "TypeError"), 2, False))   # all four fail
    out.append(("probe", ("TypeError", "TypeError", "TypeError", "TypeError"), 2, True))
    out.append(("probe", ("KeyError",), 2, False))                                             # not one of the four: propagates
    out.append(("probe", ("IOError", "EOFError"), 2, False))
    return out


def label(c):
    mode, script, ndim, extra = c
    return f"{mode}|{'-'.join(script) or 'none'}|{ndim}d|{'kw' if extra else 'nokw'}"


def generate(prop, idx):
    from contracts.registry import run_contract
    mode, script, ndim, extra = cases()[idx]
    return run_contract(prop, ("post", "Standardize.__init__"), contract(mode, script, ndim), [(label(cases()[idx]), setup(mode, script, ndim, extra))],
                        name="standardize_init", fname="Standardize.__init__")


def unit_init(prop):
    def unit(tier, known):
        from contracts.registry import run_parallel
        from contracts import standardize_save
        jobs = [("contracts.standardize_init", "generate", (prop, i)) for i in range(len(cases()))]
        def tc(ob):
            """the C17 stand-in's own cases (every target kind, reload through Standardize(rfilename=...), the raw-binary ones - which take the
            dtype-probing route - first)"""
            try:
                from rtc import c17
                cs = list(c17.enumerate_cases("quick", 0))
            except Exception:
                return None
            raw = [c for c in cs if "raw" in str(c.get("target", "")) or "bin" in str(c.get("target", ""))]
            rest = [c for c in cs if c not in raw]
            return raw[:200] + rest[:200]
        if prop == "C16":
            from contracts import standardize
            return run_parallel("standardize_init", jobs, to_case=standardize.to_case, replay_module="rtc.c16")
        return run_parallel("standardize_init", jobs, to_case=tc, replay_module="rtc.c17")
    unit.__name__ = "standardize_init"
    return unit

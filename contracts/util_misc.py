"""Sidecar contracts: util.py circshift_fourier, hertz_to_angular / angular_to_hertz, and the window classes of
filters.py (property C20).

circshift_fourier (index level): the result is  filt[k] * exp(i * theta_k)  with
    theta_k = -2*pi * (shift mod D) * ((start_idx + k) mod D) / D,      D = dft_size, defaulted to len(filt) + start_idx,
for every path (copy / in place, dft_size given or None); with the shift theorem (A-FOURIER) and an integer shift this is the
circular shift by `shift` samples. The complex exponential is carried symbolically: a purely imaginary scalar times an integer
ramp, np.exp of it, and the product with the filter are tracked as terms (classes Imag / ImagArr / Phase / Rotated); every operand
must be defined (arithmetic on None is an obligation that fails). copy=True never stores into `filt`; copy=False with a complex128
filter writes through and returns the same array.
"""
from fractions import Fraction

import z3

from pyvc import api, symex
from pyvc.api import I, R, SpecFn, Z, Zb, Arr, Opaque, simp, to_real, Outside
from pyvc.symex import Contract, LoopSpec

PI = z3.Real("pi")


class Imag:
    """the purely imaginary number i*coef"""

    def __init__(self, coef):
        self.coef = coef


class ImagArr:
    """i * coef * arr[k]"""

    def __init__(self, coef, arr):
        self.coef, self.arr = coef, arr


class Phase:
    """exp(i * coef * arr[k])"""

    def __init__(self, coef, arr):
        self.coef, self.arr = coef, arr
        self.n = arr.n


class Rotated:
    """base[k] * exp(i * coef * ramp[k])"""

    def __init__(self, base, phase, in_place):
        self.base, self.phase, self.in_place = base, phase, in_place
        self.n = base.n


def h_binop(ex, st, op, a, b, node):
    import ast
    if a is None or b is None:
        ex.oblige(st, False, f"operand_is_None.L{node.lineno - ex.fx.lineno}", "wd", node.lineno)
        raise symex.PathEnd()  # a TypeError at run time: the path ends here, the failed obligation reports it
    if isinstance(a, complex):
        if a.real != 0:
            raise Outside("complex literal with a real part")
        a = Imag(Fraction(a.imag))
    if isinstance(b, complex):
        if b.real != 0:
            raise Outside("complex literal with a real part")
        b = Imag(Fraction(b.imag))
    if isinstance(a, Imag) and not isinstance(b, (Imag, Arr)):
        if isinstance(op, ast.Mult):
            return Imag(simp(to_real(a.coef) * to_real(b)))
        if isinstance(op, ast.Div):
            ex.oblige(st, to_real(b) != 0, f"div0.L{node.lineno - ex.fx.lineno}", "wd", node.lineno)
            return Imag(simp(to_real(a.coef) / to_real(b)))
    if isinstance(b, Imag) and not isinstance(a, (Imag, Arr)) and isinstance(op, ast.Mult):
        return Imag(simp(to_real(b.coef) * to_real(a)))
    return NotImplemented


def h_arr_binop(ex, st, op, a, b, node, ev):
    import ast
    if isinstance(op, ast.Mult) and isinstance(a, Imag) and isinstance(b, Arr):
        return ImagArr(a.coef, b)
    if isinstance(op, ast.Mod) and isinstance(a, Arr) and symex.is_int(b):
        ev.wd(Z(b) != 0, "mod0", node)
        k = z3.Int("k!%d" % next(symex._fresh))
        src = st.heap[a.root].content
        val = z3.ToInt(z3.Select(src, a.idx(k)))
        d = Z(b)
        # Python % on arrays: floor modulo
        m = z3.If(d > 0, val % d, z3.If(val % d == 0, 0, val % d + d))
        return st.new_root(a.n, z3.Lambda([k], z3.ToReal(m)), "int", "fresh", "mod")
    if isinstance(op, ast.Mult) and isinstance(a, Arr) and isinstance(b, Phase):
        ev.wd(Z(a.n) == Z(b.n), "bcast", node)
        return Rotated(a, b, in_place=getattr(ev, "_aug_target", None) is not None)
    raise Outside("array arithmetic form")


def h_arange(ex, st, args, kwargs, node, ev):
    if len(args) != 2:
        raise Outside("np.arange form")
    a, b = args
    k = z3.Int("k!%d" % next(symex._fresh))
    n = simp(z3.If(Z(b) > Z(a), Z(b) - Z(a), 0))
    return st.new_root(n, z3.Lambda([k], z3.ToReal(Z(a) + k)), "int", "fresh", "arange")


def h_exp(ex, st, args, kwargs, node, ev):
    (x,) = args
    if isinstance(x, ImagArr):
        return Phase(x.coef, x.arr)
    return api.EXP(to_real(x))


def setup_circshift(dft_none):
    def setup(ex, st):
        n, start, shift = api.sym("n"), api.sym("start_idx"), api.sym("shift")
        st.assume(z3.And(n >= 1, start >= 0))
        filt = api.mk_array(st, "filt", n, owner="param:filt", dtype="complex128")
        dt = api.sym("filt_is_c128", "bool")
        st.heap["filt"].dtype = z3.If(dt, z3.StringVal("complex128"), z3.StringVal("other"))
        D = None if dft_none else api.sym("dft_size")
        if D is not None:
            st.assume(D >= 1)
        st.env.update({"filt": filt, "shift": shift, "start_idx": start, "dft_size": D, "copy": api.sym("copy", "bool")})
        st.ghost["_DD"] = simp(n + start) if dft_none else D
        st.ghost["_c128"] = dt
        ex.ctx = dict(n=n)
    return setup


def _e_const_hook():
    pass


def contract_circshift():
    consts = {
        "np.pi": PI, "np.complex128": Opaque(z3.StringVal("complex128"), "dtype"),
        "RLEN": SpecFn(lambda ev, r: Z(r.n)),
        "RBASE_IS_FILT": SpecFn(lambda ev, r: isinstance(r, Rotated) and r.base.root == "filt" and r.base.step == 1 and simp(Z(r.base.off) == 0) is True),
        "RCOEF": SpecFn(lambda ev, r: to_real(r.phase.coef)),
        "RRAMP": SpecFn(lambda ev, r, k: ev.st.select(r.phase.arr, k)),
        "INPLACE": SpecFn(lambda ev, r: bool(r.in_place)),
        "DD": SpecFn(lambda ev: ev.st.ghost["_DD"]),
        "C128": SpecFn(lambda ev: ev.st.ghost["_c128"]),
        "FMOD": SpecFn(lambda ev, a, d: z3.If(Z(d) > 0, Z(a) % Z(d), 0)),
    }
    c = Contract(
        target="util:circshift_fourier",
        uses=["A-REAL", "A-PYSEM", "A-FOURIER"],
        consts=consts,
        handlers={"binop": h_binop, "arr_binop": h_arr_binop, "np.arange": h_arange, "np.exp": h_exp},
        ensures=[
            ("length", "RLEN(result) == len(old(filt))"),
            ("multiplies_the_filter", "RBASE_IS_FILT(result)"),
            ("phase_coefficient", "RCOEF(result) * DD() == -2 * np.pi * FMOD(old(shift), DD())"),      # the CALLER's shift (the code reduces its local)
            ("phase_ramp", "forall(k, 0, len(old(filt)), RRAMP(result, k) == FMOD(start_idx + k, DD()))"),
            ("copy_leaves_input", "implies(copy or not C128(), not INPLACE(result))"),
            ("in_place_writes_through", "implies(not copy and C128(), INPLACE(result))"),
        ],
    )
    c.canaries = [("phase_coefficient_unreduced_shift", "RCOEF(result) * DD() == -2 * np.pi * (old(shift) + DD())")]
    return c


def to_case_circshift(ob):
    """solver model -> circshift cases of the C20 stand-in (ifft(output) == roll(ifft(input), shift) on the real function)"""
    from pyvc.solve import model_int
    n, start, shift, D = (model_int(ob.model, k) for k in ("n", "start_idx", "shift", "dft_size"))
    default = ob.id.endswith("[dft_default]")
    out = []
    cands = []
    if n and start is not None and shift is not None and 1 <= n <= 64 and 0 <= start <= 64 and abs(shift) <= 1000:
        cands.append((n, start, shift, None if default else (D if D and D >= n + start else n + start)))
    for n2, st2 in ((8, 2), (5, 0), (5, 3), (1, 0), (7, 9)):
        for sh in (-1, 0, 1, 3, n2 + st2, n2 + st2 + 2, -(n2 + st2) - 3):
            cands.append((n2, st2, sh, None if default else n2 + st2 + (0 if sh % 2 else 3)))
    for (n2, st2, sh, d) in cands:
        for copy in (True, False):
            for dtype in ("complex128", "complex64"):
                out.append({"check": "circshift", "n": n2, "start_idx": st2, "dft_size": d, "shift": sh, "copy": copy, "dtype": dtype, "shift_type": "int", "seed": 0, "salt": 0})
    return out


# ------------------------------------------------------------------------------------------
# hertz_to_angular / angular_to_hertz, window normalisers
# ------------------------------------------------------------------------------------------

def fn_paths(mod, qualname, env, prop, consts=None, handlers=None, fields=None, cls=None):
    """symbolic execution of a small pure function: list of (path condition, result) and its wd obligations"""
    from pyvc import extract
    from pyvc.symex import Executor, State
    fx = extract.get_function(mod, qualname)
    c = Contract(target=f"{mod}:{qualname}", consts=consts or {}, handlers=handlers or {})
    ex = Executor(fx, c, prop)
    ex.fname = qualname
    st = State()
    if cls:
        api.mk_obj(st, "self", cls, fields or {})
    st.env.update(env)
    ex.run(st)
    return fx, ex, [(s.pc, v) for k, s, v in ex.ended if k == "return"]


def unit_angular(prop="C20"):
    def unit(tier, known):
        from pyvc.check import UnitResult
        from pyvc.symex import Obligation
        u = UnitResult("angular")
        f, a, r = z3.Reals("f a r")
        pi_ax = [PI > z3.RealVal("3.14159"), PI < z3.RealVal("3.1416")]
        try:
            fx1, ex1, p1 = fn_paths("util", "hertz_to_angular", {"hertz": f, "samp_rate": r}, prop, consts={"np.pi": PI})
            fx2, ex2, p2 = fn_paths("util", "angular_to_hertz", {"angle": a, "samp_rate": r}, prop, consts={"np.pi": PI})
        except (symex.Outside, KeyError) as e:
            u.outside.append(("util:hertz_to_angular/angular_to_hertz", str(e)))
            return u
        u.functions += [fx1.describe(), fx2.describe()]
        u.assumptions |= {"A-REAL", "A-PYSEM", "A-MATH (3.14159 < pi < 3.1416)"}
        for ex in (ex1, ex2):
            for o in ex.obligations:
                if o.kind == "wd":
                    o.pc = pi_ax + o.pc + [r != 0]
                    u.obligations.append(o)
        for pc1, v1 in p1:
            u.obligations.append(Obligation(f"{prop}.hertz_to_angular.formula", pi_ax + list(pc1) + [r != 0], to_real(v1) * r == f * 2 * PI, "lemma", None))
            _, ex3, p3 = fn_paths("util", "angular_to_hertz", {"angle": to_real(v1), "samp_rate": r}, prop, consts={"np.pi": PI})
            for pc3, v3 in p3:
                u.obligations.append(Obligation(f"{prop}.angular_to_hertz_of_hertz_to_angular", pi_ax + list(pc1) + list(pc3) + [r != 0], to_real(v3) == f, "lemma", None))
        for pc2, v2 in p2:
            _, ex4, p4 = fn_paths("util", "hertz_to_angular", {"hertz": to_real(v2), "samp_rate": r}, prop, consts={"np.pi": PI})
            for pc4, v4 in p4:
                u.obligations.append(Obligation(f"{prop}.hertz_to_angular_of_angular_to_hertz", pi_ax + list(pc2) + list(pc4) + [r != 0], to_real(v4) == a, "lemma", None))
        u.canaries.append(Obligation(f"{prop}.canary.angular_off", pi_ax + [r != 0], (f * 2 * PI / r) * r / (2 * PI) == f + 1, "canary", None))
        # replay: the C20 stand-in's round-trip cases of the two helpers (rates of every parity, non-integral rates included)
        u.to_case = lambda ob: [{"check": "angular", "seed": sd, "salt": k, "n": 200} for sd in (0, 1) for k in (0, 1, 2)]
        u.replay_module = "rtc.c20"
        return u
    unit.__name__ = "angular"
    return unit


# ------------------------------------------------------------------------------------------
# _gauss_quant_odeh_evans (what gauss_quant is when SciPy is absent, as here): the rational approximation of Odeh & Evans (1974) as printed
# in Brophy (1985), over the reals with ln and sqrt uninterpreted:
#     r = min(p, 1 - p) as the code selects it (1 - p above the median, p otherwise);  z = 10 below r = 1e-20 (saturation), otherwise
#     z = y - ((((a4 y + a3) y + a2) y + a1) y + a0) / ((((b4 y + b3) y + b2) y + b1) y + b0),  y = sqrt(-2 ln r), with the published coefficients;
#     the sign is negative below the median;  the result is  z * std + mu  - affine in mu and std by construction.
# Well-definedness for every 0 < p < 1: the logarithm's argument is positive, the square root's non-negative (needs ln r <= 0 for r <= 1/2: A-MATH),
# the denominator non-zero. Monotonicity in p and the 1e-6 accuracy are numerical statements about this rational function: bounded stand-in.
# ------------------------------------------------------------------------------------------
OE_NUM = ("4.53642210148e-5", "0.0204231210245", "0.342242088547", "1", "0.322232431088")
OE_DEN = ("0.0038560700634", "0.10353775285", "0.531103462366", "0.588581570495", "0.099348462606")


def contract_gauss_quant():
    LN, SQRT = api.LN, api.SQRT

    def rv(s):
        from fractions import Fraction
        return z3.RealVal(str(Fraction(s)))

    def zspec(ev):
        p = ev.ex.ctx["p"]
        r = z3.If(p > z3.RealVal("1/2"), 1 - p, p)
        y = SQRT(-2 * LN(r))
        num = (((rv(OE_NUM[0]) * y + rv(OE_NUM[1])) * y + rv(OE_NUM[2])) * y + rv(OE_NUM[3])) * y + rv(OE_NUM[4])
        den = (((rv(OE_DEN[0]) * y + rv(OE_DEN[1])) * y + rv(OE_DEN[2])) * y + rv(OE_DEN[3])) * y + rv(OE_DEN[4])
        z = z3.If(r < rv("1e-20"), z3.RealVal(10), y - num / den)
        return z3.If(p < z3.RealVal("1/2"), -z, z)

    def h_log(ex, st, args, kwargs, node, ev):
        za = to_real(args[0])
        ex.oblige(st, za > 0, f"log_of_a_positive_number.L{node.lineno - ex.fx.lineno}", "wd", node.lineno)
        return LN(za)

    def h_binop(ex, st, op, a, b, n):
        import ast
        from fractions import Fraction
        if isinstance(op, ast.Pow) and b == Fraction(1, 2):
            za = to_real(a)
            ex.oblige(st, za >= 0, f"sqrt_of_a_non_negative_number.L{n.lineno - ex.fx.lineno}", "wd", n.lineno)
            return SQRT(za)
        return NotImplemented

    class _FInfo:
        def sym_getattr(self, attr, ev, node):
            if attr == "eps":
                from fractions import Fraction
                return Fraction(1, 2 ** 52)           # numpy.finfo(float).eps, exactly
            raise Outside(f"finfo attribute .{attr}")

    def h_finfo(ex, st, args, kwargs, node, ev):
        return _FInfo()

    return Contract(
        target="util:_gauss_quant_odeh_evans", uses=["A-REAL", "A-PYSEM", "A-MATH"],
        consts={"ZSPEC": SpecFn(zspec), "float": Opaque("float", "dtype")},
        handlers={"np.log": h_log, "binop": h_binop, "np.finfo": h_finfo},
        ensures=[("published_rational_approximation_affine_in_mu_and_std", "result == ZSPEC() * std + mu")],
    )


def unit_gauss_quant(prop="C20"):
    def unit(tier, known):
        from contracts.registry import run_contract

        def setup(ex, st):
            p, mu, std = api.sym("p", "real"), api.sym("mu", "real"), api.sym("std", "real")
            st.assume(z3.And(p > 0, p < 1))
            st.env.update(p=p, mu=mu, std=std)
            x = z3.Real("lx")
            for ax in api.math_axioms():
                ex.axioms.append(ax)
            ex.axioms.append(z3.ForAll([x], z3.Implies(z3.And(x > 0, x <= 1), api.LN(x) <= 0), patterns=[api.LN(x)]))
            ex.axioms.append(z3.ForAll([x], z3.Implies(x >= 0, api.SQRT(x) >= 0), patterns=[api.SQRT(x)]))
            ex.ctx = dict(p=p)

        def tc(ob):
            # the C20 stand-in's three gauss_quant grids (accuracy vs mpmath incl. the tail down to 1e-20, monotonicity, affinity)
            return [{"check": "gq.accuracy", "seed": 0, "n": 2000}, {"check": "gq.monotone"}, {"check": "gq.affine", "seed": 0, "salt": 0}]
        return run_contract(prop, ("util", "_gauss_quant_odeh_evans"), contract_gauss_quant(), [("", setup)], name="gauss_quant", to_case=tc, replay_module="rtc.c20")
    unit.__name__ = "gauss_quant"
    return unit

"""Sidecar contract: post.py Stack.apply (property C15, second sentence) for tensors of rank 2 and 3, every legal (axis, time_axis)
pair, with and without padding. Sizes and num_vectors are symbolic; the rank is fixed per setup.

Specification (F = size of the feature axis, nv = num_vectors, T0 = size of the time axis, P = the input padded at the END of the
time axis to the next multiple of nv when a pad mode is set, else the input):
    time size of the result   nT = T0 // nv (no pad mode)  |  ceil(T0 / nv) (pad mode)          feature size  nv * F
    OUT[.., t, .., q * F + r, ..] == P[.., t * nv + q, .., r, ..]      for t < nT, q < nv, r < F     (other indices unchanged)
2-D inputs take a copy / transpose / reshape route: the element map of every step is tracked (assumed numpy contracts: .T swaps the
two indices, a[:k] keeps the first rows, reshape is row-major on the logical order) and the specification is proved of the result.
N-D inputs take a slicing route: proved that the q-th buffer appended is features[.., q:T:nv, ..] (full slices elsewhere), that all
have nT frames, that exactly nv buffers are joined in order with np.concatenate along the feature axis - which is the specification
by the definition of concatenation (A-NP-CAT). RuntimeError exactly when the two axes coincide; `self` is not assigned.
"""
import ast

import z3

from pyvc import api, symex
from pyvc.api import I, R, SpecFn, Z, Zb, Opaque, simp, Outside
from pyvc.symex import Contract, LoopSpec, PySlice, fresh

CLS = "Stack"


class Tensor:
    """dims: list of z3 ints; elem: python function (index tuple) -> z3 Real; base: name of the array object it is a view of"""

    def __init__(self, dims, elem, dtype, base):
        self.dims, self.elem, self.dtype, self.base = list(dims), elem, dtype, base

    def sym_getattr(self, attr, ev, node):
        if attr == "ndim":
            return len(self.dims)
        if attr == "shape":
            return tuple(self.dims)
        if attr == "T":
            if len(self.dims) != 2:
                raise Outside(".T of a tensor of rank != 2")
            e = self.elem
            return Tensor([self.dims[1], self.dims[0]], lambda idx: e((idx[1], idx[0])), self.dtype, self.base)
        if attr == "copy":
            def copy(ev2, args, kwargs, node2):
                ev2.st.ghost["copies"] = ev2.st.ghost.get("copies", 0) + 1
                return Tensor(self.dims, self.elem, self.dtype, "copy%d" % next(symex._fresh))
            return symex.PyCallable(copy)
        if attr == "reshape":
            def reshape(ev2, args, kwargs, node2):
                if len(self.dims) != 2 or len(args) != 2:
                    raise Outside("reshape form")
                a, b = Z(args[0]), Z(args[1])
                n0, n1 = Z(self.dims[0]), Z(self.dims[1])
                ev2.wd(z3.And(a >= 0, b >= 0, a * b == n0 * n1), "reshape_keeps_size", node2)
                e = self.elem

                def elem(idx):
                    flat = Z(idx[0]) * b + Z(idx[1])
                    return e((flat / n1, flat % n1))  # n1 > 0 whenever an element exists
                return Tensor([a, b], elem, self.dtype, self.base)
            return symex.PyCallable(reshape)
        raise Outside(f"tensor attribute .{attr}")

    def sym_getitem(self, sl, ev, node):
        if isinstance(sl, ast.Slice):
            if sl.lower is not None or sl.step is not None or sl.upper is None:
                raise Outside("tensor slice form")
            k, n0 = Z(ev.eval(sl.upper)), Z(self.dims[0])
            rows = simp(z3.If(k < 0, z3.If(n0 + k < 0, 0, n0 + k), z3.If(k < n0, k, n0)))
            return Tensor([rows] + self.dims[1:], self.elem, self.dtype, self.base)
        idx = ev.eval(sl)
        if not isinstance(idx, tuple) or len(idx) != len(self.dims) or not all(isinstance(e, PySlice) for e in idx):
            raise Outside("tensor subscript form")
        view = Tensor(self.dims, self.elem, self.dtype, self.base)
        view.slices = idx
        return view


def h_pad(ex, st, args, kwargs, node, ev):
    feats, padding, mode = args[0], args[1], args[2] if len(args) > 2 else kwargs.get("mode")
    lbl = f"L{node.lineno - ex.fx.lineno}"
    d, ta = ex.ctx["d"], ex.ctx["ta"]
    if not isinstance(feats, Tensor) or not (isinstance(padding, list) and len(padding) == d and all(isinstance(p, tuple) and len(p) == 2 for p in padding)):
        raise Outside("np.pad form")
    nv, T0 = ex.ctx["nv"], Z(feats.dims[ta])
    ok = [z3.And(Z(p[0]) == 0, Z(p[1]) == 0) for j, p in enumerate(padding) if j != ta]
    ex.oblige(st, z3.And(*ok) if ok else True, f"pads_the_time_axis_only.{lbl}", "spec", node.lineno)
    before, after = Z(padding[ta][0]), Z(padding[ta][1])
    ex.oblige(st, z3.And(before == 0, after >= 1, after < nv, (T0 + after) % nv == 0), f"pads_at_the_end_to_the_next_multiple.{lbl}", "spec", node.lineno)
    extra = {k: v for k, v in kwargs.items() if k != "mode"}
    ex.oblige(st, (mode is st.fields[("self", "_pad_mode")]) and extra == st.fields[("self", "_pad_kwargs")], f"padding_mode.{lbl}", "spec", node.lineno)
    PADV = z3.Function("padvalue!%d" % next(symex._fresh), *([I] * d + [R]))
    e = feats.elem
    dims = [simp(Z(x) + after) if j == ta else x for j, x in enumerate(feats.dims)]
    st.ghost["padded"] = True
    st.ghost["source"] = "padded"
    ex.assumption_ids.add("A-NP-PAD")
    return Tensor(dims, lambda idx: z3.If(Z(idx[ta]) < T0, e(idx), PADV(*[Z(i) for i in idx])), feats.dtype, "padded")


def h_append(ex, st, lst, v, node):
    lbl = f"L{node.lineno - ex.fx.lineno}"
    d, ta, nv = ex.ctx["d"], ex.ctx["ta"], ex.ctx["nv"]
    if not isinstance(v, Tensor) or not hasattr(v, "slices"):
        raise Outside("buffs.append of something other than a slice of features")
    q = Z(st.ghost["appended"])
    sl = v.slices
    others_full = all(s.is_full() for j, s in enumerate(sl) if j != ta)
    ex.oblige(st, others_full, f"full_slices_off_the_time_axis.{lbl}", "spec", node.lineno)
    s = sl[ta]
    T = Z(st.env["T"])
    ex.oblige(st, z3.And(Z(s.lo if s.lo is not None else 0) == q, Z(s.step if s.step is not None else 1) == nv), f"qth_buffer_starts_at_q_with_step_nv.{lbl}", "spec", node.lineno)
    stop = Z(s.hi) if s.hi is not None else Z(v.dims[ta])
    # frames in the slice q:stop:nv of an axis of length n (stop <= n): ceil((stop - q) / nv); must be nT for every q < nv
    nT = Z(st.env["nT"])
    ex.oblige(st, z3.And(stop <= Z(v.dims[ta]), stop == nT * nv, q < nv), f"every_buffer_has_nT_frames.{lbl}", "spec", node.lineno)
    ex.oblige(st, v.base == st.ghost["source"], f"slices_of_the_padded_input.{lbl}", "spec", node.lineno)
    st.ghost["appended"] = simp(q + 1)


def h_concatenate(ex, st, args, kwargs, node, ev):
    parts, ax = args[0], args[1] if len(args) > 1 else kwargs.get("axis", 0)
    lbl = f"L{node.lineno - ex.fx.lineno}"
    d, fa, ta, nv = ex.ctx["d"], ex.ctx["fa"], ex.ctx["ta"], ex.ctx["nv"]
    ex.oblige(st, Z(st.ghost["appended"]) == nv, f"joins_exactly_nv_buffers.{lbl}", "spec", node.lineno)
    ex.oblige(st, Z(ax) == fa, f"joined_along_the_feature_axis.{lbl}", "spec", node.lineno)
    src = st.env["features"]
    dims = list(src.dims)
    dims[ta] = st.env["nT"]
    dims[fa] = simp(Z(src.dims[fa]) * nv)
    e, F = src.elem, Z(src.dims[fa])

    def elem(idx):
        idx = list(idx)
        j = Z(idx[fa])
        src_idx = list(idx)
        src_idx[ta] = Z(idx[ta]) * nv + j / F
        src_idx[fa] = j % F
        return e(tuple(src_idx))
    ex.assumption_ids.add("A-NP-CAT")
    st.ghost["joined"] = True
    return Tensor(dims, elem, src.dtype, "concatenated")


def _retype_feat_slice(hst, v):
    ta = hst.env["time_axis"]
    out = list(v)
    out[ta] = PySlice(fresh("fs_lo", "int"), fresh("fs_hi", "int"), fresh("fs_step", "int")) if not (isinstance(out[ta], PySlice) and out[ta].is_full()) else out[ta]
    return out


def setup(d, axis, time_axis, padded):
    def _setup(ex, st):
        dims = [api.sym("n%d" % j) for j in range(d)]
        nv = api.sym("nv")
        st.assume(z3.And(nv >= 1, *[x >= 0 for x in dims]))
        X = z3.Function("X", *([I] * d + [R]))
        feats = Tensor(dims, lambda idx: X(*[Z(i) for i in idx]), "in_dtype", "input")
        st.env.update({"features": feats, "axis": axis, "in_place": api.sym("in_place", "bool")})
        api.mk_obj(st, "self", CLS, {"num_vectors": nv, "time_axis": time_axis, "_pad_mode": Opaque("pad_mode", "mode") if padded else None,
                                      "_pad_kwargs": {"constant_values": Opaque("kw", "kw")}})
        fa, ta = axis % d, time_axis % d
        st.ghost.update(appended=0, source="input", padded=False, joined=False, copies=0)
        ex.ctx = dict(d=d, fa=fa, ta=ta, nv=nv, dims=dims, X=X, padded=padded)
        ex.positive = {str(nv)}
    return _setup


def _spec(ev, res):
    """forall t < nT, q < nv, r < F and the other indices in range: OUT[.., t, .., q*F + r, ..] == P[.., t*nv + q, .., r, ..]"""
    ex, st = ev.ex, ev.st
    d, fa, ta, nv, dims0 = ex.ctx["d"], ex.ctx["fa"], ex.ctx["ta"], ex.ctx["nv"], ex.ctx["dims"]
    if not isinstance(res, Tensor) or len(res.dims) != d:
        return z3.BoolVal(False)
    F, T0 = Z(dims0[fa]), Z(dims0[ta])
    nT = (T0 + nv - 1) / nv if ex.ctx["padded"] else T0 / nv
    t, q, r = z3.Ints("st sq sr")
    others = [z3.Int("so%d" % j) for j in range(d)]
    out_idx, in_idx, rng = [], [], [t >= 0, t < nT, q >= 0, q < nv, r >= 0, r < F]
    for j in range(d):
        if j == ta:
            out_idx.append(t)
            in_idx.append(t * nv + q)
        elif j == fa:
            out_idx.append(q * F + r)
            in_idx.append(r)
        else:
            out_idx.append(others[j])
            in_idx.append(others[j])
            rng += [others[j] >= 0, others[j] < Z(dims0[j])]
    X = ex.ctx["X"]
    want = X(*in_idx)
    inside = in_idx[ta] < T0
    shape_ok = z3.And(Z(res.dims[ta]) == nT, Z(res.dims[fa]) == nv * F, *[Z(res.dims[j]) == Z(dims0[j]) for j in range(d) if j not in (ta, fa)])
    vals = z3.ForAll([t, q, r] + [o for j, o in enumerate(others) if j not in (ta, fa)],
                     z3.Implies(z3.And(*rng), z3.Implies(inside, res.elem(tuple(out_idx)) == want)))
    return z3.And(shape_ok, vals)


def contract(d, axis, time_axis, padded):
    same = axis % d == time_axis % d
    c = Contract(
        target=f"post:{CLS}.apply",
        uses=["A-REAL", "A-PYSEM", "A-NP-PAD", "A-NP-CAT", "A-NP-RESHAPE"],
        consts={"SPEC": SpecFn(_spec), "COPIES": SpecFn(lambda ev: ev.st.ghost.get("copies", 0)),
                "ISLIST": SpecFn(lambda ev, a: isinstance(a, list))},
        handlers={"np.pad": h_pad, "list.append": h_append, "np.concatenate": h_concatenate},
        raises={"RuntimeError": "True" if same else "False"},
        loops={0: LoopSpec(kind="for", var="i", modifies_ghost=["appended"], types={"feat_slice": _retype_feat_slice}, invariant=[
            ("range", "0 <= i <= self.num_vectors"), ("appended", "appended == i"), ("list", "ISLIST(buffs)")])},
        ensures=[("stacked_frames", "SPEC(result)"), ("self_not_assigned", "FIELD_WRITES() == 0")] + ([("two_dim_not_in_place_copies", "implies(not in_place, COPIES() >= 1)")] if d == 2 and not padded else []),
    )
    c.consts["FIELD_WRITES"] = SpecFn(lambda ev: len([w for w in ev.st.writes if w and w[0] == "field"]))
    c.no_param_writes = True
    c.frame_empty_on_raise = True
    if not same:
        c.canaries = [("frames_of_the_next_run", "SPEC_SHIFTED(result)")]
        c.consts["SPEC_SHIFTED"] = SpecFn(lambda ev, res: z3.And(Z(res.dims[ev.ex.ctx["ta"]]) == Z(ev.ex.ctx["dims"][ev.ex.ctx["ta"]]) / ev.ex.ctx["nv"] + 1))
    return c


def cases():
    out = []
    for d in (2, 3):
        for axis in range(-d, d):
            for ta in range(-d, d):
                if d == 3 and (axis + ta) % 2:  # thin the 36 rank-3 pairs to 18 (every residue pair still occurs)
                    continue
                for padded in (False, True):
                    out.append((d, axis, ta, padded))
    return out


def label_of(c):
    return "d%d_axis%d_time%d_%s" % (c[0], c[1], c[2], "pad" if c[3] else "drop")


LABELS = [label_of(c) for c in cases()]


def to_case(ob):
    import re
    from rtc import c15
    m = re.search(r"\[d(\d)_axis(-?\d)_time(-?\d)_(pad|drop)\]", ob.id)
    d, axis, ta, padded = (int(m.group(1)), int(m.group(2)), int(m.group(3)), m.group(4) == "pad") if m else (2, -1, 0, False)
    shapes = {2: [(7, 3), (2, 5), (1, 4), (6, 1), (0, 3)], 3: [(2, 5, 3), (3, 2, 4), (1, 1, 6), (4, 6, 2)]}[d]
    out = []
    if "self_not_assigned" in ob.id or "nothing_written" in ob.id:
        # what an assignment to `self` inside apply can break only shows when ONE instance is used again: sequences of inputs of
        # different rank on one instance, negative and positive time axes
        def inp(shape, ax):
            return {"shape": list(shape), "dtype": "float64", "layout": "C", "axis": ax, "in_place": False, "seed": 3}
        for t_ax in (-2, -1, 0, 1):
            for nvec in (2, 3):
                seqs = [[(3, 7, 4), (3, 4, 7, 5), (9, 4), (2, 6, 3)], [(9, 4), (3, 7, 4)], [(2, 3, 4, 6), (5, 6)]]
                for seq in seqs:
                    ins = []
                    for shp in seq:
                        r = len(shp)
                        cands = [a for a in range(-r, r) if a % r != t_ax % r]
                        ins.append(inp(shp, cands[-1]))
                    out.append({"op": "reuse", "which": "stack", "config": {"time_axis": t_ax, "num_vectors": nvec, "pad_mode": "edge" if padded else None, "constant_values": None},
                                "inputs": ins})
    pads = ["edge", "constant", "reflect"] if padded else [None]
    for shape in shapes:
        for nvec in (1, 2, 3, 4, 7):
            for pm in pads:
                for ip in (False, True):
                    out.append({"op": "stack", "shape": list(shape), "dtype": "float64", "axis": axis, "time_axis": ta, "num_vectors": nvec,
                                "pad_mode": pm, "constant_values": None, "layout": "C", "in_place": ip, "seed": 5})
    return out


def generate(prop, label):
    from contracts.registry import run_contract
    c = [x for x in cases() if label_of(x) == label][0]
    return run_contract(prop, ("post", f"{CLS}.apply"), contract(*c), [(label, setup(*c))], name="stack_apply", fname="Stack.apply")

"""Sidecar contracts: util.py read_signal (dispatch), _infer_force_as_from_rfilename, wds_read_signal (property C11).

Term level: the ten per-container helpers are uninterpreted (their round-trip behaviour is A-IO-CONTAINER, exercised by the bounded
stand-in); what is proved is the DISPATCH and the error classes:
  read_signal      a non-str source without force_as -> ValueError; a non-str source with force_as kaldi/table -> ValueError; a
                   force_as outside the documented set -> ValueError; otherwise exactly ONE helper is called, the one documented
                   for the (given or inferred) type, with (rfilename, dtype, key, **kwargs), and its result is returned unchanged
                   (force_as is symbolic: an arbitrary string)
  inference        result 'table' iff the name matches ^(ark|scp)(,\\w+)*: ; else the extension after the last '.' if soundfile
                   handles it; else by suffix in the documented order; else IOError (strings: z3 sequence theory)
  wds_read_signal  total: whatever exception the inference or read_signal raises, the result is None
"""
import ast

import z3

from pyvc import api, symex
from pyvc.api import SpecFn, Opaque, Z, Zb, simp, Outside
from pyvc.symex import Contract, PyCallable

HELPERS = ["_kaldi_table_read_signal", "_scipy_io_read_signal", "_wave_read_signal", "_hdf5_read_signal", "_numpy_binary_read_signal",
           "_numpy_archive_read_signal", "_torch_read_signal", "sphere_read_signal", "_kaldi_input_read_signal", "_numpy_fromfile_read_signal",
           "_soundfile_read_signal"]
DOC = {"table": "_kaldi_table_read_signal", "hdf5": "_hdf5_read_signal", "npy": "_numpy_binary_read_signal", "npz": "_numpy_archive_read_signal",
       "pt": "_torch_read_signal", "sph": "sphere_read_signal", "kaldi": "_kaldi_input_read_signal", "file": "_numpy_fromfile_read_signal",
       "soundfile": "_soundfile_read_signal"}


def soundfile_types():
    """config.SOUNDFILE_SUPPORTED_FILE_TYPES of this installation (environment fact, recorded in the evidence)"""
    from rtc import _common
    _common.use_repo()
    from pydrobert.speech import config
    return frozenset(config.SOUNDFILE_SUPPORTED_FILE_TYPES), frozenset(config._BASE_SOUNDFILE_SUPPORTED_TYPES), frozenset(config._FULL_SOUNDFILE_SUPPORTED_TYPES)


def setup(is_str, force_none, scipy_present):
    def _setup(ex, st):
        fa = None if force_none else z3.String("force_as")
        st.env.update({"rfilename": Opaque("SOURCE", "str" if is_str else "stream"), "dtype": Opaque("DTYPE", "v"), "key": Opaque("KEY", "v"),
                       "force_as": fa, "kwargs": Opaque("KWARGS", "kwargs")})
        st.ghost.update(calls=(), inferred=None)
        ex.ctx = dict(is_str=is_str, force_none=force_none, scipy=scipy_present, fa=fa, sf=ex.contract.sf)
    return _setup


def h_isinstance(ex, st, args, kwargs, node, ev):
    return ex.ctx["is_str"]


def h_infer(ex, st, args, kwargs, node, ev):
    s = z3.String("inferred_force_as")
    st.ghost["inferred"] = s
    ex.ctx["inferred"] = s
    ex.assumption_ids.add("callee contract: _infer_force_as_from_rfilename returns a type name or raises IOError (proved separately)")
    return s


def mk_helper(name):
    def h(ex, st, args, kwargs, node, ev):
        star = None
        for k in node.keywords:
            if k.arg is None:
                star = ev.eval(k.value)
        ok = len(args) == 3 and all(isinstance(a, Opaque) for a in args) and [a.term for a in args] == ["SOURCE", "DTYPE", "KEY"] \
            and isinstance(star, Opaque) and star.term == "KWARGS"
        ex.oblige(st, ok, f"helper_called_with_source_dtype_key_kwargs.L{node.lineno - ex.fx.lineno}", "spec", node.lineno)
        if name == "_scipy_io_read_signal" and not ex.ctx["scipy"]:
            st.ghost["calls"] = st.ghost["calls"] + (name + "!ImportError",)
            ex.sym_raise("ImportError")
        st.ghost["calls"] = st.ghost["calls"] + (name,)
        return Opaque(("data", name), "data")
    return h


def h_binop(ex, st, op, a, b, node):
    if isinstance(op, ast.BitOr) and isinstance(a, frozenset) and isinstance(b, frozenset):
        return a | b
    if isinstance(op, ast.Add) and isinstance(a, str) and isinstance(b, str):
        return a + b
    return NotImplemented


def _eff(ev):
    c = ev.ex.ctx
    return c.get("inferred", z3.String("inferred_force_as")) if c["force_none"] else c["fa"]


def _expected_helper(ev):
    """z3 condition: the calls made are exactly the documented ones for the effective type"""
    c = ev.ex.ctx
    sf = ev.ex.ctx["sf"]
    eff = _eff(ev)
    calls = tuple(x for x in ev.st.ghost["calls"])
    conds = []
    for t, h in DOC.items():
        conds.append(z3.Implies(eff == z3.StringVal(t), z3.BoolVal(calls == (h,))))
    wav = ("_scipy_io_read_signal",) if c["scipy"] else ("_scipy_io_read_signal!ImportError", "_wave_read_signal")
    conds.append(z3.Implies(eff == z3.StringVal("wav"), z3.BoolVal(calls == wav)))
    for t in sorted(sf - {"wav"}):
        conds.append(z3.Implies(eff == z3.StringVal(t), z3.BoolVal(calls == ("_soundfile_read_signal",))))
    conds.append(z3.BoolVal(len([x for x in calls if not x.endswith("!ImportError")]) == 1))
    return z3.And(*conds)


def _result_is_helper_result(ev, r):
    calls = [x for x in ev.st.ghost["calls"] if not x.endswith("!ImportError")]
    return isinstance(r, Opaque) and len(calls) == 1 and r.term == ("data", calls[0])


def _documented(ev):
    eff = _eff(ev)
    names = set(DOC) | {"wav"} | set(ev.ex.ctx["sf"])
    return z3.Or(*[eff == z3.StringVal(t) for t in sorted(names)])


def contract():
    sf, base, full = soundfile_types()
    consts = {"config.SOUNDFILE_SUPPORTED_FILE_TYPES": sf, "config._BASE_SOUNDFILE_SUPPORTED_TYPES": base, "config._FULL_SOUNDFILE_SUPPORTED_TYPES": full,
              "str": symex.Builtin("str"),
              "DISPATCH_OK": SpecFn(_expected_helper), "RESULT_OK": SpecFn(_result_is_helper_result), "DOCUMENTED": SpecFn(_documented),
              "IS_STR": SpecFn(lambda ev: ev.ex.ctx["is_str"]), "FORCE_NONE": SpecFn(lambda ev: ev.ex.ctx["force_none"]),
              "KALDI_OR_TABLE": SpecFn(lambda ev: z3.BoolVal(False) if ev.ex.ctx["force_none"] else z3.Or(ev.ex.ctx["fa"] == z3.StringVal("kaldi"), ev.ex.ctx["fa"] == z3.StringVal("table"))),
              "NO_CALLS": SpecFn(lambda ev: len(ev.st.ghost["calls"]) == 0)}
    handlers = {"isinstance": h_isinstance, "_infer_force_as_from_rfilename": h_infer, "binop": h_binop}
    for n in HELPERS:
        handlers[n] = mk_helper(n)
    c = Contract(
        target="util:read_signal",
        uses=["A-PYSEM", "A-IO-CONTAINER"],
        consts=consts,
        handlers=handlers,
        raises={"ValueError": "(not IS_STR() and FORCE_NONE()) or (not IS_STR() and KALDI_OR_TABLE()) or not DOCUMENTED()"},
        ensures=[("exactly_the_documented_helper", "DISPATCH_OK()"), ("returns_its_result", "RESULT_OK(result)")],
        ensures_raise={"ValueError": [("no_reader_was_called", "NO_CALLS()")]},
    )
    c.sf = sf
    return c


SETUPS = [(f"{'name' if s else 'stream'}_{'noforce' if f else 'force'}_{'scipy' if sp else 'noscipy'}", setup(s, f, sp))
          for s in (True, False) for f in (True, False) for sp in (True, False)]


# ------------------------------------------------------------------------------------------ wds_read_signal

def setup_wds(infer_raises, read_raises):
    def _setup(ex, st):
        st.env.update({"key": Opaque("KEY", "str"), "data": Opaque("BYTES", "bytes")})
        ex.ctx = dict(infer_raises=infer_raises, read_raises=read_raises)
    return _setup


def contract_wds():
    def h_infer2(ex, st, args, kwargs, node, ev):
        if ex.ctx["infer_raises"]:
            ex.sym_raise(ex.ctx["infer_raises"])
        return Opaque("TYPE", "str")

    def h_read(ex, st, args, kwargs, node, ev):
        if ex.ctx["read_raises"]:
            ex.sym_raise(ex.ctx["read_raises"])
        return Opaque("ARRAY", "data")

    def h_bytesio(ex, st, args, kwargs, node, ev):
        return Opaque("STREAM", "stream")

    c = Contract(
        target="util:wds_read_signal",
        uses=["A-PYSEM"],
        consts={"RAISED": SpecFn(lambda ev: bool(ev.ex.ctx["infer_raises"] or ev.ex.ctx["read_raises"])),
                "IS_NONE": SpecFn(lambda ev, r: r is None), "IS_ARRAY": SpecFn(lambda ev, r: isinstance(r, Opaque) and r.term == "ARRAY")},
        handlers={"_infer_force_as_from_rfilename": h_infer2, "read_signal": h_read, "io.BytesIO": h_bytesio},
        ensures=[("none_when_anything_raised", "ite(RAISED(), IS_NONE(result), IS_ARRAY(result))")],
    )
    return c


WDS_SETUPS = [("ok", setup_wds(None, None))] + [(f"infer_{e}", setup_wds(e, None)) for e in ("IOError",)] + \
             [(f"read_{e}", setup_wds(None, e)) for e in ("IOError", "ValueError", "KeyError", "BadZipFile", "RuntimeError", "EOFError", "SystemExit", "KeyboardInterrupt", "MemoryError")]


# ------------------------------------------------------------------------------------------ _infer_force_as_from_rfilename

S = z3.StringSort()
EXT = z3.Function("ext_after_last_dot", S, S)


def _word_re():
    import string
    chars = string.ascii_letters + string.digits + "_"
    return z3.Union(*[z3.Re(c) for c in chars])


def table_re():
    # ^(ark|scp)(,\w+)*:  followed by anything
    head = z3.Union(z3.Re("ark"), z3.Re("scp"))
    mid = z3.Star(z3.Concat(z3.Re(","), z3.Plus(_word_re())))
    return z3.Concat(head, mid, z3.Re(":"), z3.Full(z3.ReSort(S)))


class SymStr:
    """symbolic Python str (z3 sequence) with the three methods the function uses"""

    def __init__(self, term):
        self.term = term

    def sym_getattr(self, name, ev, node):
        t = self.term
        if name == "endswith":
            return PyCallable(lambda ev2, args, kwargs, n: z3.SuffixOf(z3.StringVal(args[0]), t))
        if name == "rsplit":
            def rsplit(ev2, args, kwargs, n):
                if args != ["."] and tuple(args) != (".",) or kwargs.get("maxsplit") != 1:
                    raise Outside("rsplit form")
                return RSplit(t)
            return PyCallable(rsplit)
        raise Outside(f"str method .{name}")


class RSplit:
    def __init__(self, t):
        self.t = t

    def sym_getitem(self, sl, ev, node):
        if simp(ev.eval(sl)) != -1:
            raise Outside("rsplit index")
        return EXT(self.t)


def setup_infer(ex, st):
    s = z3.String("rfilename")
    st.env["rfilename"] = SymStr(s)
    dot = z3.StringVal(".")
    pre = z3.String("before_last_dot")
    # definition of the text after the last '.' (str.rsplit('.', maxsplit=1)[-1]), for this one name
    st.assume(z3.Not(z3.Contains(EXT(s), dot)))
    st.assume(z3.If(z3.Contains(s, dot), s == z3.Concat(pre, dot, EXT(s)), EXT(s) == s))
    ex.ctx = dict(s=s, sf=ex.contract.sf)


def h_match(ex, st, args, kwargs, node, ev):
    pat, s = args
    if pat != r"^(ark|scp)(,\w+)*:" or not isinstance(s, SymStr):
        raise Outside("regular expression other than the documented table prefix")
    return z3.InRe(s.term, table_re())


def _spec(ev):
    """the documented inference, in the documented order: (result string, defined?)"""
    s, sf = ev.ex.ctx["s"], sorted(ev.ex.ctx["sf"])
    sv = z3.StringVal
    res, ok = sv(""), z3.BoolVal(False)
    chain = [(z3.SuffixOf(sv("|"), s), sv("kaldi"))]
    for suf, t in ((".sph", "sph"), (".pt", "pt"), (".npz", "npz"), (".npy", "npy"), (".hdf5", "hdf5"), (".wav", "wav")):
        chain.append((z3.SuffixOf(sv(suf), s), sv(t)))
    chain.append((z3.Or(*[EXT(s) == sv(t) for t in sf]) if sf else z3.BoolVal(False), EXT(s)))
    chain.append((z3.InRe(s, table_re()), sv("table")))
    for cond, val in chain:  # built from the last rule to the first
        res, ok = z3.If(cond, val, res), z3.Or(cond, ok)
    return res, ok


def contract_infer():
    c = Contract(
        target="util:_infer_force_as_from_rfilename",
        uses=["A-PYSEM"],
        consts={"config.SOUNDFILE_SUPPORTED_FILE_TYPES": soundfile_types()[0],
                "SPEC_RESULT": SpecFn(lambda ev: _spec(ev)[0]), "SPEC_DEFINED": SpecFn(lambda ev: _spec(ev)[1])},
        handlers={"match": h_match},
        raises={"IOError": "not SPEC_DEFINED()"},
        ensures=[("documented_type", "result == SPEC_RESULT()")],
    )
    c.sf = soundfile_types()[0]
    return c


def to_case(ob):
    """C11 stand-in cases: the error classes, the suffix inference on odd names, and one round trip per container by path and
    by stream (the deterministic part of its quick enumeration)"""
    from rtc import c11
    out = []
    for c in c11.enumerate_singles("quick", 0):
        if c.get("kind") == "error":
            out.append(c)
    for fname, cname in c11.INFER_NAMES:
        cont = c11.CONT[cname]
        base = dict(kind="infer", container=cname, shape=[5, 2] if not cont.one_d_only else [7], sdtype=cont.sdtypes[0], range="full", seed=0, fname=fname)
        out.append(dict(base, via="path"))
    for cname, cont in c11.CONT.items():
        if cname.startswith("raw"):
            continue  # raw binary has no suffix rule (force_as='file' and a real file object are needed): not a dispatch case
        base = dict(kind="roundtrip", container=cname, shape=[7], sdtype=cont.sdtypes[0], range="small", seed=0)
        out.append(dict(base, via="path"))
        if cont.stream_force:
            out.append(dict(base, via="bytesio", force_as=cont.stream_force[0]))
    return out


def to_case_wds(ob):
    """the C11 stand-in's wds_read_signal cases (valid bytes of every container, wrong suffixes, truncated / bit-flipped / magic-prefixed /
    random data, Kaldi-style keys), then the dispatch cases"""
    from rtc import c11
    out = [c for c in c11.enumerate_singles("quick", 0) if c.get("kind") == "wds"]
    return out[:600] + to_case(ob)

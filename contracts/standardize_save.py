"""Sidecar contract for post.Standardize.save (property C17), as an effect trace over assumed NumPy I/O contracts (A-IO-CONTAINER).

The file system is abstracted: an .npz archive is a finite map  key -> array  (ghost z3 arrays HAS / VAL over key identifiers), np.load
either raises IOError or yields the archive's map, np.save / np.savez / np.savez_compressed / ndarray.tofile are recorded as effects with
their arguments.  What is proved, for every statistics object, key, archive content and flag value:
    no statistics        ValueError, nothing is read or written
    *.npy                exactly one effect: np.save(wfilename, stats)
    *.npz                at most one np.load(wfilename), then exactly one np.savez / np.savez_compressed (iff compress) of wfilename with the
                         map  base + {K: stats}:  K is the given key, or - when key is None - 'arr_m' for the least m >= 0 with 'arr_m' not in
                         base; every other entry of base is kept with its value; nothing else is added;  base is the existing archive when
                         the flag asks for it and it could be loaded, and empty otherwise (so saving again to an existing archive succeeds:
                         no effect depends on the file being absent).  The new statistics WIN over an existing entry of the same key.
    any other name       exactly one effect: stats.tofile(wfilename)
The direction of the flag: the docstring says other entries are loaded when overwrite is False, the code loads them when overwrite is
True; property C17 only says the flag decides, so the contract states the code's reading (observation O-7 in DESIGN.md).
Termination of the search for a free 'arr_m' key is not proved (an archive is finite, so it ends).
"""
import ast

import z3

from pyvc import api, symex
from pyvc.api import SpecFn, Opaque, Z, Zb, simp, Outside
from pyvc.symex import Contract, LoopSpec

I, B = z3.IntSort(), z3.BoolSort()
def ARR(m):
    """identifier of the key 'arr_<m>': the number itself (so distinct numbers are distinct keys without an axiom); a key given by the
    caller is an arbitrary integer and may coincide with one of them ('arr_3' passed explicitly)"""
    return Z(m)


class FileName:
    def sym_getattr(self, attr, ev, node):
        if attr == "endswith":
            def endswith(ev2, a, kw, n2):
                if len(a) != 1 or kw or not isinstance(a[0], str):
                    raise Outside("endswith form")
                kind = ev2.ex.ctx["kind"]
                if a[0] in (".npy", ".npz"):
                    return kind == a[0][1:]
                return symex.fresh("endswith_" + "".join(ch for ch in a[0] if ch.isalnum()), "bool")      # some other suffix test: unknown
            return symex.PyCallable(endswith)
        raise Outside(f"file name attribute .{attr}")


class Stats:
    def sym_getattr(self, attr, ev, node):
        if attr == "tofile":
            def tofile(ev2, a, kw, n2):
                _effect(ev2.st, ("tofile", "STATS", _t(a[0]) if len(a) == 1 and not kw else "?"))
                return None
            return symex.PyCallable(tofile)
        raise Outside(f"statistics attribute .{attr}")


class Archive:
    pass


class SymDict:
    """a dict whose content is ghost[name] = (HAS: Array Int->Bool, VAL: Array Int->Int); values are term identifiers (STATS = -1)"""
    def __init__(self, name):
        self.name = name

    def sym_setitem(self, sl, v, ev, node):
        k = Z(_keyid(ev.eval(sl)))
        has, val = ev.st.ghost[self.name]
        ev.st.ghost[self.name] = (z3.Store(has, k, True), z3.Store(val, k, _valid(v)))

    def sym_len(self):
        # the number of entries of an arbitrary archive: some non-negative integer, not tied to which keys are present
        f = symex.fresh("dict_len")
        return z3.If(f >= 0, f, -f)

    def sym_getattr(self, attr, ev, node):
        if attr == "setdefault":
            def setdefault(ev2, a, kw, n2):
                if len(a) != 2 or kw:
                    raise Outside("setdefault form")
                k = Z(_keyid(a[0]))
                has, val = ev2.st.ghost[self.name]
                ev2.st.ghost[self.name] = (z3.Store(has, k, True), z3.Store(val, k, z3.If(z3.Select(has, k), z3.Select(val, k), _valid(a[1]))))
                return Opaque("setdefault_result", "object")
            return symex.PyCallable(setdefault)
        raise Outside(f"dict attribute .{attr}")


STATS_ID = z3.IntVal(-1)


def _valid(v):
    if isinstance(v, Stats):
        return STATS_ID
    raise Outside("dict value that is not the statistics array")


def _keyid(k):
    if symex.is_z3(k) and z3.is_int(k):
        return k
    raise Outside("dict key that is not a key identifier")


def _t(x):
    if isinstance(x, FileName):
        return "FNAME"
    if isinstance(x, Stats):
        return "STATS"
    return "?"


def _effect(st, e):
    st.ghost["effects"] = st.ghost["effects"] + [e]


def setup(kind, key_given, load_ok):
    def setup_(ex, st):
        hs, compress, overwrite = api.sym("have_stats", "bool"), api.sym("compress", "bool"), api.sym("overwrite", "bool")
        keyarg = api.sym("key_id")
        api.mk_obj(st, "self", "Standardize", {"_stats": Stats()})
        st.env.update(wfilename=FileName(), key=(keyarg if key_given else None), compress=compress, overwrite=overwrite)
        st.ghost.update(effects=[], nloads=0)
        ex.ctx = dict(kind=kind, key_given=key_given, load_ok=load_ok, hs=hs, compress=compress, overwrite=overwrite, keyarg=keyarg,
                      AHAS=z3.Array("archive_has", I, B), AVAL=z3.Array("archive_val", I, I))
    return setup_


def h_have_stats(ex, st, o, node):
    return ex.ctx["hs"]


def h_save(ex, st, args, kwargs, node, ev):
    _effect(st, ("np.save", _t(args[0]) if args else "?", _t(args[1]) if len(args) == 2 and not kwargs else "?"))
    return None


def h_load(ex, st, args, kwargs, node, ev):
    _effect(st, ("np.load", _t(args[0]) if len(args) == 1 and not kwargs else "?"))
    st.ghost["nloads"] = st.ghost["nloads"] + 1
    if not ex.ctx["load_ok"]:
        ex.sym_raise("IOError")           # no such file, or not an archive
    return Archive()


def h_dict(ex, st, args, kwargs, node, ev):
    n = f"dict{next(symex._fresh)}"
    if not args and not kwargs:
        st.ghost[n] = (z3.K(I, z3.BoolVal(False)), z3.K(I, z3.IntVal(0)))
        return SymDict(n)
    if len(args) == 1 and isinstance(args[0], Archive) and not kwargs:
        st.ghost[n] = (ex.ctx["AHAS"], ex.ctx["AVAL"])
        return SymDict(n)
    if len(args) == 1 and isinstance(args[0], SymDict) and not kwargs:
        st.ghost[n] = st.ghost[args[0].name]
        return SymDict(n)
    if len(args) <= 1 and (not args or isinstance(args[0], dict)) and set(kwargs) <= {None} and (None not in kwargs or isinstance(kwargs[None], SymDict)):
        # dict({k: v, ...}, **other): the displayed items first, then every entry of `other` (which WINS on equal keys)
        has, val = z3.K(I, z3.BoolVal(False)), z3.K(I, z3.IntVal(0))
        for k_, v_ in (args[0].items() if args else ()):
            has, val = z3.Store(has, Z(_keyid(k_)), True), z3.Store(val, Z(_keyid(k_)), _valid(v_))
        if None in kwargs:
            oh, ov = st.ghost[kwargs[None].name]
            q = z3.Int(f"dq{next(symex._fresh)}")
            has, val = z3.Lambda([q], z3.Or(z3.Select(has, q), z3.Select(oh, q))), z3.Lambda([q], z3.If(z3.Select(oh, q), z3.Select(ov, q), z3.Select(val, q)))
        st.ghost[n] = (has, val)
        return SymDict(n)
    raise Outside("dict() form")


def h_compare(ex, st, op, a, b, n, ev):
    if isinstance(b, SymDict) and isinstance(op, (ast.In, ast.NotIn)):
        has, _ = st.ghost[b.name]
        r = z3.Select(has, Z(_keyid(a)))
        return r if isinstance(op, ast.In) else z3.Not(r)
    return NotImplemented


def h_format(ex, st, fmt, args, kwargs, node, ev):
    if fmt == "arr_{}" and len(args) == 1 and not kwargs and (isinstance(args[0], int) or (symex.is_z3(args[0]) and z3.is_int(args[0]))):
        return ARR(Z(args[0]))
    return "<formatted string>"


def _h_savez(name):
    def h(ex, st, args, kwargs, node, ev):
        d = kwargs.get(None)
        ok = len(args) == 1 and isinstance(d, SymDict) and set(kwargs) == {None}
        _effect(st, (name, _t(args[0]) if args else "?", st.ghost[d.name] if ok else None))
        return None
    return h


def contract():
    def base(c):
        """the entries the new archive starts from"""
        if not c["load_ok"]:
            return z3.K(I, z3.BoolVal(False)), None
        return c["AHAS"], c["AVAL"]

    def effects_ok(ev):
        st, c = ev.st, ev.ex.ctx
        eff = st.ghost["effects"]
        if c["kind"] == "npy":
            return z3.BoolVal(eff == [("np.save", "FNAME", "STATS")])
        if c["kind"] == "other":
            return z3.BoolVal(eff == [("tofile", "STATS", "FNAME")])
        # npz: [load]? then one write
        writes = [e for e in eff if e[0] in ("np.savez", "np.savez_compressed", "np.save", "tofile")]
        loads = [e for e in eff if e[0] == "np.load"]
        if len(writes) != 1 or len(loads) > 1 or any(e != ("np.load", "FNAME") for e in loads) or (loads and eff[0] != loads[0]) or writes[0] is not eff[-1]:
            return z3.BoolVal(False)
        w = writes[0]
        if w[0] not in ("np.savez", "np.savez_compressed") or w[1] != "FNAME" or w[2] is None:
            return z3.BoolVal(False)
        fh, fv = w[2]
        right_fn = z3.BoolVal(w[0] == "np.savez_compressed") == c["compress"]
        loaded = len(loads) == 1
        # base: the existing archive iff it was asked for (flag) and could be loaded
        asked = c["overwrite"]
        right_load = z3.BoolVal(loaded) == asked
        if loaded and c["load_ok"]:
            bh, bv = c["AHAS"], c["AVAL"]
        else:
            bh, bv = z3.K(I, z3.BoolVal(False)), z3.K(I, z3.IntVal(0))
        k = z3.Int("kq")
        if c["key_given"]:
            K = c["keyarg"]
            key_ok = z3.BoolVal(True)
        else:
            v = st.env.get("v")
            if v is None or not symex.is_z3(Z(v)):
                return z3.BoolVal(False)
            u = z3.Int("uq")
            K = ARR(Z(v))
            key_ok = z3.And(Z(v) >= 0, z3.Not(z3.Select(bh, K)), z3.ForAll([u], z3.Implies(z3.And(u >= 0, u < Z(v)), z3.Select(bh, ARR(u)))))
        content = z3.And(z3.ForAll([k], z3.Select(fh, k) == z3.Or(k == K, z3.Select(bh, k))),
                         z3.Select(fv, K) == STATS_ID,
                         z3.ForAll([k], z3.Implies(z3.And(k != K, z3.Select(bh, k)), z3.Select(fv, k) == z3.Select(bv, k))))
        return z3.And(right_fn, right_load, key_ok, content)

    def inv(ev):
        st, c = ev.st, ev.ex.ctx
        arr = st.env.get("array")
        if not isinstance(arr, SymDict):
            return z3.BoolVal(False)
        has, _ = st.ghost[arr.name]
        cv = Z(st.env["__cv"])
        u = z3.Int("uq")
        return z3.And(cv >= 0, z3.ForAll([u], z3.Implies(z3.And(u >= 0, u < cv), z3.Select(has, ARR(u)))))

    c = Contract(
        target="post:Standardize.save", uses=["A-PYSEM", "A-IO-CONTAINER"],
        consts={"EFFECTS_OK": SpecFn(effects_ok), "INV": SpecFn(inv), "HS": SpecFn(lambda ev: ev.ex.ctx["hs"]),
                "NOTHING_DONE": SpecFn(lambda ev: len(ev.st.ghost["effects"]) == 0)},
        handlers={"attr:have_stats": h_have_stats, "np.save": h_save, "np.load": h_load, "dict": h_dict, "compare": h_compare, "str.format": h_format,
                  "np.savez": _h_savez("np.savez"), "np.savez_compressed": _h_savez("np.savez_compressed")},
        loops={0: LoopSpec(kind=None, invariant=[("all_smaller_default_keys_are_taken", "INV()")])},
        raises={"ValueError": "not HS()"},
        ensures=[("exactly_the_documented_effects", "EFFECTS_OK()")],
    )
    c.ensures_raise = {"ValueError": [("nothing_read_or_written", "NOTHING_DONE()")]}
    return c


LABELS = ["npy", "other", "npz|key|load", "npz|key|noload", "npz|nokey|load", "npz|nokey|noload"]


def generate(prop, label):
    from contracts.registry import run_contract
    parts = label.split("|")
    kind = parts[0]
    key_given = len(parts) > 1 and parts[1] == "key"
    load_ok = len(parts) > 2 and parts[2] == "load"
    return run_contract(prop, ("post", "Standardize.save"), contract(), [(label, setup(kind, key_given, load_ok))], name="std_save", fname="Standardize.save")


def unit_save(prop="C17"):
    def unit(tier, known):
        from contracts.registry import run_parallel
        def to_case_c17(ob):
            """for the save unit: the flag pairs (same archive, overwrite True vs False), the no-statistics cases and the histories that
            save more than once to one path first, then a sample of every target kind"""
            try:
                from rtc import c17
                cs = list(c17.enumerate_cases("quick", 0))
            except Exception:
                return None
            first = [c for c in cs if c.get("kind") in ("flag_pair", "no_stats")]
            multi = [c for c in cs if c.get("kind") == "history" and len(c.get("steps", [])) >= 2 and str(c.get("target", "")).startswith("npz")]
            rest = [c for c in cs if c not in first and c not in multi]
            return first + multi[:150] + rest[:150]
        jobs = [("contracts.standardize_save", "generate", (prop, label)) for label in LABELS]
        return run_parallel("std_save", jobs, to_case=to_case_c17, replay_module="rtc.c17")
    unit.__name__ = "std_save"
    return unit

"""Sidecar contract: filters.py GaborFilterBank.__init__ (properties C05 layout / rejection, C07 straddle clause), scale_l2_norm False and -
with the frequency-support radicand's sign left as a listed assumption and "centre strictly inside supports_hz" weakened to "supports_hz
symmetric around the centre" - scale_l2_norm True.

Against the CONTRACT of ScalingFunction (S strictly increasing, S and S^-1 mutually inverse; C19). Proved for every num_filts >= 1,
rate > 0 and valid range:
    ValueError exactly for low_hz < 0 or a non-zero high_hz not above low_hz / above floor(rate / 2)
    the num_filts + 1 band edges are S^-1(S(low) + delta * (k + 1/2)), delta = (S(high) - S(low)) / (num_filts + 1): equally spaced on the
    scale; every centre is the midpoint (in Hz) of its two edges, so centres are strictly increasing and lie strictly inside their
    supports_hz (centre +- diff with diff > 0); the standard deviation of every filter is positive; the temporal support of every filter
    is (-d, d) with an integer d >= 1 (straddles sample 0); one entry per filter in every per-filter list, in filter order.
Assumed: ln / sqrt / pi as uninterpreted functions with monotonicity and positivity axioms (A-MATH), EFFECTIVE_SUPPORT_THRESHOLD < 1 read
from config.py. The 3 dB / ERB constants themselves and scale_l2_norm=True (whose support formula takes the square root of
log(std) + const, not provably non-negative without numeric bounds) are left to the bounded stand-in.
"""
import ast

import z3

from pyvc import api, symex
from pyvc.api import I, R, SpecFn, Z, Zb, Opaque, SeqVal, simp, to_real, Outside
from pyvc.symex import Contract, LoopSpec, fresh
from contracts.filters_tri import S, SI, scale_axioms, SCALE_HANDLERS
from contracts.filters_supports import PI

CLS = "GaborFilterBank"
LISTS = ("centers_hz", "centers_ang", "stds", "supports_ang", "supports", "wrap_supports_ang")


def setup(high_none, l2=False):
    def _setup(ex, st):
        n = api.sym("num_filts")
        low, rate = api.sym("low_hz", "real"), api.sym("sampling_rate", "real")
        st.assume(z3.And(n >= 1, rate > 0, PI > 3, PI < 4))
        st.assume(low < z3.ToReal(z3.ToInt(rate / 2)))
        api.mk_obj(st, "self", CLS, {})
        high = None if high_none else api.sym("high_hz", "real")
        if high is not None:
            st.assume(high != 0)  # an explicit high_hz of exactly 0 is falsy: neither range-checked nor defaulted (outside "valid")
        st.env.update({"scaling_function": Opaque("scale_arg", "arg"), "num_filts": n, "high_hz": high, "low_hz": low, "sampling_rate": rate,
                       "scale_l2_norm": l2, "erb": api.sym("erb", "bool")})
        st.ghost["HIGH0"] = z3.ToReal(z3.ToInt(rate / 2)) if high_none else high
        st.ghost.update({"app_" + k: 0 for k in LISTS})
        for ax in scale_axioms() + api.math_axioms():
            ex.axioms.append(ax)
        x = z3.Real("gx")
        ex.axioms.append(api.LN(z3.RealVal(1)) == 0)
        ex.axioms.append(z3.ForAll([x], z3.Implies(x > 0, api.SQRT(x) > 0), patterns=[api.SQRT(x)]))
        ex.axioms.append(api.SQRT(z3.RealVal(0)) == 0)
        ex.ctx = dict(n=n, rate=rate, low=low, l2=l2)
    return _setup


def h_h2a(ex, st, args, kwargs, node, ev):
    hz, rate = args
    return to_real(hz) * 2 * PI / to_real(rate)


def h_a2h(ex, st, args, kwargs, node, ev):
    ang, rate = args
    return to_real(ang) * to_real(rate) / (2 * PI)


def h_log(ex, st, args, kwargs, node, ev):
    (a,) = args
    za = to_real(a)
    ex.oblige(st, za > 0, f"log_of_positive.L{node.lineno - ex.fx.lineno}", "wd", node.lineno)
    return api.LN(za)


def h_sqrt(ex, st, args, kwargs, node, ev):
    (a,) = args
    za = to_real(a)
    if (getattr(ex, "ctx", None) or {}).get("l2") and "log_std + f_support_const" in ast.unparse(node):
        # scale_l2_norm: the frequency-support radicand log(std) + const is negative for wide bands (numeric; NaN supports are the C05 /
        # C07 stand-ins' business) - not obliged, listed as an assumption
        ex.assumption_ids.add("assumed: with scale_l2_norm the Gabor frequency-support radicand log(std) + const is non-negative (numeric; stand-in)")
        return api.SQRT(za)
    ex.oblige(st, za >= 0, f"sqrt_of_nonnegative.L{node.lineno - ex.fx.lineno}", "wd", node.lineno)
    return api.SQRT(za)


def h_append(ex, st, lst, v, node):
    lbl = f"L{node.lineno - ex.fx.lineno}"
    name = next((k for k, val in st.env.items() if val is lst and k in LISTS), None)
    if name is None:
        raise Outside("append to a list the contract does not know")
    i = Z(st.env["__zi"])
    ex.oblige(st, Z(st.ghost["app_" + name]) == i, f"{name}.one_entry_per_filter_in_order.{lbl}", "spec", node.lineno)
    st.ghost["app_" + name] = simp(i + 1)
    edges = st.env["edges"]
    lo, hi = edges.getter(i), edges.getter(i + 1)
    if name == "centers_hz":
        ex.oblige(st, to_real(v) * 2 == to_real(lo) + to_real(hi), f"centre_is_midpoint_of_its_edges.{lbl}", "spec", node.lineno)
        st.ghost["centre_now"] = to_real(v)
    elif name == "stds":
        ex.oblige(st, to_real(v) > 0, f"std_positive.{lbl}", "spec", node.lineno)
    elif name == "supports_ang":
        c = st.ghost.get("centre_now")
        ok = isinstance(v, tuple) and len(v) == 2
        if not ok or c is None:
            raise Outside("supports_ang entry form")
        cang = c * 2 * PI / ex.ctx["rate"]
        if ex.ctx.get("l2"):
            ex.oblige(st, to_real(v[0]) + to_real(v[1]) == 2 * cang, f"supports_hz_symmetric_around_the_centre.{lbl}", "spec", node.lineno)
        else:
            ex.oblige(st, z3.And(to_real(v[0]) < cang, cang < to_real(v[1])), f"centre_strictly_inside_supports_hz.{lbl}", "spec", node.lineno)
    elif name == "supports":
        ok = isinstance(v, tuple) and len(v) == 2
        if not ok:
            raise Outside("supports entry form")
        l, r = Z(v[0]), Z(v[1])
        ex.oblige(st, z3.And(z3.is_int(l), z3.is_int(r), l == -r, r >= 1), f"temporal_support_straddles_sample_0.{lbl}", "spec", node.lineno)


def _retype_lists(hst, v):
    return v


def contract(high_none):
    from pyvc import extract
    cfg = extract.module_constants("config")
    thr = api.symex._frac(cfg["EFFECTIVE_SUPPORT_THRESHOLD"])
    raises = "low_hz < 0" if high_none else "low_hz < 0 or (high_hz != 0 and (high_hz <= low_hz or high_hz > HALF()))"
    consts = {"S": SpecFn(lambda ev, x: S(to_real(x))), "ScalingFunction": Opaque("ScalingFunction", "class"),
              "HALF": SpecFn(lambda ev: z3.ToReal(z3.ToInt(to_real(ev.st.env["sampling_rate"]) / 2))),
              "config.EFFECTIVE_SUPPORT_THRESHOLD": thr, "np.pi": PI,
              "EDGE": SpecFn(lambda ev, k: to_real(ev.st.env["edges"].getter(Z(k)))),
              "APPENDED_ALL": SpecFn(lambda ev: z3.And(*[Z(ev.st.ghost["app_" + k]) == ev.ex.ctx["n"] for k in LISTS])),
              "ISLIST": SpecFn(lambda ev, a: isinstance(a, (list, tuple)))}
    handlers = dict(SCALE_HANDLERS)
    handlers.update({"hertz_to_angular": h_h2a, "angular_to_hertz": h_a2h, "np.log": h_log, "np.sqrt": h_sqrt, "list.append": h_append})
    inv = [("range", "0 <= __zi <= num_filts"),
           ("lists", " and ".join(f"ISLIST({k})" for k in LISTS)),
           ("one_entry_per_list_so_far", "APPENDED_SO_FAR()")]
    consts["APPENDED_SO_FAR"] = SpecFn(lambda ev: z3.And(*[Z(ev.st.ghost["app_" + k]) == Z(ev.st.env["__zi"]) for k in LISTS]))
    c = Contract(
        target=f"filters:{CLS}.__init__", uses=["A-REAL", "A-PYSEM", "A-MATH"], consts=consts, handlers=handlers,
        raises={"ValueError": raises},
        loops={0: LoopSpec(kind="for", modifies_ghost=["app_" + k for k in LISTS] + ["centre_now"], modifies_fields=["_wrap_below"], invariant=inv)},
        ensures=[
            ("edges_strictly_increasing", "forall(k, 0, num_filts, EDGE(k) < EDGE(k + 1))"),
            ("edges_equally_spaced_on_scale", "forall(k, 0, num_filts + 1, S(EDGE(k)) == S(low_hz) + ((S(HIGH0) - S(low_hz)) / (num_filts + 1)) * (k + 1 / 2))"),
            ("one_entry_per_filter_in_every_list", "APPENDED_ALL()"),
            ("rate", "self._rate == sampling_rate"),
        ],
    )
    c.canaries = [("edges_at_whole_steps", "forall(k, 0, num_filts + 1, S(EDGE(k)) == S(low_hz) + ((S(HIGH0) - S(low_hz)) / (num_filts + 1)) * k)")]
    return c


def to_case_c05(ob):
    """C05 stand-in cases for Gabor banks: layout (edges / centres / supports_hz), rejection, and the response clauses, over its scales x
    rates x filter counts x ranges; the model's rate / range / filter count first when a real bank can have them"""
    from pyvc.solve import model_real, model_int
    from rtc import c05
    import numpy as np
    specs = []
    rate, low, high, n = model_real(ob.model, "sampling_rate"), model_real(ob.model, "low_hz"), model_real(ob.model, "high_hz"), model_int(ob.model, "num_filts")
    if rate and n and 100 <= rate <= 1e5 and 1 <= n <= 64 and low is not None and low >= 0:
        specs.append({"bank": "gabor", "scale": {"name": "mel"}, "num_filts": n, "rate": float(rate), "low_hz": float(low), "high_hz": high, "erb": False, "l2": False})
    for sp in c05._grid("quick"):
        if sp["bank"] == "gabor":
            specs.append(sp)
    out = []
    for sp in specs[:120]:
        out.append({"kind": "layout", "bank": sp})
    try:
        rng = np.random.default_rng(0)
        out += [c for c in c05._reject_cases(rng) if c.get("bank", {}).get("bank") == "gabor" or "gabor" in str(c)][:40]
    except Exception:
        pass
    for sp in specs[:40]:
        out.append({"kind": "response", "bank": sp, "filt": 0})
    return out


def generate(prop, label):
    from contracts.registry import run_contract
    hn = label.startswith("high_none")
    l2 = label.endswith("|l2")
    return run_contract(prop, ("filters", f"{CLS}.__init__"), contract(hn), [(label, setup(hn, l2))], name="gabor_init", fname="GaborFilterBank.__init__")


LABELS = ["high_none", "high_given", "high_none|l2", "high_given|l2"]


# ------------------------------------------------------------------------------------------
# ComplexGammatoneFilterBank.__init__, the statements up to the band edges (a statement slice: the per-filter constants - bandwidth,
# normalisation, supports - are numeric and left to the bounded stand-in): rejection of bad ranges and orders, edge layout
# ------------------------------------------------------------------------------------------


def sel_gamma_prefix(fn):
    out = []
    for s in fn.body:
        out.append(s)
        if isinstance(s, ast.Assign) and ast.unparse(s.targets[0]) == "edges":
            return out
    return []


def setup_gamma(high_none):
    def _setup(ex, st):
        n, order = api.sym("num_filts"), api.sym("order")
        low, rate = api.sym("low_hz", "real"), api.sym("sampling_rate", "real")
        st.assume(z3.And(n >= 1, rate > 0))
        st.assume(low < z3.ToReal(z3.ToInt(rate / 2)))
        api.mk_obj(st, "self", "ComplexGammatoneFilterBank", {})
        high = None if high_none else api.sym("high_hz", "real")
        if high is not None:
            st.assume(high != 0)
        st.env.update({"scaling_function": Opaque("scale_arg", "arg"), "num_filts": n, "high_hz": high, "low_hz": low, "sampling_rate": rate,
                       "order": order, "max_centered": api.sym("max_centered", "bool"), "scale_l2_norm": api.sym("l2", "bool"), "erb": api.sym("erb", "bool")})
        st.ghost["HIGH0"] = z3.ToReal(z3.ToInt(rate / 2)) if high_none else high
        for ax in scale_axioms():
            ex.axioms.append(ax)
        ex.ctx = dict(n=n, rate=rate, low=low)
    return _setup


def _h_isinstance_int(ex, st, args, kwargs, node, ev):
    obj, cls = args
    if symex.is_z3(obj) and z3.is_int(obj) and getattr(cls, "name", None) == "int":
        return True
    raise Outside("isinstance form")


def contract_gamma(high_none):
    rng = "low_hz < 0" if high_none else "low_hz < 0 or (high_hz != 0 and (high_hz <= low_hz or high_hz > HALF()))"
    consts = {"S": SpecFn(lambda ev, x: S(to_real(x))), "ScalingFunction": Opaque("ScalingFunction", "class"),
              "HALF": SpecFn(lambda ev: z3.ToReal(z3.ToInt(to_real(ev.st.env["sampling_rate"]) / 2))),
              "EDGE": SpecFn(lambda ev, k: to_real(ev.st.env["edges"].getter(Z(k)))), "int": symex.Builtin("int")}
    handlers = dict(SCALE_HANDLERS)
    handlers["isinstance"] = _h_isinstance_int
    c = Contract(
        target="filters:ComplexGammatoneFilterBank.__init__", uses=["A-REAL", "A-PYSEM"], consts=consts, handlers=handlers,
        raises={"ValueError": f"({rng}) or order <= 0"},
        ensures=[
            ("edges_equally_spaced_on_scale", "forall(k, 0, num_filts + 1, S(EDGE(k)) == S(low_hz) + ((S(HIGH0) - S(low_hz)) / (num_filts + 1)) * (k + 1 / 2))"),
            ("edges_strictly_increasing", "forall(k, 0, num_filts, EDGE(k) < EDGE(k + 1))"),
            ("order_and_rate_kept", "self._order == order and self._rate == sampling_rate"),
        ],
    )
    c.canaries = [("edges_at_whole_steps", "forall(k, 0, num_filts + 1, S(EDGE(k)) == S(low_hz) + ((S(HIGH0) - S(low_hz)) / (num_filts + 1)) * k)")]
    return c


def generate_gamma(prop, label):
    from contracts.registry import run_contract
    from pyvc import extract
    from pyvc.check import UnitResult
    hn = label == "high_none"
    try:
        fx = extract.get_slice("filters", "ComplexGammatoneFilterBank.__init__", sel_gamma_prefix, "range / order checks and band edges")
    except KeyError as e:
        u = UnitResult("gamma_init_prefix")
        u.outside.append(("filters:ComplexGammatoneFilterBank.__init__", str(e)))
        return u
    return run_contract(prop, fx, contract_gamma(hn), [(label, setup_gamma(hn))], name="gamma_init_prefix", fname="ComplexGammatoneFilterBank.__init__#prefix")


# ------------------------------------------------------------------------------------------
# ComplexGammatoneFilterBank._calculate_temp_support (C07, last clause): the temporal support of filter idx is (floor(offset), ...) with an
# integer left end - so a causal bank (max_centered False: every offset is 0, see the constructor) has supports that START AT SAMPLE 0,
# whatever the Newton iteration for the right end does - and a right end that is an integer not left of the onset's ceiling estimate.
# The iteration itself (real analysis) is havocked: its loop carries no invariant beyond "the tolerance test was evaluated".
# ------------------------------------------------------------------------------------------
def setup_gamma_support(order_one):
    def _setup(ex, st):
        from pyvc.api import SeqVal
        idx, order = api.sym("idx"), (1 if order_one else api.sym("order"))
        nf = api.sym("num_filts")
        st.assume(z3.And(idx >= 0, idx < nf))
        if not order_one:
            st.assume(order >= 2)
        off = z3.Function("offset_of_filter", I, R)
        alpha = z3.Function("alpha_of_filter", I, R)
        cc = z3.Function("c_of_filter", I, R)
        k = z3.Int("gk")
        st.assume(z3.ForAll([k], z3.And(alpha(k) > 0, cc(k) > 0)))
        api.mk_obj(st, "self", "ComplexGammatoneFilterBank", {"_alphas": SeqVal(nf, lambda j: alpha(Z(j))), "_cs": SeqVal(nf, lambda j: cc(Z(j))),
                                                              "_offsets": SeqVal(nf, lambda j: off(Z(j))), "_order": order})
        st.env["idx"] = idx
        for ax in api.math_axioms():
            ex.axioms.append(ax)
        ex.ctx = dict(idx=idx, off=off(idx))
    return _setup


def _eps_const():
    """EFFECTIVE_SUPPORT_THRESHOLD as written in config.py (a positive literal), as an exact rational"""
    from fractions import Fraction
    from pyvc import extract
    v = extract.module_constants("config").get("EFFECTIVE_SUPPORT_THRESHOLD")
    if not isinstance(v, (int, float)) or not v > 0:
        raise Outside("config.EFFECTIVE_SUPPORT_THRESHOLD is not a positive literal")
    f = Fraction(repr(v)) if not isinstance(v, int) else Fraction(v)
    return z3.RealVal(str(f))


def contract_gamma_support():
    def h_h(ex, st, o, args, kwargs, node, ev):
        return fresh("h_value", "real")

    def h_abs(ex, st, args, kwargs, node, ev):
        (a,) = args
        za = to_real(a)
        return simp(z3.If(za >= 0, za, -za))

    def h_exp(ex, st, args, kwargs, node, ev):
        return api.EXP(to_real(args[0])) if hasattr(api, "EXP") else fresh("exp_value", "real")

    powi = z3.Function("pow_int", R, I, R)

    def h_binop(ex, st, op, a, b, n):
        if isinstance(op, ast.Pow) and symex.is_z3(b) and z3.is_int(b) and (symex.is_num(a) or symex.is_z3(a)):
            return powi(to_real(a), b)            # t ** (n - 2) in the Newton step: uninterpreted (the iteration is not specified)
        if isinstance(op, ast.Div) and isinstance(n, ast.BinOp) and isinstance(n.right, ast.Name) and n.right.id == "d_0":
            # the Newton step divides by the derivative of the envelope at the iterate: non-zero to the right of the envelope's mode, where the
            # iteration starts and stays (real analysis, not shown here)
            ex.assumption_ids.add("assumed: the envelope's derivative is non-zero at the Newton iterates of _calculate_temp_support")
            st.assume(to_real(b) != 0)
            return simp(to_real(a) / to_real(b))
        return NotImplemented

    c = Contract(
        target=f"filters:ComplexGammatoneFilterBank._calculate_temp_support", uses=["A-REAL", "A-PYSEM", "A-MATH"],
        consts={"config.EFFECTIVE_SUPPORT_THRESHOLD": _eps_const(), "OFFSET": SpecFn(lambda ev: ev.ex.ctx["off"])},
        handlers={"np.log": h_log, "np.sqrt": h_sqrt, "np.abs": h_abs, "np.exp": h_exp, "ComplexGammatoneFilterBank._h": h_h, "self._h": h_h, "binop": h_binop},
        loops={0: LoopSpec(kind="while", invariant=[("iteration_state_is_real", "True")])},
        ensures=[("left_end_is_the_floor_of_the_onset", "result[0] <= OFFSET() and OFFSET() < result[0] + 1 and len(result) == 2"),
                 ("a_causal_filter_starts_at_sample_0", "implies(OFFSET() == 0, result[0] == 0)")],
    )
    return c


def unit_gamma_support(prop="C07"):
    def unit(tier, known):
        from contracts.registry import run_contract

        def tc(ob):
            """causal and max-centred gammatone banks of orders 1-5 in the C07 stand-in's case format (every filter end and the middle)"""
            out = []
            for order in (4, 3, 2, 1, 5):
                for mc in (False, True):
                    for r, nf, lo in ((8000.0, 3, 20.0), (16000.0, 10, 0.0), (8000.0, 40, 20.0)):
                        sp = dict(bank="gamma", scale={"name": "mel"}, num_filts=nf, low_hz=lo, high_hz=None, rate=r, order=order, max_centered=mc)
                        for k in sorted({0, nf // 2, nf - 1}):
                            out.append({"bank": sp, "filt": k, "mult": 1, "plus": 0})
            return out
        return run_contract(prop, ("filters", "ComplexGammatoneFilterBank._calculate_temp_support"), contract_gamma_support(),
                            [("order1", setup_gamma_support(True)), ("order_ge_2", setup_gamma_support(False))], name="gamma_support",
                            fname="ComplexGammatoneFilterBank._calculate_temp_support", to_case=tc, replay_module="rtc.c07")
    unit.__name__ = "gamma_support"
    return unit


# ------------------------------------------------------------------------------------------
# GaborFilterBank / ComplexGammatoneFilterBank .get_frequency_response: the LENGTH clause of C06 ("the half=True response ... with the
# documented length": width, or with half=True width // 2 + 1 for even and (width + 1) // 2 for odd widths) and index safety of every store
# (bin idx of an array of that length, for every period count). The VALUES are sums of Gaussians / gammatone magnitudes over the periodic
# images - numerical, bounded by the stand-in; the loops are cut with the invariant "the array still has the documented length".
# ------------------------------------------------------------------------------------------
def _setup_resp(cls, half):
    def _setup(ex, st):
        from pyvc.api import SeqVal
        nf, fi, w = api.sym("num_filts"), api.sym("filt_idx"), api.sym("width")
        st.assume(z3.And(nf >= 1, fi >= 0, fi < nf, w >= 2, PI > 3, PI < 4))
        cen, lo, hi, sd = (z3.Function(n_, I, R) for n_ in ("center_ang", "support_low_ang", "support_high_ang", "std_or_alpha"))
        k = z3.Int("rk")
        st.assume(z3.ForAll([k], z3.And(lo(k) < hi(k), sd(k) > 0, hi(k) > 0)))
        fields = {"_centers_ang": SeqVal(nf, lambda j: cen(Z(j))), "_supports_ang": SeqVal(nf, lambda j: (lo(Z(j)), hi(Z(j)))),
                  "_stds": SeqVal(nf, lambda j: sd(Z(j))), "_scale_l2_norm": api.sym("scale_l2_norm", "bool"),
                  "_xis": SeqVal(nf, lambda j: cen(Z(j))), "_alphas": SeqVal(nf, lambda j: sd(Z(j))), "_cs": SeqVal(nf, lambda j: sd(Z(j))),
                  "_offsets": SeqVal(nf, lambda j: cen(Z(j))), "_order": api.sym("order")}
        api.mk_obj(st, "self", cls, fields)
        st.assume(Z(st.fields[("self", "_order")]) >= 1)
        st.env.update(filt_idx=fi, width=w, half=half)
        for ax in api.math_axioms():
            ex.axioms.append(ax)
        ex.ctx = dict(w=w, half=half)
    return _setup


def contract_resp_length(cls, half, nloops):
    def h_exp(ex, st, args, kwargs, node, ev):
        return fresh("exp_value", "real")

    def h_fact(ex, st, args, kwargs, node, ev):
        return fresh("factorial_value", "real")

    def h_binop(ex, st, op, a, b, n):
        if isinstance(op, ast.Pow) and (symex.is_z3(b) or symex.is_z3(a)) and not (symex.concrete(b) and isinstance(b, int) and 0 <= b <= 4):
            return fresh("power_value", "real")
        return NotImplemented

    dft = SpecFn(lambda ev: (z3.If(ev.ex.ctx["w"] % 2 == 1, (ev.ex.ctx["w"] + 1) / 2, ev.ex.ctx["w"] / 2 + 1)) if half else ev.ex.ctx["w"])
    loops = {k: LoopSpec(kind="for", invariant=[("array_keeps_the_documented_length", "len(res) == DFT()")]) for k in range(nloops)}
    return Contract(
        target=f"filters:{cls}.get_frequency_response", uses=["A-REAL", "A-PYSEM", "A-MATH"],
        consts={"DFT": dft, "np.pi": PI, "np.float64": Opaque("float64", "dtype"), "np.complex128": Opaque("complex128", "dtype")},
        handlers={"np.exp": h_exp, "np.log": h_log, "np.sqrt": h_sqrt, "math.factorial": h_fact, "binop": h_binop},
        loops=loops,
        ensures=[("documented_length", "len(result) == DFT()")],
    )


def unit_resp_length(prop="C06"):
    def unit(tier, known):
        from contracts.registry import run_contract
        from contracts import filters_tri as T
        u = None

        def tc_for(bank):
            def tc(ob):
                out = []
                for c in T.to_case_frequency(ob):
                    b = dict(c["bank"], bank=bank)
                    b.pop("analytic", None)
                    out.append(dict(c, bank=b))
                return out
            return tc
        for cls, bank in (("GaborFilterBank", "gabor"),):
            for half in (False, True):
                r = run_contract(prop, ("filters", f"{cls}.get_frequency_response"), contract_resp_length(cls, half, 2),
                                 [("half" if half else "full", _setup_resp(cls, half))], name="resp_length", fname=f"{cls}.get_frequency_response",
                                 to_case=tc_for(bank), replay_module="rtc.c06")
                if u is None:
                    u = r
                else:
                    u.obligations += r.obligations
                    u.outside += r.outside
                    u.functions += r.functions
                    u.assumptions |= r.assumptions
        return u
    unit.__name__ = "resp_length"
    return unit


# GaborFilterBank.get_truncated_response: C06's "the start bin lies in [0, width)" and the shape of the answer - either the whole period
# (start bin 0, the full response of length width: callee contract above) when the doubled support reaches 2 pi, or bins
# ceil(width * low / 2 pi) .. floor(width * high / 2 pi) (start bin reduced modulo width, 1 + right - left values, never negative).
def contract_trunc_shape():
    def h_exp(ex, st, args, kwargs, node, ev):
        return fresh("exp_value", "real")

    def h_full(ex, st, o, args, kwargs, node, ev):
        ok = len(args) == 2 and not kwargs and args[0] is st.env["filt_idx"] and args[1] is st.env["width"]
        ex.oblige(st, ok, f"whole_period_is_the_full_response_of_this_filter_and_width.L{node.lineno - ex.fx.lineno}", "trace", node.lineno)
        k = z3.Int("fk!%d" % next(symex._fresh))
        fr = z3.Function("full_response_value!%d" % next(symex._fresh), I, R)
        return st.new_root(Z(st.env["width"]), z3.Lambda([k], fr(k)), "float64", "fresh", "full_response")

    return Contract(
        target="filters:GaborFilterBank.get_truncated_response", uses=["A-REAL", "A-PYSEM", "A-MATH"],
        consts={"np.pi": PI, "np.float64": Opaque("float64", "dtype")},
        handlers={"np.exp": h_exp, "np.log": h_log, "np.sqrt": h_sqrt, "GaborFilterBank.get_frequency_response": h_full, "self.get_frequency_response": h_full},
        loops={0: LoopSpec(kind="for", invariant=[("array_keeps_its_length", "len(res) == 1 + right_idx - left_idx")]),
               1: LoopSpec(kind="for", invariant=[("array_keeps_its_length", "len(res) == 1 + right_idx - left_idx")])},
        ensures=[("start_bin_in_range", "0 <= result[0] and result[0] < width"),
                 ("one_value_per_bin_of_the_support", "len(result[1]) >= 0")],
    )


def unit_trunc_shape(prop="C06"):
    def unit(tier, known):
        from contracts.registry import run_contract
        from contracts import filters_tri as T

        def setup(ex, st):
            _setup_resp("GaborFilterBank", False)(ex, st)
            from pyvc.api import SeqVal
            wrap = z3.Function("wrap_support_ang", I, R)
            st.fields[("self", "_wrap_supports_ang")] = SeqVal(api.sym("num_filts"), lambda j: wrap(Z(j)))
            st.env.pop("half", None)

        def tc(ob):
            out = []
            for c in T.to_case_frequency(ob):
                b = dict(c["bank"], bank="gabor")
                b.pop("analytic", None)
                out.append(dict(c, bank=b))
            return out
        return run_contract(prop, ("filters", "GaborFilterBank.get_truncated_response"), contract_trunc_shape(), [("", setup)], name="gabor_trunc_shape",
                            fname="GaborFilterBank.get_truncated_response", to_case=tc, replay_module="rtc.c06")
    unit.__name__ = "gabor_trunc_shape"
    return unit


# ComplexGammatoneFilterBank.get_truncated_response: the same two clauses (start bin in [0, width); one value per bin of the support, or the
# whole period), term level: np.arange / the in-place scaling / _H keep the number of bins.
class _Bins:
    def __init__(self, n, term):
        self.n, self.term = n, term

    def sym_len(self):
        return self.n


def contract_gamma_trunc_shape():
    def h_arange(ex, st, args, kwargs, node, ev):
        if len(args) != 2 or set(kwargs) - {"dtype"}:
            raise Outside("np.arange form")
        lo, hi = Z(args[0]), Z(args[1])
        return _Bins(simp(z3.If(hi > lo, hi - lo, 0)), ("arange", lo, hi))

    def h_binop(ex, st, op, a, b, n):
        if isinstance(a, _Bins) and isinstance(op, (ast.Mult, ast.Add, ast.Div)):
            return _Bins(a.n, ("scaled", a.term))
        return NotImplemented

    def h_H(ex, st, o, args, kwargs, node, ev):
        if len(args) != 2 or kwargs or not isinstance(args[0], _Bins):
            raise Outside("_H call form")
        ex.oblige(st, args[1] is st.env["filt_idx"], f"response_of_this_filter.L{node.lineno - ex.fx.lineno}", "trace", node.lineno)
        return _Bins(args[0].n, ("H", args[0].term))

    def h_full(ex, st, o, args, kwargs, node, ev):
        ok = len(args) == 2 and not kwargs and args[0] is st.env["filt_idx"] and args[1] is st.env["width"]
        ex.oblige(st, ok, f"whole_period_is_the_full_response_of_this_filter_and_width.L{node.lineno - ex.fx.lineno}", "trace", node.lineno)
        return _Bins(Z(st.env["width"]), ("full",))

    def shape_ok(ev, res):
        if not (isinstance(res, tuple) and len(res) == 2 and isinstance(res[1], _Bins)):
            return z3.BoolVal(False)
        w = ev.ex.ctx["w"]
        return z3.And(Z(res[0]) >= 0, Z(res[0]) < w, Z(res[1].n) >= 0)

    return Contract(
        target="filters:ComplexGammatoneFilterBank.get_truncated_response", uses=["A-REAL", "A-PYSEM"],
        consts={"np.pi": PI, "np.float64": Opaque("float64", "dtype"), "SHAPE_OK": SpecFn(shape_ok)},
        handlers={"np.arange": h_arange, "binop": h_binop, "ComplexGammatoneFilterBank._H": h_H, "self._H": h_H,
                  "ComplexGammatoneFilterBank.get_frequency_response": h_full, "self.get_frequency_response": h_full},
        ensures=[("start_bin_in_range_one_value_per_bin", "SHAPE_OK(result)")],
    )


def unit_gamma_trunc_shape(prop="C06"):
    def unit(tier, known):
        from contracts.registry import run_contract
        from contracts import filters_tri as T

        def setup(ex, st):
            _setup_resp("ComplexGammatoneFilterBank", False)(ex, st)
            from pyvc.api import SeqVal
            wrap = z3.Function("wrap_support_ang", I, R)
            st.fields[("self", "_wrap_supports_ang")] = SeqVal(api.sym("num_filts"), lambda j: wrap(Z(j)))
            st.env.pop("half", None)

        def tc(ob):
            out = []
            for c in T.to_case_frequency(ob):
                b = dict(c["bank"], bank="gamma")
                b.pop("analytic", None)
                out.append(dict(c, bank=b))
            return out
        return run_contract(prop, ("filters", "ComplexGammatoneFilterBank.get_truncated_response"), contract_gamma_trunc_shape(), [("", setup)],
                            name="gamma_trunc_shape", fname="ComplexGammatoneFilterBank.get_truncated_response", to_case=tc, replay_module="rtc.c06")
    unit.__name__ = "gamma_trunc_shape"
    return unit


# ------------------------------------------------------------------------------------------
# ComplexGammatoneFilterBank.get_frequency_response: the same LENGTH clause (and the shape safety of the vectorised accumulation: the
# bin grid `omega` has exactly dft_size entries, `_H` returns one value per grid point, `res += ...` adds arrays of equal length).
# `_H`'s values are numeric (havoc); `np.arange(n)` is the index ramp of length n; array (+, *, /) scalar keeps the length.
# ------------------------------------------------------------------------------------------
def contract_gamma_resp_length(half):
    c = contract_resp_length("ComplexGammatoneFilterBank", half, 1)

    def h_arange(ex, st, args, kwargs, node, ev):
        if len(args) != 1:
            raise Outside("np.arange with more than a stop")
        n = args[0]
        ev.wd(Z(n) >= 0, "arange_nonneg", node)
        k = z3.Int("k!%d" % next(symex._fresh))
        return st.new_root(n, z3.Lambda([k], z3.ToReal(k)), "float64", "fresh", "arange")

    def h_arr_binop(ex, st, op, a, b, node, ev):
        from pyvc.api import Arr
        if isinstance(a, Arr) and isinstance(b, Arr):
            ev.wd(Z(a.n) == Z(b.n), "same_length", node)
        f = {ast.Mult: lambda x, y: x * y, ast.Sub: lambda x, y: x - y, ast.Add: lambda x, y: x + y, ast.Div: lambda x, y: x / y}.get(type(op))
        if f is None:
            raise Outside("array operator")
        if isinstance(op, ast.Div) and not isinstance(b, Arr):
            ev.wd(to_real(b) != 0, "div0", node)
        return api.elementwise(st, f, a, b, name="tmp")

    def h_H(ex, st, o, args, kwargs, node, ev):
        from pyvc.api import Arr
        if len(args) != 2 or not isinstance(args[0], Arr):
            raise Outside("_H on something other than (grid, filter index)")
        ex.oblige(st, z3.And(Z(args[1]) >= 0, Z(args[1]) < Z(st.fields[("self", "_xis")].n)), f"filter_index_in_range.L{node.lineno - ex.fx.lineno}", "pre", node.lineno)
        return st.new_root(args[0].n, None, "complex128", "fresh", "H_values")   # one (numeric, unspecified) value per grid point

    c.handlers.update({"np.arange": h_arange, "arr_binop": h_arr_binop, "ComplexGammatoneFilterBank._H": h_H, "self._H": h_H})
    c.lazy_products = False
    return c


def unit_gamma_resp_length(prop="C06"):
    def unit(tier, known):
        from contracts.registry import run_contract
        from contracts import filters_tri as T

        def tc(ob):
            out = []
            for c in T.to_case_frequency(ob):
                b = dict(c["bank"], bank="gamma", order=4, max_centered=False)
                b.pop("analytic", None)
                out.append(dict(c, bank=b))
            return out
        u = None
        for half in (False, True):
            r = run_contract(prop, ("filters", "ComplexGammatoneFilterBank.get_frequency_response"), contract_gamma_resp_length(half),
                             [("half" if half else "full", _setup_resp("ComplexGammatoneFilterBank", half))], name="gamma_resp_length",
                             fname="ComplexGammatoneFilterBank.get_frequency_response", to_case=tc, replay_module="rtc.c06")
            if u is None:
                u = r
            else:
                u.obligations += r.obligations
                u.outside += r.outside
                u.assumptions |= r.assumptions
        return u
    unit.__name__ = "gamma_resp_length"
    return unit


# ------------------------------------------------------------------------------------------
# ComplexGammatoneFilterBank.get_impulse_response: exactly `width` samples, every store `res[idx] += h(t)` inside the buffer for every
# number of aliased periods (the time-aliasing sum of C07's "modulo the buffer"); the envelope values `_h` are numeric (havoc).
# ------------------------------------------------------------------------------------------
def unit_gamma_impulse_length(prop="C07"):
    def unit(tier, known):
        from contracts.registry import run_contract

        def setup(ex, st):
            from pyvc.api import SeqVal
            nf, fi, w = api.sym("num_filts"), api.sym("filt_idx"), api.sym("width")
            st.assume(z3.And(nf >= 1, fi >= 0, fi < nf, w >= 1))
            sl, sr = z3.Function("supp_left", I, I), z3.Function("supp_right", I, I)
            k = z3.Int("sk")
            st.assume(z3.ForAll([k], sl(k) <= sr(k)))
            api.mk_obj(st, "self", "ComplexGammatoneFilterBank", {"_supports": SeqVal(nf, lambda j: (sl(Z(j)), sr(Z(j))))})
            st.env.update(filt_idx=fi, width=w)
            ex.ctx = dict(w=w)

        def h_h(ex, st, o, args, kwargs, node, ev):
            if len(args) != 2:
                raise Outside("_h form")
            ex.oblige(st, z3.And(Z(args[1]) >= 0, Z(args[1]) < Z(st.fields[("self", "_supports")].n)), f"filter_index_in_range.L{node.lineno - ex.fx.lineno}", "pre", node.lineno)
            return fresh("h_value", "real")

        c = Contract(
            target="filters:ComplexGammatoneFilterBank.get_impulse_response", uses=["A-REAL", "A-PYSEM"],
            consts={"W": SpecFn(lambda ev: ev.ex.ctx["w"]), "np.complex128": Opaque("complex128", "dtype")},
            handlers={"ComplexGammatoneFilterBank._h": h_h, "self._h": h_h},
            loops={0: LoopSpec(kind="for", invariant=[("buffer_keeps_its_length", "len(res) == W()")]),
                   1: LoopSpec(kind="for", invariant=[("buffer_keeps_its_length", "len(res) == W()")])},
            ensures=[("exactly_width_samples", "len(result) == W()")],
        )

        def tc(ob):
            out = []
            for order in (4, 3, 1):
                for mc in (False, True):
                    for r, nf, lo in ((8000.0, 3, 20.0), (16000.0, 10, 0.0)):
                        sp = dict(bank="gamma", scale={"name": "mel"}, num_filts=nf, low_hz=lo, high_hz=None, rate=r, order=order, max_centered=mc)
                        for kk in sorted({0, nf - 1}):
                            out.append({"bank": sp, "filt": kk, "mult": 1, "plus": 0})
            return out
        return run_contract(prop, ("filters", "ComplexGammatoneFilterBank.get_impulse_response"), c, [("", setup)], name="gamma_impulse_length",
                            fname="ComplexGammatoneFilterBank.get_impulse_response", to_case=tc, replay_module="rtc.c07")
    unit.__name__ = "gamma_impulse_length"
    return unit

"""Sidecar contracts: the small PyTorch ports / wrappers of torch.py (property C14, sentences 2 and 3).

pytorch_preemphasize(sig, coeff)      1-D: y[0] = x[0], y[i] = x[i] - coeff * x[i-1]    - the SAME specification Preemphasize.apply
                                      is proved against (contracts/pre.py), so module and NumPy class agree for every signal
pytorch_dither(sig, coeff)            y[i] = x[i] + coeff * xi[i], xi a fresh standard-normal draw of the signal's shape
                                      (A-RNG: torch.randn_like depends on the generator state and the shape only)
check_positive(name, val, nonnegative)    ValueError exactly when val < 0 or (val == 0 and not nonnegative)
PyTorchDither.__init__(coeff)         accepts every coeff >= 0 (0 included: the identity), rejects coeff < 0, stores coeff
PyTorchPostProcessorWrapper._postprocessor_appy(sig)
                                      exactly one call postprocessor.apply(sig.cpu().numpy()) with the defaults (in_place is NOT set, the
                                      array shares memory with a CPU tensor), result wrapped with the input's device and dtype
PyTorchShortIntegrationFrameComputer._compute_full(sig)   likewise one compute_full(sig.cpu().numpy())
PyTorchShortTimeFourierTransformFrameComputer.from_stft_frame_computer
                                      every constructor parameter receives the computer's attribute of the same meaning, the filters
                                      are (start bin, truncated response) pairs in bank order, and the default filter dtype is complex
                                      (so the imaginary part of complex banks is kept)
"""
import ast
import os

import z3

from pyvc import api, symex, extract
from pyvc.api import I, R, SpecFn, Z, Zb, Arr, Opaque, simp, to_real, Outside
from pyvc.symex import Contract, Obligation, LoopSpec
from pyvc.check import UnitResult

MOD = "torch"

# ------------------------------------------------------------------------------------------ functional ports


def setup_sig(ex, st):
    n = api.sym("n")
    st.assume(n >= 0)
    sig = api.mk_array(st, "sig", n, owner="param:sig")
    st.env.update({"sig": sig, "coeff": api.sym("coeff", "real")})
    st.ghost.update(X=st.heap["sig"].content, N=n)
    ex.ctx = dict(n=n)


def h_new_zeros(ex, st, o, args, kwargs, node, ev):
    (n,) = args
    return st.new_root(n, z3.K(I, z3.RealVal(0)), st.heap[o.root].dtype, "fresh", "zeros")


def h_arr_binop(ex, st, op, a, b, node, ev):
    if isinstance(a, Arr) and isinstance(b, Arr):
        ev.wd(Z(a.n) == Z(b.n), "same_length", node)
    f = {ast.Mult: lambda x, y: x * y, ast.Sub: lambda x, y: x - y, ast.Add: lambda x, y: x + y}.get(type(op))
    if f is None:
        raise Outside("array operator")
    return api.elementwise(st, f, a, b, name="tmp")


def h_randn_like(ex, st, args, kwargs, node, ev):
    (a,) = args
    st.ghost["draws"] = st.ghost.get("draws", 0) + 1
    ex.assumption_ids.add("A-RNG")
    return st.new_root(a.n, z3.Array("NOISE", I, R), st.heap[a.root].dtype, "fresh", "noise")


def contract_preemphasize():
    c = Contract(
        target=f"{MOD}:pytorch_preemphasize", uses=["A-REAL", "A-PYSEM", "A-NP-CAT", "A-NP-SLICE"],
        consts={"RES": SpecFn(lambda ev, r, k: ev.st.select(r, k))},
        handlers={"arr.new_zeros": h_new_zeros, "torch.concatenate": api.symex.LIB["np.concatenate"], "arr_binop": h_arr_binop},
        ensures=[("length", "len(result) == N"),
                 ("first_sample_unchanged", "implies(N >= 1, RES(result, 0) == X[0])"),
                 ("difference_with_the_previous_sample", "forall(i, 1, N, RES(result, i) == X[i] - coeff * X[i - 1])")],
    )
    c.no_param_writes = True
    c.lazy_products = False
    c.canaries = [("difference_with_the_next_sample", "forall(i, 1, N, RES(result, i) == X[i] - coeff * X[i + 1])")]
    return c


def contract_dither():
    c = Contract(
        target=f"{MOD}:pytorch_dither", uses=["A-REAL", "A-PYSEM", "A-RNG"],
        consts={"RES": SpecFn(lambda ev, r, k: ev.st.select(r, k)), "NOISE": SpecFn(lambda ev, k: z3.Select(z3.Array("NOISE", I, R), Z(k))),
                "DRAWS": SpecFn(lambda ev: ev.st.ghost.get("draws", 0))},
        handlers={"torch.randn_like": h_randn_like, "arr_binop": h_arr_binop},
        ensures=[("length", "len(result) == N"),
                 ("signal_plus_coeff_times_one_fresh_draw", "DRAWS() == 1 and forall(i, 0, N, RES(result, i) == X[i] + coeff * NOISE(i))"),
                 ("coeff_zero_is_the_identity", "implies(coeff == 0, forall(i, 0, N, RES(result, i) == X[i]))")],
    )
    c.no_param_writes = True
    c.lazy_products = False
    c.canaries = [("noise_not_scaled", "forall(i, 0, N, RES(result, i) == X[i] + NOISE(i))")]
    return c


# ------------------------------------------------------------------------------------------ check_positive / PyTorchDither.__init__


def setup_check_positive(ex, st):
    st.env.update({"name": Opaque("NAME", "str"), "val": api.sym("val", "real"), "nonnegative": api.sym("nonnegative", "bool")})


def contract_check_positive():
    return Contract(target=f"{MOD}:check_positive", uses=["A-PYSEM"], raises={"ValueError": "val < 0 or (val == 0 and not nonnegative)"},
                    ensures=[("returns_nothing", "result is None")])


def setup_dither_init(ex, st):
    api.mk_obj(st, "self", "PyTorchDither", {})
    st.env["coeff"] = api.sym("coeff", "real")
    st.ghost["checked"] = 0


def h_check_positive(ex, st, args, kwargs, node, ev):
    """callee contract (unit check_positive): raises ValueError iff val < 0 or (val == 0 and not nonnegative)"""
    name, val = args[0], args[1]
    nonneg = args[2] if len(args) > 2 else kwargs.get("nonnegative", False)
    cond = simp(z3.Or(to_real(val) < 0, z3.And(to_real(val) == 0, z3.Not(Zb(nonneg)))))
    st.ghost["checked"] = st.ghost.get("checked", 0) + 1

    def raise_(s):
        raise symex.SymRaise("ValueError")
    if cond is True or (symex.is_z3(cond) and z3.is_true(cond)):
        raise symex.SymRaise("ValueError")
    if not (cond is False or (symex.is_z3(cond) and z3.is_false(cond))):
        # both outcomes possible: the raising outcome is an end of this path with the guard added, the other continues
        s_r = st.copy()
        s_r.pc.append(cond)
        if ex.feasible(s_r):
            ex._end("raise", s_r, "ValueError")
        st.pc.append(z3.Not(cond))
    return None


def h_super(ex, st, args, kwargs, node, ev):
    return Opaque("super", "super")


def contract_dither_init():
    c = Contract(
        target=f"{MOD}:PyTorchDither.__init__", uses=["A-PYSEM"],
        handlers={"check_positive": h_check_positive, "super": h_super, "opaque.__init__": lambda ex, st, o, args, kwargs, node, ev: None},
        raises={"ValueError": "coeff < 0"},
        ensures=[("stores_coeff", "self.coeff == coeff"), ("zero_accepted", "coeff >= 0")],
    )
    return c


# ------------------------------------------------------------------------------------------ wrappers around NumPy code


class TorchTensor:
    def __init__(self, term, device="DEV", dtype="DT"):
        self.term, self.device_, self.dtype_ = term, device, dtype

    def sym_getattr(self, attr, ev, node):
        if attr == "device":
            return DeviceVal(self.device_)
        if attr == "dtype":
            return Opaque(self.dtype_, "dtype")
        if attr == "cpu":
            return symex.PyCallable(lambda ev2, a, k, n2: TorchTensor(("cpu", self.term), "cpu", self.dtype_))
        if attr == "numpy":
            def numpy(ev2, a, k, n2):
                return Opaque(("numpy", self.term), "ndarray")
            return symex.PyCallable(numpy)
        raise Outside(f"tensor attribute .{attr}")


class DeviceVal:
    def __init__(self, name):
        self.name = name

    def sym_getattr(self, attr, ev, node):
        if attr == "type":
            return z3.String("device_type")
        raise Outside("device attribute")


def setup_wrapper(field, cls):
    def _setup(ex, st):
        api.mk_obj(st, "self", cls, {field: api.mk_obj(st, "inner", "Inner", {})})
        st.env["sig"] = TorchTensor("SIG")
        st.ghost.update(calls=[], wrapped=[])
    return _setup


def mk_inner_call(name):
    def h(ex, st, o, args, kwargs, node, ev):
        st.ghost["calls"] = st.ghost["calls"] + [(name, tuple(args), dict(kwargs))]
        return Opaque(("result_of", name), "ndarray")
    return h


def h_torch_tensor(ex, st, args, kwargs, node, ev):
    st.ghost["wrapped"] = st.ghost["wrapped"] + [(tuple(args), dict(kwargs))]
    return Opaque(("tensor", args[0].term if isinstance(args[0], Opaque) else None), "tensor")


def h_warn(ex, st, args, kwargs, node, ev):
    return None


def contract_wrapper(fn, inner_method):
    def calls_ok(ev):
        calls = ev.st.ghost["calls"]
        if len(calls) != 1:
            return False
        name, args, kw = calls[0]
        # the defaults may be spelled out (in_place=False, axis=-1); anything else changes what is computed or aliases the tensor's memory
        kw_ok = all((k == "in_place" and v is False) or (k == "axis" and v == -1) for k, v in kw.items())
        return name == inner_method and len(args) == 1 and isinstance(args[0], Opaque) and args[0].term == ("numpy", ("cpu", "SIG")) and kw_ok

    def wrapped_ok(ev, res):
        w = ev.st.ghost["wrapped"]
        if len(w) != 1 or not isinstance(res, Opaque) or res.term != ("tensor", ("result_of", inner_method)):
            return False
        args, kw = w[0]
        dev, dt = kw.get("device"), kw.get("dtype")
        return len(args) == 1 and isinstance(dev, DeviceVal) and dev.name == "DEV" and isinstance(dt, Opaque) and dt.term == "DT" and set(kw) == {"device", "dtype"}

    return Contract(
        target=f"{MOD}:{fn}", uses=["A-PYSEM", "A-TORCH"],
        consts={"CALLS_OK": SpecFn(calls_ok), "WRAPPED_OK": SpecFn(wrapped_ok)},
        handlers={"Inner." + inner_method: mk_inner_call(inner_method), "torch.tensor": h_torch_tensor, "warnings.warn": h_warn},
        ensures=[("one_call_on_the_cpu_array_with_default_flags", "CALLS_OK()"), ("result_wrapped_with_the_inputs_device_and_dtype", "WRAPPED_OK(result)")],
    )


# ------------------------------------------------------------------------------------------ from_stft_frame_computer (AST-level mapping)

WANT = {  # constructor parameter -> the expression of `computer` it must receive
    "frame_length": "computer.frame_length", "frame_shift": "computer.frame_shift", "frame_style": "computer._frame_style",
    "dft_size": "computer._dft_size", "use_log": "computer._log", "use_power": "computer._power", "include_energy": "computer._include_energy",
    "kaldi_shift": "computer._kaldi_shift", "is_real": "computer._real",
}


def unit_from_stft(prop):
    def unit(tier, known):
        u = UnitResult("from_stft_frame_computer")
        cls = "PyTorchShortTimeFourierTransformFrameComputer"
        try:
            f = extract.get_function(MOD, f"{cls}.from_stft_frame_computer")
            init = extract.get_function(MOD, f"{cls}.__init__")
        except KeyError as e:
            u.outside.append((f"{MOD}:{cls}.from_stft_frame_computer", str(e)))
            return u
        u.functions += [f.describe()]
        params = [a.arg for a in init.node.args.args][1:]
        env = {}
        ret = None
        for s in f.node.body:
            if isinstance(s, ast.Assign) and len(s.targets) == 1 and isinstance(s.targets[0], ast.Name):
                env[s.targets[0].id] = ast.unparse(s.value)
            elif isinstance(s, ast.Return):
                ret = s.value

        def ob(label, ok):
            o = Obligation(f"{prop}.from_stft_frame_computer.{label}", [], z3.BoolVal(bool(ok)), "spec", f.lineno)
            o.verdict, o.backend = ("proved" if ok else "refuted"), "ast-match of the constructor call against __init__'s parameter list"
            u.obligations.append(o)

        ok_call = isinstance(ret, ast.Call) and ast.unparse(ret.func) == "cls" and not ret.keywords and len(ret.args) == len(params)
        ob("constructs_cls_with_one_argument_per_parameter", ok_call)
        if ok_call:
            got = {}
            for p, a in zip(params, ret.args):
                txt = ast.unparse(a)
                got[p] = env.get(txt, txt) if isinstance(a, ast.Name) else txt
            for p, want in WANT.items():
                ob(f"parameter_{p}_receives_{want.replace('.', '_')}", got.get(p) == want)
            flt = " ".join(got.get(params[0], "").split())
            ob("filters_are_start_bin_and_truncated_response_pairs_in_bank_order",
               flt == "[(o, torch.tensor(x, dtype=filter_type)) for o, x in zip(computer._filt_start_idxs, computer._truncated_filts)]")
            ob("window_is_the_computers_window", " ".join(got.get("window", "").split()) == "torch.tensor(computer._window, dtype=window_type)")
        # defaults: complex filters (imaginary parts of complex banks kept), real window
        names = [a.arg for a in f.node.args.args]
        defaults = dict(zip(names[len(names) - len(f.node.args.defaults):], [ast.unparse(d) for d in f.node.args.defaults]))
        ob("default_filter_dtype_is_complex", defaults.get("filter_type") in ("torch.cfloat", "torch.complex64", "torch.cdouble", "torch.complex128"))
        ob("default_window_dtype_is_real", defaults.get("window_type") in ("torch.float", "torch.float32", "torch.double", "torch.float64"))
        u.to_case = to_case
        u.replay_module = "rtc.c14"
        return u
    unit.__name__ = "from_stft_frame_computer"
    return unit


def to_case(ob):
    """the C14 stand-in's own deterministic cases: its sentinels, the pre-emphasis / dither / post-processor / SI wrapper cases and the
    first STFT configurations (complex banks included)"""
    import itertools
    from rtc import c14
    try:
        cases = list(itertools.islice(c14._enumerate("quick", 0), 700))
    except Exception:
        return None
    # wrapper / module cases first for the wrapper obligations, STFT cases first for the factory
    want_stft = "from_stft" in ob.id
    cases.sort(key=lambda c: (("check" in c) == want_stft))
    return cases[:500]


UNITS = {
    "preemphasize": ("pytorch_preemphasize", contract_preemphasize, setup_sig),
    "dither": ("pytorch_dither", contract_dither, setup_sig),
    "check_positive": ("check_positive", contract_check_positive, setup_check_positive),
    "dither_init": ("PyTorchDither.__init__", contract_dither_init, setup_dither_init),
    "post_wrapper": ("PyTorchPostProcessorWrapper._postprocessor_appy", lambda: contract_wrapper("PyTorchPostProcessorWrapper._postprocessor_appy", "apply"),
                     setup_wrapper("postprocessor", "PyTorchPostProcessorWrapper")),
    "si_wrapper": ("PyTorchShortIntegrationFrameComputer._compute_full", lambda: contract_wrapper("PyTorchShortIntegrationFrameComputer._compute_full", "compute_full"),
                   setup_wrapper("si_frame_computer", "PyTorchShortIntegrationFrameComputer")),
}


# ------------------------------------------------------------------------------------------------------------- the from_* converters
# What the command-line tool calls to turn a NumPy pre- / post-processor or computer into its torch module: the module is built from
# exactly the source object's coefficient (Dither, Preemphasize) or from the source object itself (post-processor wrapper, SI computer) -
# nothing else is read or defaulted; and forward() of the two pre-processor modules is the functional with the module's own coefficient.
class _ClsCallable(symex.PyCallable):
    def __init__(self):
        symex.PyCallable.__init__(self, lambda ev, args, kwargs, node: ("constructed", tuple(args), tuple(sorted(kwargs.items()))))


def _conv_setup(arg_name, coeff):
    def setup(ex, st):
        src = api.mk_obj(st, arg_name, "Source", {"coeff": api.sym("source_coeff", "real")} if coeff else {})
        st.env["cls"] = _ClsCallable()
        ex.ctx = dict(src=src, coeff=coeff, arg=arg_name)
    return setup


def _conv_contract(fn, coeff):
    def ok(ev, res):
        c = ev.ex.ctx
        if not (isinstance(res, tuple) and res[0] == "constructed" and len(res[1]) == 1 and res[2] == ()):
            return False
        a = res[1][0]
        if c["coeff"]:
            return symex.is_z3(a) and simp(a == ev.st.fields[(c["arg"], "coeff")]) is True
        return a is c["src"]
    return Contract(target=f"torch:{fn}", uses=["A-PYSEM"], consts={"OK": SpecFn(ok)}, ensures=[("module_built_from_the_source_and_nothing_else", "OK(result)")])


def _fwd_setup(ex, st):
    api.mk_obj(st, "self", "Module", {"coeff": api.sym("module_coeff", "real")})
    st.env["sig"] = Opaque("SIG", "tensor")
    ex.ctx = {}


def _fwd_contract(fn, functional):
    def h(ex, st, args, kwargs, node, ev):
        return ("functional", tuple(args), tuple(sorted(kwargs.items())))

    def ok(ev, res):
        return (isinstance(res, tuple) and res[0] == "functional" and len(res[1]) == 2 and res[1][0] is ev.st.env["sig"] and res[2] == ()
                and symex.is_z3(res[1][1]) and simp(res[1][1] == ev.st.fields[("self", "coeff")]) is True)
    return Contract(target=f"torch:{fn}", uses=["A-PYSEM"], consts={"OK": SpecFn(ok)}, handlers={functional: h},
                    ensures=[("forward_is_the_functional_with_the_modules_coefficient", "OK(result)")])


UNITS.update({
    "from_dither": ("PyTorchDither.from_dither", lambda: _conv_contract("PyTorchDither.from_dither", True), _conv_setup("dither", True)),
    "from_preemphasize": ("PyTorchPreemphasize.from_preemphasize", lambda: _conv_contract("PyTorchPreemphasize.from_preemphasize", True), _conv_setup("preemphasize", True)),
    "from_postprocessor": ("PyTorchPostProcessorWrapper.from_postprocessor", lambda: _conv_contract("PyTorchPostProcessorWrapper.from_postprocessor", False),
                           _conv_setup("postprocessor", False)),
    "from_si": ("PyTorchShortIntegrationFrameComputer.from_si_frame_computer", lambda: _conv_contract("PyTorchShortIntegrationFrameComputer.from_si_frame_computer", False),
                _conv_setup("si_frame_computer", False)),
    "dither_forward": ("PyTorchDither.forward", lambda: _fwd_contract("PyTorchDither.forward", "pytorch_dither"), _fwd_setup),
    "preemph_forward": ("PyTorchPreemphasize.forward", lambda: _fwd_contract("PyTorchPreemphasize.forward", "pytorch_preemphasize"), _fwd_setup),
})


def generate(prop, which):
    from contracts.registry import run_contract
    fn, mk, setup = UNITS[which]
    return run_contract(prop, (MOD, fn), mk(), [("", setup)], name="torch_" + which, fname=fn)


# ------------------------------------------------------------------------------------------ the STFT module: __init__ and forward
# from_stft_frame_computer (above) hands the computer's parameters to the constructor; the functional port (contracts/torch_stft.py) is
# proved against the NumPy specification. The two links in between are under contract here: the constructor stores every argument under
# the attribute forward() reads (and rejects what the functional's precondition excludes), and forward() passes exactly those attributes,
# in the functional's parameter order, with the caller's signal - so module(x) is the functional on the computer's parameters.
STFT_MODULE = "PyTorchShortTimeFourierTransformFrameComputer"
# functional parameter -> module attribute it must receive in forward()
FORWARD_WANT = ["signal", "filters", "offsets", "frame_length", "frame_shift", "centered", "window", "dft_size", "use_log", "use_power",
                "include_energy", "kaldi_shift", "is_real"]


def setup_forward(ex, st):
    fields = {k: Opaque("ATTR_" + k, "attr") for k in FORWARD_WANT[1:]}
    api.mk_obj(st, "self", STFT_MODULE, fields)
    st.env["signal"] = Opaque("SIGNAL", "tensor")
    st.ghost["calls"] = []
    ex.ctx = dict(fields=fields)


def h_functional(ex, st, args, kwargs, node, ev):
    st.ghost["calls"] = st.ghost["calls"] + [(tuple(args), dict(kwargs))]
    return Opaque("FUNCTIONAL_RESULT", "tensor")


def h_list_of_parameters(ex, st, args, kwargs, node, ev):
    # list(self.filters): the ParameterList's entries in order
    if len(args) == 1 and isinstance(args[0], Opaque) and args[0].term == "ATTR_filters":
        return Opaque("LIST_OF_ATTR_filters", "list")
    raise Outside("list() of something other than the module's filters")


def contract_forward():
    def call_ok(ev, res):
        calls = ev.st.ghost["calls"]
        if len(calls) != 1 or not (isinstance(res, Opaque) and res.term == "FUNCTIONAL_RESULT"):
            return False
        args, kw = calls[0]
        names = FORWARD_WANT
        got = dict(zip(names, args))
        for k, v in kw.items():
            if k in got or k not in names:
                return False
            got[k] = v
        if set(got) != set(names) or len(args) > len(names):
            return False
        for k in names:
            v = got[k]
            want = "SIGNAL" if k == "signal" else ("LIST_OF_ATTR_filters" if k == "filters" else "ATTR_" + k)
            if not (isinstance(v, Opaque) and v.term == want):
                return False
        return True

    def unchanged(ev):
        f = ex_fields(ev)
        return all(ev.st.fields.get(("self", k)) is v for k, v in f.items()) and sum(1 for k in ev.st.fields if k[0] == "self") == len(f)

    def ex_fields(ev):
        return ev.ex.ctx["fields"]

    return Contract(
        target=f"{MOD}:{STFT_MODULE}.forward", uses=["A-PYSEM", "A-TORCH"],
        consts={"CALL_OK": SpecFn(call_ok), "UNCHANGED": SpecFn(unchanged)},
        handlers={"pytorch_stft_frame_computer": h_functional, "list": h_list_of_parameters},
        ensures=[("one_call_of_the_functional_on_the_signal_and_the_modules_own_attributes_in_parameter_order", "CALL_OK(result)"),
                 ("module_state_untouched", "UNCHANGED()")],
    )


def unit_stft_module(prop):
    def unit(tier, known):
        from contracts.registry import run_contract
        u = run_contract(prop, (MOD, f"{STFT_MODULE}.forward"), contract_forward(), [("", setup_forward)], name="stft_module", fname=f"{STFT_MODULE}.forward",
                         to_case=to_case_module, replay_module="rtc.c14")
        # the functional's parameter list itself (order and names) - what CALL_OK matches against - is read from the source
        try:
            f = extract.get_function(MOD, "pytorch_stft_frame_computer")
            params = [a.arg for a in f.node.args.args]
            ok = params[:13] == ["sig"] + FORWARD_WANT[1:] and params[13:] == ["eps"]
        except KeyError:
            ok = False
        o = Obligation(f"{prop}.{STFT_MODULE}.forward.functional_parameter_order_is_the_one_matched", [], z3.BoolVal(bool(ok)), "spec", None)
        u.obligations.append(o)
        return u
    unit.__name__ = "stft_module"
    return unit


def to_case_module(ob):
    import itertools
    from rtc import c14
    try:
        cases = list(itertools.islice(c14._enumerate("quick", 0), 700))
    except Exception:
        return None
    cases.sort(key=lambda c: ("check" in c) is False)
    return cases[:500]


# ---- PyTorchShortTimeFourierTransformFrameComputer.__init__ ----------------------------------------------------------------------------
# arguments: a symbolic sequence of n >= 0 (offset, filter) pairs, symbolic integers / flags, a window that is None or has a symbolic shape.
# Proved: ValueError iff some filter is not a vector, some offset is negative, frame_length <= 0, frame_shift <= 0, the frame style is
# unknown, the window's shape is not (frame_length,), or a given dft_size is shorter than the frame; otherwise every argument is stored
# under the attribute forward() reads - offsets and filters as the argument's columns IN ORDER (one entry per pair), centered iff the style
# is "centered", the default DFT size 2 ** ceil(log2(frame_length)) - and nothing is stored before the checks.
OFFS = z3.Function("arg_offset", z3.IntSort(), z3.IntSort())
NDIM = z3.Function("arg_filter_ndim", z3.IntSort(), z3.IntSort())


class FilterVal:
    """the filter tensor of pair k of the constructor's argument"""

    def __init__(self, k):
        self.k = k

    def sym_getattr(self, attr, ev, node):
        if attr == "ndim":
            return NDIM(Z(self.k))
        raise Outside(f"filter attribute .{attr}")


class WindowVal:
    def __init__(self):
        self.len0 = z3.Int("window_len")
        self.rank1 = z3.Bool("window_is_a_vector")

    def sym_getattr(self, attr, ev, node):
        if attr == "shape":
            return ShapeVal(self)
        raise Outside(f"window attribute .{attr}")


class ShapeVal:
    def __init__(self, w):
        self.w = w

    def sym_compare(self, op, other, ev, node):
        if isinstance(other, tuple) and len(other) == 1 and isinstance(op, (ast.NotEq, ast.Eq)):
            same = z3.And(self.w.rank1, self.w.len0 == Z(other[0]))
            return z3.Not(same) if isinstance(op, ast.NotEq) else same
        raise Outside("window shape compared with something other than a 1-tuple")


def setup_module_init(window_given, dft_given):
    def setup(ex, st):
        n = api.sym("npairs")
        st.assume(n >= 0)
        api.mk_obj(st, "self", STFT_MODULE, {})
        seq = api.SeqVal(n, lambda j: (OFFS(Z(j)), FilterVal(Z(j))))
        win = WindowVal() if window_given else None
        st.env.update({"offsets_and_truncated_filters": seq, "frame_length": api.sym("frame_length"), "frame_shift": api.sym("frame_shift"),
                       "frame_style": api.sym("frame_style", "str"), "window": win, "dft_size": api.sym("dft_size") if dft_given else None,
                       "use_log": api.sym("use_log", "bool"), "use_power": api.sym("use_power", "bool"), "include_energy": api.sym("include_energy", "bool"),
                       "kaldi_shift": api.sym("kaldi_shift", "bool"), "is_real": api.sym("is_real", "bool")})
        st.ghost.update(app_offsets=0, app_filters=0, checked=0, super_init=0, registered=[])
        ex.ctx = dict(n=n, win=win, seq=seq, dft_given=dft_given, window_given=window_given)
    return setup


class GhostList:
    """the list `offsets` / `filters` while it is being collected: its CONTENT lives in ghost state (entry k is pinned down by the
    obligations of the k-th append); any use other than append / the two final conversions leaves the subset (a concrete Python list
    here would make `len(filters)` evaluate to 0)"""

    def __init__(self, name):
        self.name = name

    def sym_getattr(self, attr, ev, node):
        if attr == "append":
            return symex.PyCallable(lambda ev2, a, k, n2: _ghost_append(ev2.ex, ev2.st, self, a[0], n2))
        raise Outside(f"list method .{attr} on a collected list")


def _ghost_append(ex, st, lst, v, node):
    lbl = f"L{node.lineno - ex.fx.lineno}"
    name = lst.name
    if "__zi" not in st.env:
        raise Outside("append outside the collecting loop")
    i = Z(st.env["__zi"])
    ex.oblige(st, Z(st.ghost["app_" + name]) == i, f"{name}.one_entry_per_pair_in_order.{lbl}", "spec", node.lineno)
    st.ghost["app_" + name] = simp(i + 1)
    if name == "offsets":
        ex.oblige(st, (Z(v) == OFFS(i)) if symex.is_z3(v) or isinstance(v, int) else z3.BoolVal(False), f"offsets.entry_is_the_pairs_offset.{lbl}", "spec", node.lineno)
    else:
        ok = isinstance(v, FilterVal)
        ex.oblige(st, (Z(v.k) == i) if ok else z3.BoolVal(False), f"filters.entry_is_the_pairs_filter.{lbl}", "spec", node.lineno)
    return None


def _to_ghost(name):
    def conv(st, v):
        if isinstance(v, list) and not v:
            return GhostList(name)
        raise Outside(f"{name} is not an empty list at the head of the collecting loop")
    return conv


def h_check_in(ex, st, args, kwargs, node, ev):
    """callee (3 lines, torch.check_in): raises ValueError iff val not in the set"""
    name, val, choices = args
    if not isinstance(choices, frozenset):
        raise Outside("check_in with a non-literal set")
    cond = simp(z3.Not(z3.Or(*[val == z3.StringVal(c) for c in sorted(choices)])))
    s_r = st.copy()
    s_r.pc.append(cond)
    if ex.feasible(s_r):
        ex._end("raise", s_r, "ValueError")
    st.pc.append(z3.Not(cond))
    return None


def h_init_compare(ex, st, op, a, b, node, ev):
    if isinstance(a, ShapeVal):
        return a.sym_compare(op, b, ev, node)
    return NotImplemented


POW2CEIL = z3.Function("pow2_ceil_log2", z3.IntSort(), z3.IntSort())  # 2 ** ceil(log2(x)), x >= 1


def h_math_log(ex, st, args, kwargs, node, ev):
    if len(args) == 2 and args[1] == 2:
        return ("log2", args[0])
    raise Outside("math.log in another base")


def h_math_ceil(ex, st, args, kwargs, node, ev):
    (a,) = args
    if isinstance(a, tuple) and a and a[0] == "log2":
        return ("ceil_log2", a[1])
    raise Outside("math.ceil of something other than log2")


def h_init_binop(ex, st, op, a, b, node):
    if isinstance(op, ast.Pow) and a == 2 and isinstance(b, tuple) and b and b[0] == "ceil_log2":
        ex.oblige(st, Z(b[1]) >= 1, f"log_of_positive.L{node.lineno - ex.fx.lineno}", "wd", node.lineno)
        ex.assumption_ids.add("A-MATH")
        return POW2CEIL(Z(b[1]))
    return NotImplemented


def h_tuple_of_offsets(ex, st, args, kwargs, node, ev):
    # tuple(offsets): the collected list (its entries are pinned down, one by one and in order, by the append obligations)
    if len(args) == 1 and isinstance(args[0], GhostList) and args[0].name == "offsets":
        return Opaque(("tuple_of", "offsets"), "tuple")
    raise Outside("tuple() of something other than the collected offsets")


def h_parameter_list(ex, st, args, kwargs, node, ev):
    (lst,) = args
    if not (isinstance(lst, GhostList) and lst.name == "filters"):
        raise Outside("ParameterList of something other than the collected filters")
    return Opaque(("ParameterList", "filters", st.ghost["app_filters"]), "plist")


def h_parameter(ex, st, args, kwargs, node, ev):
    (w,) = args
    return Opaque(("Parameter", id(w)), "param") if not isinstance(w, WindowVal) else ParamOf(w)


class ParamOf:
    def __init__(self, w):
        self.w = w


def h_register(ex, st, o, args, kwargs, node, ev):
    st.ghost["registered"] = st.ghost["registered"] + [tuple(args)]
    if len(args) == 2 and args[0] == "window" and args[1] is None:
        st.fields[("self", "window")] = None
    return None


def h_super_init(ex, st, o, args, kwargs, node, ev):
    st.ghost["super_init"] = st.ghost["super_init"] + 1
    return None


def contract_module_init(window_given, dft_given):
    def bad_pair(ev):
        k = z3.Int("bad_k")
        n = ev.ex.ctx["n"]
        return z3.Exists([k], z3.And(k >= 0, k < n, z3.Or(NDIM(k) != 1, OFFS(k) < 0)))

    def stored(ev):
        f = ev.st.fields
        e = ev.ex.entry.env
        n = ev.ex.ctx["n"]
        g = lambda k: f.get(("self", k))
        conj = []

        def same(k, v):
            a = g(k)
            if a is None and v is not None:
                return z3.BoolVal(False)
            if isinstance(v, (z3.ExprRef,)):
                return (Zb(a) == v) if z3.is_bool(v) else (Z(a) == v)
            return z3.BoolVal(a is v)
        for k in ("frame_length", "frame_shift", "use_log", "use_power", "include_energy", "kaldi_shift", "is_real"):
            conj.append(same(k, e[k]))
        conj.append(Zb(g("centered")) == (e["frame_style"] == z3.StringVal("centered")) if g("centered") is not None else z3.BoolVal(False))
        if ev.ex.ctx["dft_given"]:
            conj.append(same("dft_size", e["dft_size"]))
        else:
            conj.append(Z(g("dft_size")) == POW2CEIL(e["frame_length"]) if g("dft_size") is not None else z3.BoolVal(False))
        offs = g("offsets")
        kk = z3.Int("st_k")
        if isinstance(offs, api.SeqVal):
            conj.append(z3.And(Z(offs.n) == n, z3.ForAll([kk], z3.Implies(z3.And(kk >= 0, kk < n), Z(offs.getter(kk)) == OFFS(kk)))))
        else:
            conj.append(z3.BoolVal(isinstance(offs, Opaque) and offs.term == ("tuple_of", "offsets")) if offs is not None else z3.BoolVal(False))
            conj.append(Z(ev.st.ghost["app_offsets"]) == n)
        fl = g("filters")
        conj.append(z3.BoolVal(isinstance(fl, Opaque) and isinstance(fl.term, tuple) and fl.term[:2] == ("ParameterList", "filters")))
        conj.append(Z(ev.st.ghost["app_filters"]) == n)
        w = g("window")
        if ev.ex.ctx["window_given"]:
            conj.append(z3.BoolVal(isinstance(w, ParamOf) and w.w is ev.ex.ctx["win"]))
        else:
            conj.append(z3.BoolVal(w is None and ("window", None) in ev.st.ghost["registered"]))
        conj.append(z3.BoolVal(ev.st.ghost["super_init"] == 1))
        if os.environ.get("VERIF_DEBUG_STORED"):
            print("STORED conjuncts:", [str(c)[:80] for c in conj])
        return z3.And(*conj)

    conds = ["BAD_PAIR()", "frame_length <= 0", "frame_shift <= 0", "not (frame_style == 'causal' or frame_style == 'centered')"]
    if window_given:
        conds.append("WINDOW_SHAPE_WRONG()")
    if dft_given:
        conds.append("dft_size < frame_length")
    c = Contract(
        target=f"{MOD}:{STFT_MODULE}.__init__", uses=["A-PYSEM", "A-TORCH", "A-MATH"],
        consts={"BAD_PAIR": SpecFn(bad_pair), "STORED": SpecFn(stored),
                "WINDOW_SHAPE_WRONG": SpecFn(lambda ev: z3.Not(z3.And(ev.ex.ctx["win"].rank1, ev.ex.ctx["win"].len0 == Z(ev.ex.entry.env["frame_length"])))),
                "ISLIST": SpecFn(lambda ev, a: isinstance(a, GhostList)),
                "SO_FAR": SpecFn(lambda ev: z3.And(Z(ev.st.ghost["app_offsets"]) == Z(ev.st.env["__zi"]), Z(ev.st.ghost["app_filters"]) == Z(ev.st.env["__zi"]))),
                "GOOD_BEFORE": SpecFn(lambda ev: (lambda k: z3.ForAll([k], z3.Implies(z3.And(k >= 0, k < Z(ev.st.env["__zi"])), z3.And(NDIM(k) == 1, OFFS(k) >= 0))))(z3.Int("gb_k")))},
        handlers={"check_positive": h_check_positive, "check_in": h_check_in, "super": h_super, "opaque.__init__": h_super_init,
                  "tuple": h_tuple_of_offsets, "compare": h_init_compare, "math.log": h_math_log, "math.ceil": h_math_ceil, "binop": h_init_binop,
                  "torch.nn.ParameterList": h_parameter_list, "torch.nn.Parameter": h_parameter, "self.register_parameter": h_register},
        loops={0: LoopSpec(kind="for", modifies_ghost=["app_offsets", "app_filters", "checked"], convert={"offsets": _to_ghost("offsets"), "filters": _to_ghost("filters")}, invariant=[
            ("range", "0 <= __zi <= len(offsets_and_truncated_filters)"), ("lists", "ISLIST(offsets) and ISLIST(filters)"),
            ("one_entry_per_pair_so_far", "SO_FAR()"), ("pairs_so_far_are_acceptable", "GOOD_BEFORE()")])},
        raises={"ValueError": " or ".join(f"({c})" for c in conds)},
        ensures=[("every_argument_stored_under_the_attribute_forward_reads", "STORED()")],
    )
    return c


def generate_module_init(prop, wg, dg):
    from contracts.registry import run_contract
    return run_contract(prop, (MOD, f"{STFT_MODULE}.__init__"), contract_module_init(wg, dg),
                        [(("window" if wg else "no_window") + "|" + ("dft_given" if dg else "dft_default"), setup_module_init(wg, dg))],
                        name="stft_module_init", fname=f"{STFT_MODULE}.__init__")


def unit_stft_module_init(prop):
    def unit(tier, known):
        from contracts.registry import run_parallel
        jobs = [("contracts.torch_wrappers", "generate_module_init", (prop, wg, dg)) for wg in (False, True) for dg in (False, True)]
        return run_parallel("stft_module_init", jobs, to_case=to_case_module, replay_module="rtc.c14")
    unit.__name__ = "stft_module_init"
    return unit

"""Sidecar contracts: the small PyTorch ports / wrappers of torch.py (property C14, sentences 2 and 3).

pytorch_preemphasize(sig, coeff)      1-D: y[0] = x[0], y[i] = x[i] - coeff * x[i-1]    - the SAME specification Preemphasize.apply
                                      is proved against (contracts/pre.py), so module and NumPy class agree for every signal
pytorch_dither(sig, coeff)            y[i] = x[i] + coeff * xi[i], xi a fresh standard-normal draw of the signal's shape
                                      (A-RNG: torch.randn_like depends on the generator state and the shape only)
check_positive(name, val, nonnegative)    ValueError exactly when val < 0 or (val == 0 and not nonnegative)
PyTorchDither.__init__(coeff)         accepts every coeff >= 0 (0 included: the identity), rejects coeff < 0, stores coeff
PyTorchPostProcessorWrapper._postprocessor_appy(sig)
                                      exactly one call postprocessor.apply(sig.cpu().numpy()) with the defaults (in_place is NOT set, the
                                      array shares memory with a CPU tensor), result wrapped with the input's device and dtype
PyTorchShortIntegrationFrameComputer._compute_full(sig)   likewise one compute_full(sig.cpu().numpy())
PyTorchShortTimeFourierTransformFrameComputer.from_stft_frame_computer
                                      every constructor parameter receives the computer's attribute of the same meaning, the filters
                                      are (start bin, truncated response) pairs in bank order, and the default filter dtype is complex
                                      (so the imaginary part of complex banks is kept)
"""
import ast

import z3

from pyvc import api, symex, extract
from pyvc.api import I, R, SpecFn, Z, Zb, Arr, Opaque, simp, to_real, Outside
from pyvc.symex import Contract, Obligation
from pyvc.check import UnitResult

MOD = "torch"

# ------------------------------------------------------------------------------------------ functional ports


def setup_sig(ex, st):
    n = api.sym("n")
    st.assume(n >= 0)
    sig = api.mk_array(st, "sig", n, owner="param:sig")
    st.env.update({"sig": sig, "coeff": api.sym("coeff", "real")})
    st.ghost.update(X=st.heap["sig"].content, N=n)
    ex.ctx = dict(n=n)


def h_new_zeros(ex, st, o, args, kwargs, node, ev):
    (n,) = args
    return st.new_root(n, z3.K(I, z3.RealVal(0)), st.heap[o.root].dtype, "fresh", "zeros")


def h_arr_binop(ex, st, op, a, b, node, ev):
    if isinstance(a, Arr) and isinstance(b, Arr):
        ev.wd(Z(a.n) == Z(b.n), "same_length", node)
    f = {ast.Mult: lambda x, y: x * y, ast.Sub: lambda x, y: x - y, ast.Add: lambda x, y: x + y}.get(type(op))
    if f is None:
        raise Outside("array operator")
    return api.elementwise(st, f, a, b, name="tmp")


def h_randn_like(ex, st, args, kwargs, node, ev):
    (a,) = args
    st.ghost["draws"] = st.ghost.get("draws", 0) + 1
    ex.assumption_ids.add("A-RNG")
    return st.new_root(a.n, z3.Array("NOISE", I, R), st.heap[a.root].dtype, "fresh", "noise")


def contract_preemphasize():
    c = Contract(
        target=f"{MOD}:pytorch_preemphasize", uses=["A-REAL", "A-PYSEM", "A-NP-CAT", "A-NP-SLICE"],
        consts={"RES": SpecFn(lambda ev, r, k: ev.st.select(r, k))},
        handlers={"arr.new_zeros": h_new_zeros, "torch.concatenate": api.symex.LIB["np.concatenate"], "arr_binop": h_arr_binop},
        ensures=[("length", "len(result) == N"),
                 ("first_sample_unchanged", "implies(N >= 1, RES(result, 0) == X[0])"),
                 ("difference_with_the_previous_sample", "forall(i, 1, N, RES(result, i) == X[i] - coeff * X[i - 1])")],
    )
    c.no_param_writes = True
    c.lazy_products = False
    c.canaries = [("difference_with_the_next_sample", "forall(i, 1, N, RES(result, i) == X[i] - coeff * X[i + 1])")]
    return c


def contract_dither():
    c = Contract(
        target=f"{MOD}:pytorch_dither", uses=["A-REAL", "A-PYSEM", "A-RNG"],
        consts={"RES": SpecFn(lambda ev, r, k: ev.st.select(r, k)), "NOISE": SpecFn(lambda ev, k: z3.Select(z3.Array("NOISE", I, R), Z(k))),
                "DRAWS": SpecFn(lambda ev: ev.st.ghost.get("draws", 0))},
        handlers={"torch.randn_like": h_randn_like, "arr_binop": h_arr_binop},
        ensures=[("length", "len(result) == N"),
                 ("signal_plus_coeff_times_one_fresh_draw", "DRAWS() == 1 and forall(i, 0, N, RES(result, i) == X[i] + coeff * NOISE(i))"),
                 ("coeff_zero_is_the_identity", "implies(coeff == 0, forall(i, 0, N, RES(result, i) == X[i]))")],
    )
    c.no_param_writes = True
    c.lazy_products = False
    c.canaries = [("noise_not_scaled", "forall(i, 0, N, RES(result, i) == X[i] + NOISE(i))")]
    return c


# ------------------------------------------------------------------------------------------ check_positive / PyTorchDither.__init__


def setup_check_positive(ex, st):
    st.env.update({"name": Opaque("NAME", "str"), "val": api.sym("val", "real"), "nonnegative": api.sym("nonnegative", "bool")})


def contract_check_positive():
    return Contract(target=f"{MOD}:check_positive", uses=["A-PYSEM"], raises={"ValueError": "val < 0 or (val == 0 and not nonnegative)"},
                    ensures=[("returns_nothing", "result is None")])


def setup_dither_init(ex, st):
    api.mk_obj(st, "self", "PyTorchDither", {})
    st.env["coeff"] = api.sym("coeff", "real")
    st.ghost["checked"] = 0


def h_check_positive(ex, st, args, kwargs, node, ev):
    """callee contract (unit check_positive): raises ValueError iff val < 0 or (val == 0 and not nonnegative)"""
    name, val = args[0], args[1]
    nonneg = args[2] if len(args) > 2 else kwargs.get("nonnegative", False)
    cond = simp(z3.Or(to_real(val) < 0, z3.And(to_real(val) == 0, z3.Not(Zb(nonneg)))))
    st.ghost["checked"] = st.ghost.get("checked", 0) + 1

    def raise_(s):
        raise symex.SymRaise("ValueError")
    if cond is True or (symex.is_z3(cond) and z3.is_true(cond)):
        raise symex.SymRaise("ValueError")
    if not (cond is False or (symex.is_z3(cond) and z3.is_false(cond))):
        # both outcomes possible: the raising outcome is an end of this path with the guard added, the other continues
        s_r = st.copy()
        s_r.pc.append(cond)
        if ex.feasible(s_r):
            ex._end("raise", s_r, "ValueError")
        st.pc.append(z3.Not(cond))
    return None


def h_super(ex, st, args, kwargs, node, ev):
    return Opaque("super", "super")


def contract_dither_init():
    c = Contract(
        target=f"{MOD}:PyTorchDither.__init__", uses=["A-PYSEM"],
        handlers={"check_positive": h_check_positive, "super": h_super, "opaque.__init__": lambda ex, st, o, args, kwargs, node, ev: None},
        raises={"ValueError": "coeff < 0"},
        ensures=[("stores_coeff", "self.coeff == coeff"), ("zero_accepted", "coeff >= 0")],
    )
    return c


# ------------------------------------------------------------------------------------------ wrappers around NumPy code


class TorchTensor:
    def __init__(self, term, device="DEV", dtype="DT"):
        self.term, self.device_, self.dtype_ = term, device, dtype

    def sym_getattr(self, attr, ev, node):
        if attr == "device":
            return DeviceVal(self.device_)
        if attr == "dtype":
            return Opaque(self.dtype_, "dtype")
        if attr == "cpu":
            return symex.PyCallable(lambda ev2, a, k, n2: TorchTensor(("cpu", self.term), "cpu", self.dtype_))
        if attr == "numpy":
            def numpy(ev2, a, k, n2):
                return Opaque(("numpy", self.term), "ndarray")
            return symex.PyCallable(numpy)
        raise Outside(f"tensor attribute .{attr}")


class DeviceVal:
    def __init__(self, name):
        self.name = name

    def sym_getattr(self, attr, ev, node):
        if attr == "type":
            return z3.String("device_type")
        raise Outside("device attribute")


def setup_wrapper(field, cls):
    def _setup(ex, st):
        api.mk_obj(st, "self", cls, {field: api.mk_obj(st, "inner", "Inner", {})})
        st.env["sig"] = TorchTensor("SIG")
        st.ghost.update(calls=[], wrapped=[])
    return _setup


def mk_inner_call(name):
    def h(ex, st, o, args, kwargs, node, ev):
        st.ghost["calls"] = st.ghost["calls"] + [(name, tuple(args), dict(kwargs))]
        return Opaque(("result_of", name), "ndarray")
    return h


def h_torch_tensor(ex, st, args, kwargs, node, ev):
    st.ghost["wrapped"] = st.ghost["wrapped"] + [(tuple(args), dict(kwargs))]
    return Opaque(("tensor", args[0].term if isinstance(args[0], Opaque) else None), "tensor")


def h_warn(ex, st, args, kwargs, node, ev):
    return None


def contract_wrapper(fn, inner_method):
    def calls_ok(ev):
        calls = ev.st.ghost["calls"]
        if len(calls) != 1:
            return False
        name, args, kw = calls[0]
        # the defaults may be spelled out (in_place=False, axis=-1); anything else changes what is computed or aliases the tensor's memory
        kw_ok = all((k == "in_place" and v is False) or (k == "axis" and v == -1) for k, v in kw.items())
        return name == inner_method and len(args) == 1 and isinstance(args[0], Opaque) and args[0].term == ("numpy", ("cpu", "SIG")) and kw_ok

    def wrapped_ok(ev, res):
        w = ev.st.ghost["wrapped"]
        if len(w) != 1 or not isinstance(res, Opaque) or res.term != ("tensor", ("result_of", inner_method)):
            return False
        args, kw = w[0]
        dev, dt = kw.get("device"), kw.get("dtype")
        return len(args) == 1 and isinstance(dev, DeviceVal) and dev.name == "DEV" and isinstance(dt, Opaque) and dt.term == "DT" and set(kw) == {"device", "dtype"}

    return Contract(
        target=f"{MOD}:{fn}", uses=["A-PYSEM", "A-TORCH"],
        consts={"CALLS_OK": SpecFn(calls_ok), "WRAPPED_OK": SpecFn(wrapped_ok)},
        handlers={"Inner." + inner_method: mk_inner_call(inner_method), "torch.tensor": h_torch_tensor, "warnings.warn": h_warn},
        ensures=[("one_call_on_the_cpu_array_with_default_flags", "CALLS_OK()"), ("result_wrapped_with_the_inputs_device_and_dtype", "WRAPPED_OK(result)")],
    )


# ------------------------------------------------------------------------------------------ from_stft_frame_computer (AST-level mapping)

WANT = {  # constructor parameter -> the expression of `computer` it must receive
    "frame_length": "computer.frame_length", "frame_shift": "computer.frame_shift", "frame_style": "computer._frame_style",
    "dft_size": "computer._dft_size", "use_log": "computer._log", "use_power": "computer._power", "include_energy": "computer._include_energy",
    "kaldi_shift": "computer._kaldi_shift", "is_real": "computer._real",
}


def unit_from_stft(prop):
    def unit(tier, known):
        u = UnitResult("from_stft_frame_computer")
        cls = "PyTorchShortTimeFourierTransformFrameComputer"
        try:
            f = extract.get_function(MOD, f"{cls}.from_stft_frame_computer")
            init = extract.get_function(MOD, f"{cls}.__init__")
        except KeyError as e:
            u.outside.append((f"{MOD}:{cls}.from_stft_frame_computer", str(e)))
            return u
        u.functions += [f.describe()]
        params = [a.arg for a in init.node.args.args][1:]
        env = {}
        ret = None
        for s in f.node.body:
            if isinstance(s, ast.Assign) and len(s.targets) == 1 and isinstance(s.targets[0], ast.Name):
                env[s.targets[0].id] = ast.unparse(s.value)
            elif isinstance(s, ast.Return):
                ret = s.value

        def ob(label, ok):
            o = Obligation(f"{prop}.from_stft_frame_computer.{label}", [], z3.BoolVal(bool(ok)), "spec", f.lineno)
            o.verdict, o.backend = ("proved" if ok else "refuted"), "ast-match of the constructor call against __init__'s parameter list"
            u.obligations.append(o)

        ok_call = isinstance(ret, ast.Call) and ast.unparse(ret.func) == "cls" and not ret.keywords and len(ret.args) == len(params)
        ob("constructs_cls_with_one_argument_per_parameter", ok_call)
        if ok_call:
            got = {}
            for p, a in zip(params, ret.args):
                txt = ast.unparse(a)
                got[p] = env.get(txt, txt) if isinstance(a, ast.Name) else txt
            for p, want in WANT.items():
                ob(f"parameter_{p}_receives_{want.replace('.', '_')}", got.get(p) == want)
            flt = " ".join(got.get(params[0], "").split())
            ob("filters_are_start_bin_and_truncated_response_pairs_in_bank_order",
               flt == "[(o, torch.tensor(x, dtype=filter_type)) for o, x in zip(computer._filt_start_idxs, computer._truncated_filts)]")
            ob("window_is_the_computers_window", " ".join(got.get("window", "").split()) == "torch.tensor(computer._window, dtype=window_type)")
        # defaults: complex filters (imaginary parts of complex banks kept), real window
        names = [a.arg for a in f.node.args.args]
        defaults = dict(zip(names[len(names) - len(f.node.args.defaults):], [ast.unparse(d) for d in f.node.args.defaults]))
        ob("default_filter_dtype_is_complex", defaults.get("filter_type") in ("torch.cfloat", "torch.complex64", "torch.cdouble", "torch.complex128"))
        ob("default_window_dtype_is_real", defaults.get("window_type") in ("torch.float", "torch.float32", "torch.double", "torch.float64"))
        u.to_case = to_case
        u.replay_module = "rtc.c14"
        return u
    unit.__name__ = "from_stft_frame_computer"
    return unit


def to_case(ob):
    """the C14 stand-in's own deterministic cases: its sentinels, the pre-emphasis / dither / post-processor / SI wrapper cases and the
    first STFT configurations (complex banks included)"""
    import itertools
    from rtc import c14
    try:
        cases = list(itertools.islice(c14._enumerate("quick", 0), 700))
    except Exception:
        return None
    # wrapper / module cases first for the wrapper obligations, STFT cases first for the factory
    want_stft = "from_stft" in ob.id
    cases.sort(key=lambda c: (("check" in c) == want_stft))
    return cases[:500]


UNITS = {
    "preemphasize": ("pytorch_preemphasize", contract_preemphasize, setup_sig),
    "dither": ("pytorch_dither", contract_dither, setup_sig),
    "check_positive": ("check_positive", contract_check_positive, setup_check_positive),
    "dither_init": ("PyTorchDither.__init__", contract_dither_init, setup_dither_init),
    "post_wrapper": ("PyTorchPostProcessorWrapper._postprocessor_appy", lambda: contract_wrapper("PyTorchPostProcessorWrapper._postprocessor_appy", "apply"),
                     setup_wrapper("postprocessor", "PyTorchPostProcessorWrapper")),
    "si_wrapper": ("PyTorchShortIntegrationFrameComputer._compute_full", lambda: contract_wrapper("PyTorchShortIntegrationFrameComputer._compute_full", "compute_full"),
                   setup_wrapper("si_frame_computer", "PyTorchShortIntegrationFrameComputer")),
}


# ------------------------------------------------------------------------------------------------------------- the from_* converters
# What the command-line tool calls to turn a NumPy pre- / post-processor or computer into its torch module: the module is built from
# exactly the source object's coefficient (Dither, Preemphasize) or from the source object itself (post-processor wrapper, SI computer) -
# nothing else is read or defaulted; and forward() of the two pre-processor modules is the functional with the module's own coefficient.
class _ClsCallable(symex.PyCallable):
    def __init__(self):
        symex.PyCallable.__init__(self, lambda ev, args, kwargs, node: ("constructed", tuple(args), tuple(sorted(kwargs.items()))))


def _conv_setup(arg_name, coeff):
    def setup(ex, st):
        src = api.mk_obj(st, arg_name, "Source", {"coeff": api.sym("source_coeff", "real")} if coeff else {})
        st.env["cls"] = _ClsCallable()
        ex.ctx = dict(src=src, coeff=coeff, arg=arg_name)
    return setup


def _conv_contract(fn, coeff):
    def ok(ev, res):
        c = ev.ex.ctx
        if not (isinstance(res, tuple) and res[0] == "constructed" and len(res[1]) == 1 and res[2] == ()):
            return False
        a = res[1][0]
        if c["coeff"]:
            return symex.is_z3(a) and simp(a == ev.st.fields[(c["arg"], "coeff")]) is True
        return a is c["src"]
    return Contract(target=f"torch:{fn}", uses=["A-PYSEM"], consts={"OK": SpecFn(ok)}, ensures=[("module_built_from_the_source_and_nothing_else", "OK(result)")])


def _fwd_setup(ex, st):
    api.mk_obj(st, "self", "Module", {"coeff": api.sym("module_coeff", "real")})
    st.env["sig"] = Opaque("SIG", "tensor")
    ex.ctx = {}


def _fwd_contract(fn, functional):
    def h(ex, st, args, kwargs, node, ev):
        return ("functional", tuple(args), tuple(sorted(kwargs.items())))

    def ok(ev, res):
        return (isinstance(res, tuple) and res[0] == "functional" and len(res[1]) == 2 and res[1][0] is ev.st.env["sig"] and res[2] == ()
                and symex.is_z3(res[1][1]) and simp(res[1][1] == ev.st.fields[("self", "coeff")]) is True)
    return Contract(target=f"torch:{fn}", uses=["A-PYSEM"], consts={"OK": SpecFn(ok)}, handlers={functional: h},
                    ensures=[("forward_is_the_functional_with_the_modules_coefficient", "OK(result)")])


UNITS.update({
    "from_dither": ("PyTorchDither.from_dither", lambda: _conv_contract("PyTorchDither.from_dither", True), _conv_setup("dither", True)),
    "from_preemphasize": ("PyTorchPreemphasize.from_preemphasize", lambda: _conv_contract("PyTorchPreemphasize.from_preemphasize", True), _conv_setup("preemphasize", True)),
    "from_postprocessor": ("PyTorchPostProcessorWrapper.from_postprocessor", lambda: _conv_contract("PyTorchPostProcessorWrapper.from_postprocessor", False),
                           _conv_setup("postprocessor", False)),
    "from_si": ("PyTorchShortIntegrationFrameComputer.from_si_frame_computer", lambda: _conv_contract("PyTorchShortIntegrationFrameComputer.from_si_frame_computer", False),
                _conv_setup("si_frame_computer", False)),
    "dither_forward": ("PyTorchDither.forward", lambda: _fwd_contract("PyTorchDither.forward", "pytorch_dither"), _fwd_setup),
    "preemph_forward": ("PyTorchPreemphasize.forward", lambda: _fwd_contract("PyTorchPreemphasize.forward", "pytorch_preemphasize"), _fwd_setup),
})


def generate(prop, which):
    from contracts.registry import run_contract
    fn, mk, setup = UNITS[which]
    return run_contract(prop, (MOD, fn), mk(), [("", setup)], name="torch_" + which, fname=fn)

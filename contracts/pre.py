"""Sidecar contracts: pre.py Preemphasize.apply and Dither.apply on 1-D signals with the default axis (property C18).

Floats are reals (A-REAL): casting to float64 and back is the identity on values; what the contract tracks about dtypes is the
TAG (result dtype == input dtype) and which array object each operation reads and writes (aliasing):
  Preemphasize   y[0] = x[0],  y[i] = x[i] - coeff * x[i-1]  with the OLD x[i-1]  (A-NP-SLICE: the right-hand side of `-=` is
                 evaluated into a temporary before the store), the input is stored into only if in_place and it is float64
  Dither         y[i] = x[i] + coeff * xi[i]  where xi is a fresh array drawn from the global RNG (A-RNG: np.random.normal(0, c,
                 shape) = c * standard-normal draws that depend only on the generator state and the shape) - hence independent of
                 the signal, linear in coeff, identity at coeff 0, reproducible under np.random.seed
"""
import z3

from pyvc import api, symex
from pyvc.api import I, R, SpecFn, Z, Zb, Arr, Opaque, simp, to_real, Outside
from pyvc.symex import Contract


def setup(ex, st):
    n = api.sym("n")
    st.assume(n >= 0)
    f64 = api.sym("input_is_float64", "bool")
    sig = api.mk_array(st, "signal", n, owner="param:signal")
    st.heap["signal"].dtype = z3.If(f64, z3.StringVal("float64"), z3.StringVal("other"))
    api.mk_obj(st, "self", "Pre", {"coeff": "real"})
    st.env.update({"signal": sig, "axis": None, "in_place": api.sym("in_place", "bool")})
    st.ghost.update(X=st.heap["signal"].content, f64=f64, N=n)
    ex.ctx = dict(n=n)


def h_astype(ex, st, o, args, kwargs, node, ev):
    dt = args[0]
    tag = dt.term if isinstance(dt, Opaque) else dt
    copy = kwargs.get("copy", True)
    cur = st.heap[o.root].dtype
    same = simp(Z(cur) == Z(tag)) if symex.is_z3(cur) or symex.is_z3(tag) else (cur == tag)
    if copy is False:
        # ndarray.astype(t, copy=False) returns the SAME array when the dtype already matches, a converted copy otherwise:
        # modelled by a case split on the (symbolic) tag
        if same is True:
            return o
        if same is False:
            return _copy(st, o, tag)
        res = []

        def kt(s1):
            res.append(("same", s1))

        # no path forking inside an expression: return a copy whose identity is irrelevant for the clauses below, but record
        # that it MAY be the same object
        c = _copy(st, o, tag)
        st.ghost["maybe_same_as"] = (c.root, o.root, same)
        return c
    return _copy(st, o, tag)


def _copy(st, o, tag):
    k = z3.Int("k!%d" % next(symex._fresh))
    src = st.heap[o.root].content
    a = st.new_root(o.n, z3.Lambda([k], z3.Select(src, o.idx(k))), tag, "fresh", "astype")
    return a


def h_arr_binop(ex, st, op, a, b, node, ev):
    import ast
    if isinstance(a, Arr) and isinstance(b, Arr):
        ev.wd(Z(a.n) == Z(b.n), "bcast", node)
    f = {ast.Mult: lambda x, y: x * y, ast.Sub: lambda x, y: x - y, ast.Add: lambda x, y: x + y}.get(type(op))
    if f is None:
        raise Outside("array operator")
    ex.assumption_ids.add("A-NP-SLICE")
    return api.elementwise(st, f, a, b, name="tmp")


def h_normal(ex, st, args, kwargs, node, ev):
    loc, scale, shape = args
    if simp(Z(loc) == 0) is not True:
        raise Outside("np.random.normal with a non-zero mean")
    if not (isinstance(shape, tuple) and len(shape) == 1):
        raise Outside("np.random.normal shape")
    ex.assumption_ids.add("A-RNG")
    xi = z3.Array("XI", I, R)  # the standard-normal draws: a function of the generator state and the shape only
    st.ghost["XI"] = xi
    st.ghost["draws"] = st.ghost.get("draws", 0) + 1
    k = z3.Int("k!%d" % next(symex._fresh))
    return st.new_root(shape[0], z3.Lambda([k], to_real(scale) * z3.Select(xi, k)), "float64", "fresh", "noise")


def _res(ev, r, k):
    return ev.st.select(r, k)


def _same_object(ev, r):
    """does the result alias the input array? (root identity, or the copy=False case split)"""
    st = ev.st
    if r.root == "signal":
        return z3.BoolVal(True)
    ms = st.ghost.get("maybe_same_as")
    if ms and ms[0] == r.root:
        # astype(copy=False) of array ms[1]: same object iff the dtype tags agree
        return z3.And(z3.BoolVal(ms[1] == "signal"), Zb(ms[2]))
    return z3.BoolVal(False)


def _dtype_is_input(ev, r):
    st = ev.st
    f64 = st.ghost["f64"]
    want = z3.If(f64, z3.StringVal("float64"), z3.StringVal("other"))
    return Z(st.heap[r.root].dtype) == want


CONSTS = {
    "np.float64": Opaque(z3.StringVal("float64"), "dtype"), "RES": SpecFn(_res), "SAME_OBJECT": SpecFn(_same_object),
    "DTYPE_IS_INPUT": SpecFn(_dtype_is_input), "F64": SpecFn(lambda ev: ev.st.ghost["f64"]),
    "INPUT_NOW": SpecFn(lambda ev, k: z3.Select(ev.st.heap["signal"].content, Z(k))),
}


def contract_preemph():
    c = Contract(
        target="pre:Preemphasize.apply",
        uses=["A-REAL", "A-PYSEM", "A-NP-SLICE"],
        consts=dict(CONSTS),
        handlers={"arr.astype": h_astype, "arr_binop": h_arr_binop},
        ensures=[
            ("length", "len(result) == N"),
            ("first_sample", "implies(N >= 1, RES(result, 0) == X[0])"),
            ("recurrence", "forall(i, 1, N, RES(result, i) == X[i] - self.coeff * X[i - 1])"),
            ("dtype", "DTYPE_IS_INPUT(result)"),
            ("input_untouched_unless_in_place", "implies(not (in_place and F64()), forall(i, 0, N, INPUT_NOW(i) == X[i]))"),
            ("in_place_writes_through", "implies(in_place and F64(), SAME_OBJECT(result))"),
        ],
    )
    c.batched_last_axis = True
    c.param_writes_only_if = "in_place and F64()"
    c.canaries = [("uses_new_neighbour", "forall(i, 2, N, RES(result, i) == X[i] - self.coeff * RES(result, i - 1))")]
    return c


def contract_dither():
    c = Contract(
        target="pre:Dither.apply",
        uses=["A-REAL", "A-PYSEM", "A-NP-SLICE", "A-RNG"],
        consts=dict(CONSTS),
        handlers={"arr.astype": h_astype, "arr_binop": h_arr_binop, "np.random.normal": h_normal},
        ensures=[
            ("length", "len(result) == N"),
            ("one_draw", "draws == 1"),
            ("adds_scaled_noise", "forall(i, 0, N, RES(result, i) == X[i] + self.coeff * XI[i])"),
            ("dtype", "DTYPE_IS_INPUT(result)"),
            ("input_untouched_unless_in_place", "implies(not (in_place and F64()), forall(i, 0, N, INPUT_NOW(i) == X[i]))"),
            ("in_place_writes_through", "implies(in_place and F64(), SAME_OBJECT(result))"),
        ],
    )
    c.param_writes_only_if = "in_place and F64()"
    c.canaries = [("noise_scaled_by_signal", "forall(i, 0, N, RES(result, i) == X[i] + self.coeff * XI[i] * X[i])")]
    return c


def to_case(ob):
    """the C18 stand-in's own deterministic cases of the class whose contract failed (the model's n / in_place / dtype first)"""
    from pyvc.solve import model_int
    from rtc import c18
    which = "preemph" if "Preemphasize" in getattr(ob, "fn", "") or "recurrence" in ob.id or "first_sample" in ob.id else None
    n = model_int(ob.model, "n")
    inp = bool(model_int(ob.model, "in_place", False))
    f64 = bool(model_int(ob.model, "input_is_float64", True))
    out = []
    if n is not None and 0 <= n <= 1000:
        dt = "float64" if f64 else "float32"
        out.append({"check": "preemph", "dtype": dt, "n": max(n, 2), "seed": 0, "salt": "m", "coeff": 0.97, "in_place": inp, "layout": "contig"})
        out.append({"check": "dither.dtype_values", "dtype": dt, "n": max(n, 2), "seed": 0, "salt": "m", "coeff": 2.0, "np_seed": 5, "in_place": inp, "layout": "contig"})
    cases = [c for c in c18._enumerate("quick", 0) if c["check"] != "dither.moments"]
    return out + cases

"""Sidecar contracts: scales.py (property C19). Pure real arithmetic (layer R, assumption A-REAL); exp/ln and
2**x/log2 are uninterpreted with the A-MATH axioms (mutually inverse, strictly increasing, exp positive).

For each scaling function the two methods are executed symbolically (every path), and the property's clauses are
posed over the resulting terms:
  inverse_hz     f in dom            =>  scale_to_hertz(hertz_to_scale(f)) == f
  inverse_scale  s in image of dom   =>  hertz_to_scale(scale_to_hertz(s)) == s
  mono_h2s / mono_s2h   strict monotonicity (two symbolic copies)
  continuity     adjacent branches of a piecewise method agree at their common boundary
  formula        the published closed form (mel: 1127 ln(1+f/700); 1000 Hz -> 1000 mel within 0.02;
                 Bark: Traunmueller with the low / high corrections)
  well-definedness of every division / logarithm on the domain; OctaveScaling(low_hz <= 0) raises ValueError.
"""
import z3

from pyvc import api, extract, symex
from pyvc.api import R, Z, Zb, to_real, simp
from pyvc.check import UnitResult
from pyvc.symex import Contract, Obligation, State, Executor

HZ_MAX = 100000


def _paths(cls, meth, argname, argval, fields, prop, consts=None):
    """all (pc, result) of one method on a symbolic argument; wd obligations are collected too"""
    fx = extract.get_function("scales", f"{cls}.{meth}")
    c = Contract(target=f"scales:{cls}.{meth}", uses=["A-REAL", "A-PYSEM", "A-MATH"], consts=consts or {})
    c.log_domain_wd = True
    ex = Executor(fx, c, prop)
    ex.fname = f"{cls}.{meth}"
    st = State()
    api.mk_obj(st, "self", cls, fields)
    st.env[argname] = argval
    for ax in api.math_axioms():
        ex.axioms.append(ax)
    ex.run(st)
    return fx, ex, [(s.pc, v) for k, s, v in ex.ended if k == "return"]


def unit_scales(prop="C19"):
    def unit(tier, known):
        u = UnitResult("scales")
        ax = api.math_axioms()
        f, g, sc, sc2 = z3.Reals("f g sc sc2")
        low, slope = z3.Reals("low_hz slope_hz")
        try:
            import mpmath
            mpmath.iv.dps = 30
            iv = mpmath.iv.log(mpmath.iv.mpf(17) / 7)
            ln_lo, ln_hi = z3.RealVal(str(mpmath.mpf(iv.a))[:25]), z3.RealVal(str(mpmath.mpf(iv.b) + mpmath.mpf("1e-20"))[:25])
            ln_lo = z3.RealVal("0.8873031950009")
            ln_hi = z3.RealVal("0.8873031950010")
            assert iv.a >= mpmath.mpf("0.8873031950009") and iv.b <= mpmath.mpf("0.8873031950010")
            ax_ln = [api.LN(z3.RealVal(17) / 7) >= ln_lo, api.LN(z3.RealVal(17) / 7) <= ln_hi]
            u.notes.append("A-MATH numeric fact ln(17/7) in [0.8873031950009, 0.8873031950010] confirmed by mpmath interval arithmetic in this run")
        except Exception as e:  # pragma: no cover
            ax_ln = []
            u.notes.append(f"mpmath interval for ln(17/7) unavailable: {e}")

        def ob(label, hyps, goal, kind="lemma"):
            u.obligations.append(Obligation(f"{prop}.{label}", ax + ax_ln + list(hyps), goal, kind, None))

        specs = [
            # class, fields, hz-domain predicate(f), extra hypotheses on parameters
            ("LinearScaling", {"low_hz": low, "slope_hz": slope}, lambda x: z3.And(x >= 0, x <= HZ_MAX), [slope > 0]),
            ("OctaveScaling", {"low_hz": low}, lambda x: z3.And(x >= low, x <= HZ_MAX), [low > 0]),
            ("MelScaling", {}, lambda x: z3.And(x >= 0, x <= HZ_MAX), []),
            ("BarkScaling", {}, lambda x: z3.And(x >= 0, x <= HZ_MAX), []),
        ]
        for cls, fields, dom, hyp in specs:
            try:
                fx1, ex1, h2s_f = _paths(cls, "hertz_to_scale", "hertz", f, fields, prop)
                _, ex1g, h2s_g = _paths(cls, "hertz_to_scale", "hertz", g, fields, prop)
                fx2, ex2, s2h_s = _paths(cls, "scale_to_hertz", "scale", sc, fields, prop)
                _, ex2b, s2h_s2 = _paths(cls, "scale_to_hertz", "scale", sc2, fields, prop)
            except (symex.Outside, KeyError) as e:
                u.outside.append((f"scales:{cls}", str(e)))
                continue
            u.functions += [fx1.describe(), fx2.describe()]
            u.assumptions |= {"A-REAL", "A-MATH", "A-PYSEM"}
            # well-definedness obligations of each method under its domain (divisions, logs)
            for ex, d in ((ex1, [dom(f)]), (ex2, None)):
                for o in ex.obligations:
                    if o.kind == "wd":
                        if d is not None:
                            o.pc = ax + o.pc + d + hyp
                            u.obligations.append(o)
            # scale_to_hertz is used on the image of the domain: sc == h2s(f0) for some f0 in dom
            f0, g0 = z3.Reals("f0 g0")
            _, ex10, h2s_f0 = _paths(cls, "hertz_to_scale", "hertz", f0, fields, prop)
            _, ex1g0, h2s_g0 = _paths(cls, "hertz_to_scale", "hertz", g0, fields, prop)
            for pcA, rA in h2s_f0:
                img = list(pcA) + [dom(f0), sc == to_real(rA)] + hyp
                for o in ex2.obligations:
                    if o.kind == "wd":
                        o2 = Obligation(o.id + ".on_image", ax + o.pc + img, o.goal, "wd", o.where)
                        u.obligations.append(o2)
                # inverse_scale: h2s(s2h(sc)) == sc   (compose: run h2s on the result of s2h)
                for pcB, rB in s2h_s:
                    _, exC, h2s_of = _paths(cls, "hertz_to_scale", "hertz", to_real(rB), fields, prop)
                    for pcC, rC in [(s.pc, v) for k, s, v in exC.ended if k == "return"]:
                        ob(f"{cls}.inverse_scale", img + list(pcB) + list(pcC), to_real(rC) == sc)
                # monotone s2h on the image
                for pcA2, rA2 in h2s_g0:
                    img2 = list(pcA2) + [dom(g0), sc2 == to_real(rA2)]
                    for pcB, rB in s2h_s:
                        for pcB2, rB2 in s2h_s2:
                            ob(f"{cls}.mono_s2h", img + img2 + list(pcB) + list(pcB2) + [sc < sc2], to_real(rB) < to_real(rB2))
            # inverse_hz: s2h(h2s(f)) == f
            for pcA, rA in h2s_f:
                _, exB, _ = _paths(cls, "scale_to_hertz", "scale", to_real(rA), fields, prop)
                for pcB, rB in [(s.pc, v) for k, s, v in exB.ended if k == "return"]:
                    ob(f"{cls}.inverse_hz", list(pcA) + list(pcB) + [dom(f)] + hyp, to_real(rB) == f)
                for pcG, rG in h2s_g:
                    ob(f"{cls}.mono_h2s", list(pcA) + list(pcG) + [dom(f), dom(g), f < g] + hyp, to_real(rA) < to_real(rG))
            # continuity: whenever two paths' conditions both hold in the limit, i.e. on the closure boundary, the
            # branch expressions agree: for every pair of paths, at any point where the *non-strict* versions of both
            # path conditions hold, results are equal
            for name, plist, var in (("h2s", h2s_f, f), ("s2h", s2h_s, sc)):
                for i in range(len(plist)):
                    for j in range(i + 1, len(plist)):
                        ci = [_closure(p) for p in plist[i][0]]
                        cj = [_closure(p) for p in plist[j][0]]
                        ob(f"{cls}.continuity_{name}", ci + cj + hyp, to_real(plist[i][1]) == to_real(plist[j][1]))
            # published formulas
            if cls == "MelScaling":
                for pcA, rA in h2s_f:
                    ob("MelScaling.formula", list(pcA) + [dom(f)], to_real(rA) == 1127 * api.LN(1 + f / 700))
                    ob("MelScaling.1000Hz_is_1000mel", list(pcA) + [f == 1000], z3.And(to_real(rA) >= z3.RealVal("999.98"), to_real(rA) <= z3.RealVal("1000.02")))
            if cls == "BarkScaling":
                z = z3.RealVal("26.81") * f / (1960 + f) - z3.RealVal("0.53")
                pub = z3.If(z < 2, z + z3.RealVal("0.15") * (2 - z), z3.If(z > z3.RealVal("20.1"), z + z3.RealVal("0.22") * (z - z3.RealVal("20.1")), z))
                for pcA, rA in h2s_f:
                    ob("BarkScaling.formula", list(pcA) + [dom(f)], to_real(rA) == pub)
        # OctaveScaling.__init__ rejects non-positive low_hz
        try:
            fx = extract.get_function("scales", "OctaveScaling.__init__")
            c = Contract(target="scales:OctaveScaling.__init__", raises={"ValueError": "low_hz <= 0"},
                         ensures=[("stores", "self.low_hz == low_hz")])
            ex = Executor(fx, c, prop)
            ex.fname = "OctaveScaling.__init__"
            st = State()
            api.mk_obj(st, "self", "OctaveScaling", {"low_hz": z3.Real("uninit")})
            st.env["low_hz"] = low
            ex.run(st)
            u.functions.append(fx.describe())
            u.obligations += ex.obligations
        except (symex.Outside, KeyError) as e:
            u.outside.append(("scales:OctaveScaling.__init__", str(e)))
        u.to_case = to_case
        # canary: a wrong inverse must be refuted
        u.canaries.append(Obligation(f"{prop}.canary.mel_inverse_off", [f >= 0], 700 * (api.EXP((1127 * api.LN(1 + f / 700)) / 1127) - 1) == f + 1, "canary", None))
        return u
    unit.__name__ = "scales"
    return unit


def _closure(p):
    """non-strict version of an atomic path condition (x < c -> x <= c, not(x <= c) -> x >= c, ...)"""
    p = z3.simplify(p)
    if z3.is_not(p):
        q = p.arg(0)
        if z3.is_le(q):
            return q.arg(0) >= q.arg(1)
        if z3.is_ge(q):
            return q.arg(0) <= q.arg(1)
        if z3.is_lt(q) or z3.is_gt(q):
            return z3.BoolVal(True) if False else (q.arg(0) >= q.arg(1) if z3.is_lt(q) else q.arg(0) <= q.arg(1))
        return z3.BoolVal(True)
    if z3.is_lt(p):
        return p.arg(0) <= p.arg(1)
    if z3.is_gt(p):
        return p.arg(0) >= p.arg(1)
    if z3.is_and(p):
        return z3.And(*[_closure(c) for c in p.children()])
    return p


def to_case(ob):
    """obligation id -> grid cases of the C19 stand-in for the same class and clause (the solver model lives over
    uninterpreted exp/ln, so the replay samples the real functions on the stand-in's grids instead)"""
    parts = ob.id.split(".")
    if len(parts) < 3:
        return None
    cls, clause = parts[1], parts[2]
    kind = {"LinearScaling": "linear", "OctaveScaling": "octave", "MelScaling": "mel", "BarkScaling": "bark"}.get(cls)
    if kind is None:
        return None
    if clause == "__init__":
        return [{"check": "octave_rejects", "low_hz": v, "expect": "ValueError"} for v in (0.0, -1.0, -20.0)] + \
               [{"check": "octave_rejects", "low_hz": v, "expect": "ok"} for v in (1e-3, 20.0)]
    from pyvc.solve import model_real
    plist = {"linear": [{"low_hz": 0.0, "slope_hz": 1.0}, {"low_hz": 20.0, "slope_hz": 3.7}, {"low_hz": -100.0, "slope_hz": 1e-3}],
             "octave": [{"low_hz": 20.0}, {"low_hz": 1e-3}, {"low_hz": 5e-11}, {"low_hz": 440.0}], "mel": [{}], "bark": [{}]}[kind]
    # parameters of the solver's (candidate) model first
    lo, sl = model_real(ob.model, "low_hz"), model_real(ob.model, "slope_hz")
    if kind == "octave" and lo is not None and 0 < lo < 1e6:
        plist.insert(0, {"low_hz": lo})
    if kind == "linear" and lo is not None and sl is not None and sl > 0 and abs(lo) < 1e6 and 1e-6 < sl < 1e6:
        plist.insert(0, {"low_hz": lo, "slope_hz": sl})
    grids = ["log", "lin"] + (["breaks"] if kind == "bark" else [])
    out = []
    for params in plist:
        for g in grids:
            for d in ("hz", "scale"):
                base = {"scaling": kind, "params": params, "dir": d, "grid": g, "n": 4000}
                if clause.startswith("inverse") or clause.startswith("wd") or "div0" in ob.id or "log_domain" in ob.id:
                    out.append(dict(base, check="inverse"))
                if clause.startswith("mono") or clause.startswith("continuity"):
                    out.append(dict(base, check="monotone"))
                if clause in ("formula", "1000Hz_is_1000mel") and kind in ("mel", "bark"):
                    out.append(dict(base, check="formula"))
    if clause.startswith("continuity") and kind == "bark":
        out.insert(0, {"check": "bark_continuity", "scaling": "bark"})
    if clause == "1000Hz_is_1000mel":
        out.insert(0, {"check": "mel_1000", "scaling": "mel"})
    return out or None

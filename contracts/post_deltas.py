"""Sidecar contract: post.py Deltas.apply (property C15, first sentence) for tensors of rank 1, 2 and 3 and every legal `axis`.

The N-D code walks the index space of the other axes with np.ndindex and handles one 1-D row at a time; the rank is fixed per
setup (so Python-level lists / tuples of slices have a known length and the zip / generator over the axes is unrolled), the sizes
of all axes are symbolic. Tensors are modelled by what the function does with them (Tensor / OutTensor below):
    features[<ints and one full slice>]   -> the 1-D row (an array view whose k-th element is X(.., k, ..))
    delta_feat[<the same index>] = row'   -> obligations on row' (below), one row at a time
Assumed library contracts (A-NP-PAD, A-NP-CORR): np.pad(a, (l, r), mode) has length len(a) + l + r and a[k - l] at l <= k < l + len(a);
np.correlate(a, v, "full") has length len(a) + len(v) - 1 and element k equal to XC(k - (len(v) - 1)) with
XC(t) = sum_j a[t + j] * v[j]; np.ndindex(shape) enumerates every index tuple of that shape exactly once.

Proved at the store of every row, for every delta order k >= 1 (filter of odd length n_k >= 3, class invariant of __init__):
    same_row          the row written is the row read (same indices on the other axes)
    row_length        the stored vector has exactly the axis' length T (for every T >= 0)
    centred_filter    it is XC(t) of the row padded by exactly (n_k - 1)/2 on BOTH sides, taken from offset n_k - 1 of the full
                      correlation:  out[t] = sum_j x_ext[t + j - (n_k-1)/2] * filt_k[j]   - the regression filter centred on frame t,
                      edges extended by the chosen padding mode
    padding_mode      np.pad received the object's pad mode and keyword arguments
    every_row_once    rows are visited in np.ndindex order, each exactly once
and at the end: the result is the concatenation (or stack) along target_axis of [input, delta_1, .., delta_num] in this order, in the
input's dtype, with the resulting shape; the input is never stored into.
"""
import ast

import z3

from pyvc import api, symex
from pyvc.api import I, R, SpecFn, Z, Zb, Arr, Opaque, SeqVal, simp, to_real, Outside
from pyvc.symex import Contract, LoopSpec, PySlice, Root, fresh

CLS = "Deltas"
NUM_DELTAS = 2


class Tensor:
    def __init__(self, name, dims, dtype):
        self.name, self.dims, self.dtype = name, tuple(dims), dtype
        self.X = z3.Function("X_" + name, *([I] * len(dims) + [R]))

    def sym_getattr(self, attr, ev, node):
        if attr == "ndim":
            return len(self.dims)
        if attr == "shape":
            return tuple(self.dims)
        if attr == "dtype":
            return Opaque(self.dtype, "dtype")
        raise Outside(f"tensor attribute .{attr}")

    def row_index(self, idx, ev, node):
        """idx: tuple of ints and exactly one full slice -> (axis, fixed indices)"""
        if not isinstance(idx, tuple) or len(idx) != len(self.dims):
            raise Outside("tensor subscript form")
        ax = [k for k, e in enumerate(idx) if isinstance(e, PySlice)]
        if len(ax) != 1 or not idx[ax[0]].is_full():
            raise Outside("tensor subscript: exactly one full slice expected")
        fixed = []
        for k, e in enumerate(idx):
            if k == ax[0]:
                fixed.append(None)
            else:
                ev.wd(z3.And(Z(e) >= 0, Z(e) < Z(self.dims[k])), "tensor_index", node)
                fixed.append(Z(e))
        return ax[0], fixed

    def sym_getitem(self, sl, ev, node):
        idx = ev.eval(sl)
        ax, fixed = self.row_index(idx, ev, node)
        k = z3.Int("rk!%d" % next(symex._fresh))
        args = [k if f is None else f for f in fixed]
        arr = ev.st.new_root(self.dims[ax], z3.Lambda([k], self.X(*args)), self.dtype, "param:features", "row")
        ev.st.ghost.setdefault("rows", {})[arr.root] = ("row", self.name, ax, tuple(fixed))
        return arr


class OutTensor:
    def __init__(self, name, dims, dtype, order):
        self.name, self.dims, self.dtype, self.order = name, tuple(dims), dtype, order

    def sym_getattr(self, attr, ev, node):
        if attr == "shape":
            return tuple(self.dims)
        if attr == "dtype":
            return Opaque(self.dtype, "dtype")
        raise Outside(f"tensor attribute .{attr}")

    def sym_setitem(self, sl, v, ev, node):
        ex, st = ev.ex, ev.st
        lbl = f"L{node.lineno - ex.fx.lineno}"
        idx = ev.eval(sl)
        feats = st.env["features"]
        ax, fixed = feats.row_index(idx, ev, node)
        info = st.ghost.get("rows", {})
        if not isinstance(v, Arr) or v.step != 1 or info.get(v.root, (None,))[0] != "cast_of_corr_slice" and info.get(v.root, (None,))[0] != "corr":
            raise Outside("the stored row is not a slice of np.correlate(np.pad(row), filter)")
        tag = info[v.root]
        if tag[0] == "cast_of_corr_slice":
            _, corr_root, off, n, to_dtype = tag
            ex.oblige(st, Zb(to_dtype == feats.dtype) if symex.is_z3(to_dtype) else to_dtype == feats.dtype, f"stored_in_the_inputs_dtype.{lbl}", "spec", node.lineno)
        else:
            corr_root, off, n = v.root, v.off, v.n
        _, pad_root, filt_k, nv = info[corr_root]
        _, src_root, ml, mr, mode_ok = info[pad_root]
        _, tname, rax, rfixed = info[src_root]
        T = Z(feats.dims[ax])
        ex.oblige(st, z3.And(rax == ax, *[a == b for a, b in zip(rfixed, fixed) if a is not None and b is not None]) if rax == ax else False,
                  f"same_row.{lbl}", "spec", node.lineno)
        ex.oblige(st, Z(n) == T, f"row_length.{lbl}", "wd", node.lineno)
        ex.oblige(st, z3.And(Z(off) == Z(nv) - 1, 2 * Z(ml) == Z(nv) - 1, 2 * Z(mr) == Z(nv) - 1), f"centred_filter.{lbl}", "spec", node.lineno)
        ex.oblige(st, mode_ok, f"padding_mode.{lbl}", "spec", node.lineno)
        ex.oblige(st, filt_k == self.order, f"filter_of_this_order.{lbl}", "spec", node.lineno)
        # every row once, in np.ndindex order: the loop index is the number of rows written so far
        ex.oblige(st, st.ghost["outs"][-1] == self.name, f"row_of_the_tensor_being_filled.{lbl}", "spec", node.lineno)
        ex.oblige(st, Z(st.env["__zi"]) == Z(st.ghost["written"]), f"every_row_once.{lbl}", "spec", node.lineno)
        st.ghost["written"] = simp(Z(st.ghost["written"]) + 1)


def h_empty(ex, st, args, kwargs, node, ev):
    shape = args[0]
    dt = kwargs.get("dtype")
    if not isinstance(shape, tuple):
        raise Outside("np.empty shape")
    k = len(st.ghost["outs"]) + 1
    t = OutTensor("delta%d" % k, shape, dt.term if isinstance(dt, Opaque) else "float64", k)
    if st.ghost["outs"]:
        # the previous delta tensor must be complete before the next one is started
        ex.oblige(st, Z(st.ghost["written"]) == Z(st.ghost["nrows"]), f"all_rows_of_{st.ghost['outs'][-1]}_written.L{node.lineno - ex.fx.lineno}", "spec", node.lineno)
    st.ghost["outs"] = st.ghost["outs"] + [t.name]
    st.ghost["written"] = 0
    return t


def h_ndindex(ex, st, args, kwargs, node, ev):
    (shape,) = args
    if not isinstance(shape, tuple):
        raise Outside("np.ndindex argument")
    total = z3.IntVal(1)
    for d in shape:
        total = total * Z(d)
    total = simp(total)
    OI = z3.Function("ndindex!%d" % next(symex._fresh), I, I, I)
    k = z3.Int("nk")
    for j, d in enumerate(shape):
        st.assume(z3.ForAll([k], z3.Implies(z3.And(k >= 0, k < total), z3.And(OI(k, j) >= 0, OI(k, j) < Z(d))), patterns=[OI(k, j)]))
    ex.assumption_ids.add("A-NP-NDINDEX")
    st.ghost["nrows"] = total
    return SeqVal(total, lambda i: tuple(OI(Z(i), j) for j in range(len(shape))))


def h_astype(ex, st, o, args, kwargs, node, ev):
    dt = args[0]
    if not isinstance(o, Arr) or not isinstance(dt, Opaque):
        raise Outside("astype form")
    info = st.ghost.setdefault("rows", {})
    tag = info.get(o.root)
    r = st.heap[o.root]
    k = z3.Int("ck!%d" % next(symex._fresh))
    a = st.new_root(o.n, z3.Lambda([k], z3.Select(r.content, Z(o.off) + k)), dt.term, "fresh", "cast")
    if tag and tag[0] == "row":
        info[a.root] = tag  # a cast keeps the values (A-REAL): still this row
    elif tag and tag[0] == "corr":
        info[a.root] = ("cast_of_corr_slice", o.root, o.off, o.n, dt.term)
    return a


def h_pad(ex, st, args, kwargs, node, ev):
    a, widths, mode = args[0], args[1], args[2] if len(args) > 2 else kwargs.get("mode")
    if not isinstance(a, Arr) or not (isinstance(widths, tuple) and len(widths) == 2):
        raise Outside("np.pad form")
    lbl = f"L{node.lineno - ex.fx.lineno}"
    l, r = Z(widths[0]), Z(widths[1])
    ex.oblige(st, z3.And(l >= 0, r >= 0), f"pad_widths_nonneg.{lbl}", "wd", node.lineno)
    src = st.heap[a.root].content
    EDGE = z3.Function("padvalue!%d" % next(symex._fresh), I, R)
    k = z3.Int("pk!%d" % next(symex._fresh))
    out = st.new_root(simp(Z(a.n) + l + r), z3.Lambda([k], z3.If(z3.And(k >= l, k < l + Z(a.n)), z3.Select(src, Z(a.off) + k - l), EDGE(k))), "float64", "fresh", "padded")
    want_mode = st.fields[("self", "_pad_mode")]
    want_kw = st.fields[("self", "_pad_kwargs")]
    extra = {kk: vv for kk, vv in kwargs.items() if kk != "mode"}
    mode_ok = (mode is want_mode) and (extra == want_kw)
    st.ghost.setdefault("rows", {})[out.root] = ("pad", a.root, l, r, mode_ok)
    ex.assumption_ids.add("A-NP-PAD")
    return out


def h_correlate(ex, st, args, kwargs, node, ev):
    a, v = args[0], args[1]
    mode = args[2] if len(args) > 2 else kwargs.get("mode", "valid")
    if not isinstance(a, Arr) or not isinstance(v, Arr) or mode != "full":
        raise Outside("np.correlate form")
    lbl = f"L{node.lineno - ex.fx.lineno}"
    ex.oblige(st, z3.And(Z(a.n) >= 1, Z(v.n) >= 1), f"correlate_of_nonempty.{lbl}", "wd", node.lineno)
    XC = z3.Function("xcorr!%d" % next(symex._fresh), I, R)
    k = z3.Int("ck!%d" % next(symex._fresh))
    out = st.new_root(simp(Z(a.n) + Z(v.n) - 1), z3.Lambda([k], XC(k - (Z(v.n) - 1))), "float64", "fresh", "corr")
    filt_k = st.ghost["filter_order"].get(v.root)
    st.ghost.setdefault("rows", {})[out.root] = ("corr", a.root, filt_k, v.n)
    ex.assumption_ids.add("A-NP-CORR")
    return out


def _h_join(kind):
    def h(ex, st, args, kwargs, node, ev):
        parts, tax = args[0], args[1] if len(args) > 1 else kwargs.get("axis", 0)
        feats = st.env["features"]
        d = len(feats.dims)
        names = [getattr(p, "name", None) for p in parts] if isinstance(parts, (list, tuple)) else None
        lbl = f"L{node.lineno - ex.fx.lineno}"
        ex.oblige(st, names == [feats.name] + ["delta%d" % k for k in range(1, NUM_DELTAS + 1)], f"input_then_deltas_in_order.{lbl}", "spec", node.lineno)
        nrows = Z(st.ghost.get("nrows", 0))
        ex.oblige(st, Z(st.ghost["written"]) == nrows, f"all_rows_of_the_last_delta_written.{lbl}", "spec", node.lineno)
        for p in parts[1:]:
            if isinstance(p, OutTensor):
                ex.oblige(st, p.dtype is feats.dtype, f"{p.name}_in_the_inputs_dtype.{lbl}", "spec", node.lineno)
        tax = simp(tax) if symex.is_z3(tax) else tax
        if not isinstance(tax, int):
            raise Outside("symbolic target axis")
        ex.oblige(st, tax == st.fields[("self", "_target_axis")], f"joined_along_target_axis.{lbl}", "spec", node.lineno)
        rank = d if kind == "concatenate" else d + 1
        ex.oblige(st, -rank <= tax < rank, f"target_axis_in_range.{lbl}", "wd", node.lineno)
        t = tax % rank if -rank <= tax < rank else 0
        if kind == "concatenate":
            dims = [simp(Z(x) * (NUM_DELTAS + 1)) if j == t else x for j, x in enumerate(feats.dims)]
        else:
            dims = list(feats.dims[:t]) + [NUM_DELTAS + 1] + list(feats.dims[t:])
        res = Tensor("result", dims, feats.dtype)
        res.kind, res.taxis = kind, t
        return res
    return h


def setup(d, axis, target_axis):
    def _setup(ex, st):
        dims = [api.sym("n%d" % j) for j in range(d)]
        st.assume(z3.And(*[x >= 0 for x in dims]))
        feats = Tensor("features", dims, z3.String("in_dtype"))
        st.env.update({"features": feats, "axis": axis, "in_place": api.sym("in_place", "bool")})
        filts = [api.mk_array(st, "filt%d" % k, api.sym("nfilt%d" % k), owner="self._filts") for k in range(NUM_DELTAS + 1)]
        st.assume(Z(filts[0].n) == 1)
        for k in range(1, NUM_DELTAS + 1):
            q = api.sym("half%d" % k)
            st.assume(z3.And(q >= 1, Z(filts[k].n) == 2 * q + 1))  # class invariant: odd length 2*k*context_window + 1 >= 3
        api.mk_obj(st, "self", CLS, {"_filts": filts, "_pad_mode": Opaque("pad_mode", "mode"), "_pad_kwargs": {"stat_length": Opaque("kw", "kw")},
                                      "_target_axis": target_axis, "concatenate": "bool", "num_deltas": NUM_DELTAS})
        st.ghost.update(outs=[], written=0, nrows=0, filter_order={f.root: k for k, f in enumerate(filts)}, rows={})
        ex.ctx = dict(d=d, axis=axis, dims=dims)
    return _setup


def _retype_feat_slice(hst, v):
    """at the head of the np.ndindex loop feat_slice holds the full slice on the filtered axis and (any) integers elsewhere"""
    return [e if isinstance(e, PySlice) else fresh("fs", "int") for e in v] if any(not isinstance(e, PySlice) for e in v) else list(v)


def contract(d, axis):
    def shape_of(ev, r):
        return tuple(r.dims)

    c = Contract(
        target=f"post:{CLS}.apply",
        uses=["A-REAL", "A-PYSEM", "A-NP-PAD", "A-NP-CORR", "A-NP-NDINDEX", "A-NP-CAT"],
        consts={"np.float64": Opaque("float64", "dtype"),
                "IS_RESULT": SpecFn(lambda ev, r: isinstance(r, Tensor) and r.name == "result"),
                "RANK": SpecFn(lambda ev, r: len(r.dims)),
                "DIM": SpecFn(lambda ev, r, j: r.dims[j]),
                "KIND_IS": SpecFn(lambda ev, r, s: getattr(r, "kind", None) == s),
                "SAME_DTYPE": SpecFn(lambda ev, r: r.dtype is ev.st.env["features"].dtype)},
        handlers={"np.empty": h_empty, "np.ndindex": h_ndindex, "arr.astype": h_astype, "np.pad": h_pad, "np.correlate": h_correlate,
                  "np.concatenate": _h_join("concatenate"), "np.stack": _h_join("stack")},
        loops={1: LoopSpec(kind="for", modifies_ghost=["written"], types={"feat_slice": _retype_feat_slice}, invariant=[
            ("range", "0 <= __zi <= nrows"), ("rows_so_far", "WRITTEN_IS_LOOP_INDEX()")])},
        ensures=[
            ("self_not_assigned", "FIELD_WRITES() == 0"),
            ("is_join_of_input_and_deltas", "IS_RESULT(result)"),
            ("dtype_of_input", "SAME_DTYPE(result)"),
            ("join_kind_follows_flag", "KIND_IS(result, 'concatenate') == self.concatenate"),
        ],
    )
    c.consts["WRITTEN_IS_LOOP_INDEX"] = SpecFn(lambda ev: Z(ev.st.ghost["written"]) == Z(ev.st.env["__zi"]))
    c.consts["FIELD_WRITES"] = SpecFn(lambda ev: len([w for w in ev.st.writes if w and w[0] == "field"]))
    c.no_param_writes = True
    c.lazy_products = False
    c.canaries = [("stack_when_concatenate_is_set", "KIND_IS(result, 'stack') == self.concatenate")]
    return c


def to_case(ob):
    """inputs for the C15 stand-in's replay: the rank / axis of the failed setup, every pad mode of the stand-in (the width-dependent
    ones included), 0..3 delta orders, windows 1..3, short and longer filtered axes, both join kinds"""
    import re
    from rtc import c15
    m = re.search(r"\[d(\d)_axis(-?\d)_target(-?\d)\]", ob.id)
    d, axis, target = (int(m.group(1)), int(m.group(2)), int(m.group(3))) if m else (2, 0, -1)
    # (an EMPTY filtered axis is outside the property's quantifier - np.pad cannot extend it -, as in the stand-in's own enumeration)
    shapes = {1: [(7,), (2,), (1,)], 2: [(7, 3), (2, 5), (1, 4), (3, 1)], 3: [(2, 5, 3), (3, 2, 4), (1, 1, 6)]}[d]
    pads = list(c15.DELTA_PADS) + list(getattr(c15, "DELTA_PADS_X", ()))
    out = []
    for shape in shapes:
        for nd in (2, 1, 3, 0):
            for W in (1, 2, 3):
                for pi, pad in enumerate(pads):
                    for concat in (True, False):
                        lim = d if concat else d + 1
                        for tgt in sorted({target if -lim <= target < lim else -1, -1, 0}):
                            out.append({"op": "deltas", "shape": list(shape), "dtype": c15.DTYPES[(nd + W + pi) % 3], "axis": axis, "target_axis": tgt,
                                        "concatenate": concat, "num_deltas": nd, "context_window": W, "pad_mode": pad[0],
                                        "constant_values": None if isinstance(pad[1], dict) else pad[1],
                                        "pad_kwargs": dict(pad[1]) if isinstance(pad[1], dict) else {}, "layout": "C", "in_place": False, "seed": 11})
    return out[:4000]


def cases():
    out = []
    for d in (1, 2, 3):
        for axis in range(-d, d):
            out.append((d, axis, -1 if (d + axis) % 2 == 0 else 0))
    return out


LABELS = ["d%d_axis%d_target%d" % c for c in cases()]


def generate(prop, label):
    from contracts.registry import run_contract
    d, axis, tax = [c for c in cases() if "d%d_axis%d_target%d" % c == label][0]
    return run_contract(prop, ("post", f"{CLS}.apply"), contract(d, axis), [(label, setup(d, axis, tax))], name="deltas_apply", fname="Deltas.apply")


# ------------------------------------------------------------------------------------------
# __init__: the regression filters (the class invariant Deltas.apply assumes: odd lengths 2*k*W + 1 >= 3 for k >= 1) and the
# Kaldi recursion filt_0 = [1], filt_{k+1} = filt_k * kernel, kernel[j] = (j - W) / sum_i (i - W)^2, j = 0..2W
# ------------------------------------------------------------------------------------------

SUMSQ = z3.Function("sum_of_squares", z3.ArraySort(I, R), I, I, R)  # (content, offset, n) -> sum of squares (assumed np.sum contract)


def setup_init(nd):
    def _setup(ex, st):
        W = api.sym("context_window")
        st.assume(W >= 1)
        api.mk_obj(st, "self", CLS, {})
        st.env.update({"num_deltas": nd, "target_axis": -1, "concatenate": api.sym("concatenate", "bool"), "context_window": W,
                       "pad_mode": Opaque("pad_mode", "mode"), "kwargs": {}})
        st.ghost.update(convs=0)
        ex.ctx = dict(W=W, nd=nd)
    return _setup


def _h_ones(ex, st, args, kwargs, node, ev):
    n = args[0]
    return st.new_root(n, z3.K(I, z3.RealVal(1)), "float64", "fresh", "ones")


def _h_arange(ex, st, args, kwargs, node, ev):
    (n,) = args
    ev.wd(Z(n) >= 0, "arange_nonneg", node)
    k = z3.Int("ak!%d" % next(symex._fresh))
    return st.new_root(n, z3.Lambda([k], z3.ToReal(k)), "float64", "fresh", "arange")


def _h_arr_binop_init(ex, st, op, a, b, node, ev):
    if isinstance(a, Arr) and symex.is_num(b):
        bb = to_real(b)
        if isinstance(op, ast.Sub):
            return api.elementwise(st, lambda x: x - bb, a, name="sub")
        if isinstance(op, ast.Div):
            ex.oblige(st, bb != 0, f"div0.L{node.lineno - ex.fx.lineno}", "wd", node.lineno)
            return api.elementwise(st, lambda x: x / bb, a, name="div")
        if isinstance(op, ast.Pow) and symex.concrete(b) and b == 2:
            r = api.elementwise(st, lambda x: x * x, a, name="sq")
            st.ghost.setdefault("squares_of", {})[r.root] = a
            return r
    raise Outside("array arithmetic form in Deltas.__init__")


def _h_sum(ex, st, args, kwargs, node, ev):
    (a,) = args
    src = st.ghost.get("squares_of", {}).get(getattr(a, "root", None))
    if src is None:
        raise Outside("np.sum form")
    # sum of squares of the integers -W..W: positive because W >= 1 (the only fact the contract needs; closed form W(W+1)(2W+1)/3)
    v = SUMSQ(st.heap[src.root].content, Z(src.off), Z(src.n))
    st.assume(v >= 2)  # (-1)^2 + 1^2 <= sum for W >= 1 (A-NP-RED: np.sum is the sum)
    st.ghost["norm"] = v
    ex.assumption_ids.add("A-NP-RED")
    return v


def _h_convolve(ex, st, args, kwargs, node, ev):
    a, b = args
    if not isinstance(a, Arr) or not isinstance(b, Arr):
        raise Outside("np.convolve form")
    lbl = f"L{node.lineno - ex.fx.lineno}"
    ex.oblige(st, z3.And(Z(a.n) >= 1, Z(b.n) >= 1), f"convolve_of_nonempty.{lbl}", "wd", node.lineno)
    k = st.ghost["convs"]
    ex.oblige(st, a.root == st.ghost.get("last_filter", a.root) and b.root == st.ghost.get("kernel_root", b.root), f"previous_filter_times_kernel.{lbl}", "spec", node.lineno)
    st.ghost.setdefault("kernel_root", b.root)
    out = st.new_root(simp(Z(a.n) + Z(b.n) - 1), None, "float64", "self._filts", "conv")
    st.ghost["last_filter"] = out.root
    st.ghost["convs"] = k + 1
    ex.assumption_ids.add("A-NP-CORR")
    return out


def contract_init(nd):
    def flen(ev, k):
        f = ev.st.fields[("self", "_filts")]
        return f[k].n

    ens = [("count", "len(self._filts) == num_deltas + 1"), ("order_0_is_identity", "FLEN(0) == 1 and self._filts[0][0] == 1"),
           ("one_convolution_per_order", "CONVS() == num_deltas")]
    for k in range(1, nd + 1):
        ens.append((f"order_{k}_length_odd", f"FLEN({k}) == 2 * {k} * context_window + 1 and FLEN({k}) >= 3"))
    c = Contract(
        target=f"post:{CLS}.__init__",
        uses=["A-REAL", "A-PYSEM", "A-NP-CORR", "A-NP-RED"],
        consts={"np.float64": Opaque("float64", "dtype"), "FLEN": SpecFn(flen), "CONVS": SpecFn(lambda ev: ev.st.ghost["convs"]),
                "KERNEL": SpecFn(lambda ev, j: ev.st.select(ev.st.env["delta_filter"], j)),
                "NORM": SpecFn(lambda ev: ev.st.ghost.get("norm"))},
        handlers={"np.ones": _h_ones, "np.arange": _h_arange, "arr_binop": _h_arr_binop_init, "np.sum": _h_sum, "np.convolve": _h_convolve},
        ensures=ens + [("kernel_is_centred_ramp", "len(delta_filter) == 2 * context_window + 1 and forall(j, 0, 2 * context_window + 1, "
                                                  "KERNEL(j) * KERNEL_NORM() == j - context_window)")],
    )
    c.consts["KERNEL_NORM"] = SpecFn(lambda ev: _kernel_norm(ev))
    c.lazy_products = False
    return c


def _kernel_norm(ev):
    # the divisor the code used: the sum of squares of the ramp as it was when np.sum was called
    v = ev.st.ghost.get("norm")
    if v is None:
        raise Outside("no normaliser")
    return v


def generate_init(prop, nd):
    from contracts.registry import run_contract
    return run_contract(prop, ("post", f"{CLS}.__init__"), contract_init(nd), [("num_deltas_%d" % nd, setup_init(nd))], name="deltas_init", fname="Deltas.__init__")

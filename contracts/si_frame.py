"""Sidecar contracts: compute.py ShortIntegrationFrameComputer._compute_frame and ._fill_y_buf (property C03: what a frame's
coefficients are made of; C01: independence of how the filtered samples arrived).

The accumulator self._y_buf is a NB x 2 x ncoef array: block r, window half h, coefficient f. It is modelled as a ghost z3 array
YA : Int x Int x Int -> Real, read and written through the three subscript forms the two functions use (YBuf3 below):
    y_buf[r, h, :]  (a vector over coefficients)     y_buf[r, :, f]  (a pair over window halves)     y_buf[a:b] / y_buf[r]  (whole blocks)

_compute_frame(coeffs)   requires _y_rem >= 2s.  ensures, for every coefficient f:
    coeffs[f] == logfloor( YA0[0, 0, f] + YA0[1, 1, f] )       first half of the window on the oldest block, second half on the next
    YA[r, h, f] == YA0[r + 1, h, f] for r < NB - 1,  YA[NB - 1, h, f] == 0      every block moves up by exactly one, the last is cleared
    _y_rem == old - s

_fill_y_buf(X_buf, y_keep)   requires 1 <= y_keep <= v, 0 <= _y_rem, _y_rem + y_keep <= NB * s.  The y_keep new filtered samples
have positions p = _y_rem + i (i < y_keep) in the accumulator's time line (block p // s, window offset p % s). Proved, for EVERY
coefficient and every pass of the inner loop, by scalar obligations at the accumulation statement (no array quantifier needed):
    tiling      the passes take consecutive, non-empty-or-final segments [a, b) of the new samples: first a == 0, each a == previous
                b, last b == y_keep  (every sample accumulated exactly once)
    alignment   segment [a, b) lies inside ONE block: block_idx == (_y_rem + a) // s == (_y_rem + b - 1) // s, and the window slice
                starts at that sample's offset in the block: window_start == (_y_rem + a) % s, same length as the segment
    bounds      0 <= block_idx < NB, 0 <= filt_idx < ncoef, 0 <= window_start <= window_end <= s, the y slice is not clamped
    each coefficient once, |y|^p taken of the last y_keep outputs of the inverse transform of X_buf * filter[filt_idx]
    _y_rem == old + y_keep
"""
import ast

import z3

from pyvc import api, symex
from pyvc.api import I, R, SpecFn, Z, Zb, Arr, Opaque, simp, Outside
from pyvc.symex import Contract, LoopSpec, fresh, to_real

CLS = "ShortIntegrationFrameComputer"
YSORT = z3.ArraySort(I, I, I, R)


def _ya(st):
    return st.ghost["YA"]


class FVec:
    """vector over the coefficient axis: element f is fn(f) (a z3 Real term)"""

    def __init__(self, fn, n, tag=None):
        self.fn, self.n, self.tag = fn, n, tag


class HVec:
    """pair over the window halves: element h is fn(h)"""

    def __init__(self, fn, tag=None):
        self.fn, self.tag = fn, tag


class Blocks:
    """y_buf[lo:hi] - whole blocks lo .. hi-1 of the accumulator as it was when the expression was evaluated"""

    def __init__(self, ya, lo, n):
        self.ya, self.lo, self.n = ya, lo, n


class RowVec(FVec):
    """the `coeffs` parameter: a row of the result matrix (ghost content st.ghost['ROW'] : Int -> Real)"""

    def __init__(self, n):
        self.n, self.tag = n, "coeffs"

    def bind(self, st):
        row = st.ghost["ROW"]
        return FVec(lambda f: z3.Select(row, f), self.n, "coeffs")

    def sym_setitem(self, sl, v, ev, node):
        if not (isinstance(sl, ast.Slice) and sl.lower is None and sl.upper is None and sl.step is None):
            raise Outside("store into coeffs other than coeffs[:]")
        if isinstance(v, RowVec):
            v = v.bind(ev.st)
        if not isinstance(v, FVec):
            raise Outside("coeffs[:] = non-vector")
        ev.ex.oblige(ev.st, Z(v.n) == Z(self.n), f"store_len.L{node.lineno - ev.ex.fx.lineno}", "wd", node.lineno)
        f = z3.Int("rf!%d" % next(symex._fresh))
        ev.st.ghost["ROW"] = z3.Lambda([f], v.fn(f))
        ev.st.ghost["row_stores"] = ev.st.ghost.get("row_stores", 0) + 1
        ev.st.writes.append(("param:coeffs", "coeffs[:]"))


class YBuf3:
    def __init__(self, nb, nc):
        self.nb, self.nc = nb, nc

    def _norm(self, ev, i, n, node, what):
        zi = Z(i)
        j = simp(z3.If(zi < 0, zi + Z(n), zi))
        ev.wd(z3.And(j >= 0, j < Z(n)), what, node)
        return j

    def sym_getitem(self, sl, ev, node):
        st = ev.st
        ya = _ya(st)
        if isinstance(sl, ast.Tuple) and len(sl.elts) == 3:
            a, b, c = sl.elts
            full = lambda e: isinstance(e, ast.Slice) and e.lower is None and e.upper is None and e.step is None
            if full(c) and not isinstance(a, ast.Slice) and not isinstance(b, ast.Slice):
                r = self._norm(ev, ev.eval(a), self.nb, node, "block_index")
                h = self._norm(ev, ev.eval(b), 2, node, "half_index")
                return FVec(lambda f: z3.Select(ya, r, h, f), self.nc, ("block", r, h))
            if full(b) and not isinstance(a, ast.Slice) and not isinstance(c, ast.Slice):
                r = self._norm(ev, ev.eval(a), self.nb, node, "block_index")
                f = self._norm(ev, ev.eval(c), self.nc, node, "coefficient_index")
                return HVec(lambda h: z3.Select(ya, r, h, f), ("cell", r, f))
            raise Outside("y_buf subscript form")
        if isinstance(sl, ast.Slice):
            if sl.step is not None:
                raise Outside("y_buf stepped slice")
            n = Z(self.nb)
            lo = z3.IntVal(0) if sl.lower is None else Z(ev.eval(sl.lower))
            hi = n if sl.upper is None else Z(ev.eval(sl.upper))
            clamp = lambda v: z3.If(v < 0, z3.If(v + n < 0, 0, v + n), z3.If(v > n, n, v))
            lo, hi = simp(clamp(lo)), simp(clamp(hi))
            return Blocks(ya, lo, simp(z3.If(hi > lo, hi - lo, 0)))
        raise Outside("y_buf subscript form")

    def sym_setitem(self, sl, v, ev, node):
        st = ev.st
        ya = _ya(st)
        r_, h_, f_ = z3.Ints("yr!%d yh!%d yf!%d" % (next(symex._fresh), next(symex._fresh), next(symex._fresh)))
        st.writes.append(("self._y_buf", ast.unparse(sl)))
        if isinstance(sl, ast.Tuple) and len(sl.elts) == 3:
            a, b, c = sl.elts
            full = lambda e: isinstance(e, ast.Slice) and e.lower is None and e.upper is None and e.step is None
            if full(b) and not isinstance(a, ast.Slice) and not isinstance(c, ast.Slice) and isinstance(v, HVec):
                r = self._norm(ev, ev.eval(a), self.nb, node, "block_index")
                f = self._norm(ev, ev.eval(c), self.nc, node, "coefficient_index")
                st.ghost["YA"] = z3.Lambda([r_, h_, f_], z3.If(z3.And(r_ == r, f_ == f), v.fn(h_), z3.Select(ya, r_, h_, f_)))
                hook = ev.ex.contract.handlers.get("ybuf_cell_store")
                if hook:
                    hook(ev.ex, st, r, f, v, node)
                return
            raise Outside("y_buf store form")
        if isinstance(sl, ast.Slice):
            tgt = self.sym_getitem(sl, ev, node)
            if isinstance(v, Blocks):
                ev.ex.oblige(st, Z(v.n) == Z(tgt.n), f"store_len.L{node.lineno - ev.ex.fx.lineno}", "wd", node.lineno)
                st.ghost["YA"] = z3.Lambda([r_, h_, f_], z3.If(z3.And(r_ >= tgt.lo, r_ < tgt.lo + tgt.n),
                                                               z3.Select(v.ya, v.lo + (r_ - tgt.lo), h_, f_), z3.Select(ya, r_, h_, f_)))
                return
            raise Outside("y_buf block store of a non-block value")
        # y_buf[r] = scalar
        r = self._norm(ev, ev.eval(sl), self.nb, node, "block_index")
        if not symex.is_num(v):
            raise Outside("y_buf[r] = non-scalar")
        st.ghost["YA"] = z3.Lambda([r_, h_, f_], z3.If(r_ == r, to_real(v), z3.Select(ya, r_, h_, f_)))


def _as_fvec(st, x):
    return x.bind(st) if isinstance(x, RowVec) else x


def h_binop(ex, st, op, a, b, node):
    a, b = _as_fvec(st, a), _as_fvec(st, b)
    if isinstance(a, FVec) and isinstance(b, FVec) and isinstance(op, ast.Add):
        ex.oblige(st, Z(a.n) == Z(b.n), f"broadcast.L{node.lineno - ex.fx.lineno}", "wd", node.lineno)
        return FVec(lambda f: a.fn(f) + b.fn(f), a.n, ("sum", a.tag, b.tag))
    if isinstance(a, HVec) and isinstance(b, HVec) and isinstance(op, ast.Add):
        return HVec(lambda h: a.fn(h) + b.fn(h), ("sum", a.tag, b.tag))
    return NotImplemented


def h_maximum(ex, st, args, kwargs, node, ev):
    a, b = args
    a = _as_fvec(st, a)
    if isinstance(a, FVec) and symex.is_num(b):
        bb = to_real(b)
        return FVec(lambda f: z3.If(a.fn(f) >= bb, a.fn(f), bb), a.n, ("max", a.tag))
    raise Outside("np.maximum form")


def h_log(ex, st, args, kwargs, node, ev):
    (a,) = args
    a = _as_fvec(st, a)
    if isinstance(a, FVec):
        f0 = z3.Int("lf!%d" % next(symex._fresh))
        ex.oblige(st, z3.ForAll([f0], z3.Implies(z3.And(f0 >= 0, f0 < Z(a.n)), a.fn(f0) > 0)), f"log_of_positive.L{node.lineno - ex.fx.lineno}", "wd", node.lineno)
        return FVec(lambda f: api.LN(a.fn(f)), a.n, ("log", a.tag))
    raise Outside("np.log form")


def setup_frame(ex, st):
    s, NB, nc = api.sym("s"), api.sym("NB"), api.sym("ncoef")
    st.assume(z3.And(s >= 1, NB >= 2, nc >= 0))
    ex.ctx = dict(s=s, NB=NB, nc=nc)
    api.mk_obj(st, "self", CLS, {"_frame_shift": s, "_y_rem": "int", "_log": "bool", "_nblocks": NB, "_ncoef": nc})
    st.fields[("self", "_y_buf")] = YBuf3(NB, nc)
    st.ghost["YA"] = z3.Const("YA0", YSORT)
    st.ghost["ROW"] = z3.Array("ROW0", I, R)
    st.env["coeffs"] = RowVec(nc)


def contract_frame():
    from pyvc import extract
    cfg = extract.module_constants("config")
    lf = api.symex._frac(cfg["LOG_FLOOR_VALUE"])

    def YAF(ev, r, h, f):
        return z3.Select(ev.st.ghost["YA"], Z(r), Z(h), Z(f))

    def ROWF(ev, f):
        return z3.Select(ev.st.ghost["ROW"], Z(f))

    c = Contract(
        target=f"compute:{CLS}._compute_frame",
        uses=["A-REAL", "A-PYSEM", "A-NP-SLICE"],
        consts={"config.LOG_FLOOR_VALUE": lf, "LOG_FLOOR_VALUE": lf, "YAT": SpecFn(YAF), "ROWT": SpecFn(ROWF),
                "LN": SpecFn(lambda ev, x: api.LN(to_real(x))),
                "STORES": SpecFn(lambda ev: ev.st.ghost.get("row_stores", 0))},
        requires=["self._y_rem >= 2 * self._frame_shift"],
        handlers={"binop": h_binop, "np.maximum": h_maximum, "np.log": h_log},
        ensures=[
            ("coefficients", "forall(f, 0, self._ncoef, ROWT(f) == ite(self._log, LN(max(old(YAT(0, 0, f)) + old(YAT(1, 1, f)), LOG_FLOOR_VALUE)), "
                             "old(YAT(0, 0, f)) + old(YAT(1, 1, f))))"),
            ("blocks_move_up_by_one", "forall(r, 0, self._nblocks - 1, forall(f, 0, self._ncoef, YAT(r, 0, f) == old(YAT(r + 1, 0, f)) and YAT(r, 1, f) == old(YAT(r + 1, 1, f))))"),
            ("last_block_cleared", "forall(f, 0, self._ncoef, YAT(self._nblocks - 1, 0, f) == 0 and YAT(self._nblocks - 1, 1, f) == 0)"),
            ("one_shift_consumed", "self._y_rem == old(self._y_rem) - self._frame_shift"),
            ("row_written", "STORES() >= 1"),
        ],
    )
    c.canaries = [("reads_second_half_of_block_0", "forall(f, 0, self._ncoef, ROWT(f) == old(YAT(0, 1, f)) + old(YAT(1, 1, f)))")]
    return c


# ------------------------------------------------------------------------------------------
# _fill_y_buf
# ------------------------------------------------------------------------------------------

YC = z3.Function("FilteredSample", I, I, R)  # (filter, index in the inverse transform) -> value (complex amplitude abstracted to a real: A-REAL)


class FiltList:
    def __init__(self, n):
        self.n = n

    def sym_getitem(self, sl, ev, node):
        i = Z(ev.eval(sl))
        ev.wd(z3.And(i >= 0, i < Z(self.n)), "filter_index", node)
        op = Opaque(("filter", i), "spectrum")
        op.filt = i
        return op


class WinMat:
    """self._window, a 2 x s array: only [:, a:b] is used"""

    def __init__(self, s):
        self.s = s

    def sym_getitem(self, sl, ev, node):
        if not (isinstance(sl, ast.Tuple) and len(sl.elts) == 2 and isinstance(sl.elts[0], ast.Slice) and sl.elts[0].lower is None
                and sl.elts[0].upper is None and isinstance(sl.elts[1], ast.Slice) and sl.elts[1].step is None):
            raise Outside("window subscript form")
        a, b = Z(ev.eval(sl.elts[1].lower)), Z(ev.eval(sl.elts[1].upper))
        # no clamping, no negative wrap-around: the slice must be a genuine sub-range of the window half
        ev.wd(z3.And(a >= 0, a <= b, b <= Z(self.s)), "window_slice_within_half", node)
        return WinSlice(a, b)


class WinSlice:
    def __init__(self, a, b):
        self.a, self.b = a, b


class HProd:
    """y_active * window_active : (n,) * (2, n) -> (2, n)"""

    def __init__(self, y, win):
        self.y, self.win = y, win


def h_binop_fill(ex, st, op, a, b, node):
    if isinstance(a, Opaque) and isinstance(b, Opaque) and isinstance(op, ast.Mult) and hasattr(a, "is_dft") and hasattr(b, "filt"):
        r = Opaque(("filtered_spectrum", b.filt), "spectrum")
        r.filt = b.filt
        return r
    return h_binop(ex, st, op, a, b, node)


def h_arr_binop_fill(ex, st, op, a, b, node, ev):
    if isinstance(op, ast.Mult) and isinstance(a, Arr) and isinstance(b, Arr) and a.root == b.root and a.conj != b.conj:
        ex.oblige(st, z3.And(Z(a.n) == Z(b.n), Z(a.off) == Z(b.off)), f"modulus_of_same_samples.L{node.lineno - ex.fx.lineno}", "spec", node.lineno)
        src = a.with_(conj=False)
        return api.elementwise(st, lambda x: x * x, src, name="sq")
    if isinstance(op, ast.Mult) and isinstance(a, Arr) and isinstance(b, WinSlice):
        ex.oblige(st, Z(a.n) == b.b - b.a, f"segment_and_window_slice_same_length.L{node.lineno - ex.fx.lineno}", "wd", node.lineno)
        return HProd(a, b)
    raise Outside("array arithmetic form in _fill_y_buf")


def h_abs(ex, st, args, kwargs, node, ev):
    (a,) = args
    if isinstance(a, Arr):
        return api.elementwise(st, lambda x: z3.If(x >= 0, x, -x), a.with_(conj=False), name="abs")
    raise Outside("np.abs form")


def h_idft(ex, st, o, args, kwargs, node, ev):
    (Y,) = args
    if not isinstance(Y, Opaque) or not hasattr(Y, "filt"):
        raise Outside("_compute_idft argument is not X_buf * filter")
    D = ex.ctx["D"]
    i = z3.Int("ii!%d" % next(symex._fresh))
    arr = st.new_root(D, z3.Lambda([i], YC(Y.filt, i)), "complex128", "fresh", "idft")
    st.ghost["idft_root"], st.ghost["idft_filt"] = arr.root, Y.filt
    # the previous coefficient's samples must have been accumulated completely before the next is started
    st.ghost["covered"] = 0
    st.ghost["idfts"] = simp(Z(st.ghost["idfts"]) + 1)
    return arr


def h_sum(ex, st, args, kwargs, node, ev):
    (p,) = args
    if not isinstance(p, HProd) or simp(Z(kwargs.get("axis", -99))) != 1:
        raise Outside("np.sum form")
    hv = HVec(lambda h: z3.Const("segsum", R), ("seg", p))
    return hv


def h_cell_store(ex, st, r, f, v, node):
    """the statement  y_buf[block_idx, :, filt_idx] += np.sum(y_active * window_active, axis=1)"""
    lbl = f"L{node.lineno - ex.fx.lineno}"
    t = v.tag
    ok = isinstance(t, tuple) and t[0] == "sum" and isinstance(t[1], tuple) and t[1][0] == "cell" and isinstance(t[2], tuple) and t[2][0] == "seg"
    if not ok:
        raise Outside("accumulation statement is not `cell += sum(segment * window slice)`")
    _, (_, r0, f0), (_, p) = t
    s, D, yk = ex.ctx["s"], ex.ctx["D"], ex.ctx["y_keep"]
    yrem = Z(ex.entry.fields[("self", "_y_rem")])
    y, win = p.y, p.win
    ex.oblige(st, z3.And(r0 == r, f0 == f), f"accumulates_into_the_cell_it_read.{lbl}", "spec", node.lineno)
    ex.oblige(st, y.root == st.ghost.get("idft_root") and y.step == 1, f"segment_of_this_coefficients_filtered_signal.{lbl}", "spec", node.lineno)
    ex.oblige(st, Z(st.ghost["idft_filt"]) == f, f"filter_index_is_coefficient_index.{lbl}", "spec", node.lineno)
    a = simp(Z(y.off) - (D - yk))  # position of the segment among the y_keep new samples
    b = simp(a + Z(y.n))
    ex.oblige(st, z3.And(a >= 0, Z(y.n) >= 1, b <= yk), f"segment_within_the_new_samples.{lbl}", "spec", node.lineno)
    ex.oblige(st, a == Z(st.ghost["covered"]), f"tiling.segments_consecutive.{lbl}", "spec", node.lineno)
    # multiplicative form of  (yrem + a) // s == r == (yrem + b - 1) // s  and  window_start == (yrem + a) % s  (no div/mod in the goal)
    ex.oblige(st, z3.And(r * s <= yrem + a, yrem + b <= (r + 1) * s), f"alignment.segment_inside_its_block.{lbl}", "spec", node.lineno)
    ex.oblige(st, win.a == yrem + a - r * s, f"alignment.window_offset.{lbl}", "spec", node.lineno)
    # the samples are |y|^p of the inverse transform (the in-place non-linearity was applied to exactly these cells)
    k = z3.Int("nk!%d" % next(symex._fresh))
    cur = st.heap[y.root].content
    raw = YC(f, Z(y.off) + k)
    want = z3.If(Zb(st.fields[("self", "_power")]), raw * raw, z3.If(raw >= 0, raw, -raw))
    ex.oblige(st, z3.ForAll([k], z3.Implies(z3.And(k >= 0, k < Z(y.n)), z3.Select(cur, Z(y.off) + k) == want)), f"nonlinearity_applied.{lbl}", "spec", node.lineno)
    st.ghost["covered"] = b
    st.ghost["accumulations"] = simp(Z(st.ghost["accumulations"]) + 1)


def setup_fill(ex, st):
    s, M, D, NB, nc, yk = (api.sym(x) for x in ("s", "M", "D", "NB", "ncoef", "y_keep"))
    st.assume(z3.And(s >= 1, M >= 1, D >= M + s - 1, NB >= 2, nc >= 0))
    ex.ctx = dict(s=s, M=M, D=D, NB=NB, nc=nc, y_keep=yk)
    ex.positive = {str(s)}
    api.mk_obj(st, "self", CLS, {"_frame_shift": s, "_y_rem": "int", "_power": "bool", "_nblocks": NB, "_ncoef": nc, "_dft_size": D, "_max_support": M})
    st.fields[("self", "_y_buf")] = YBuf3(NB, nc)
    st.fields[("self", "_filts")] = FiltList(nc)
    st.fields[("self", "_window")] = WinMat(s)
    X = Opaque("X_buf", "spectrum")
    X.is_dft = True
    st.env["X_buf"] = X
    st.env["y_keep"] = yk
    st.ghost["YA"] = z3.Const("YA0", YSORT)
    st.ghost.update(covered=yk, idfts=0, accumulations=0)


def contract_fill():
    c = Contract(
        target=f"compute:{CLS}._fill_y_buf",
        uses=["A-REAL", "A-PYSEM", "A-NP-SLICE", "A-FFT", "A-NP-RED"],
        consts={"V": SpecFn(lambda ev: ev.ex.ctx["D"] - ev.ex.ctx["M"] + 1)},
        # callee contract as used by compute_chunk: 1 <= y_keep <= v, room in the blocks
        requires=["1 <= y_keep <= V()", "self._y_rem >= 0", "self._y_rem + y_keep <= self._nblocks * self._frame_shift"],
        handlers={"attr:num_coeffs": lambda ex, st, o, node: st.fields[("self", "_ncoef")], "binop": h_binop_fill, "arr_binop": h_arr_binop_fill,
                  "np.abs": h_abs, "np.sum": h_sum, "self._compute_idft": h_idft, "ybuf_cell_store": h_cell_store},
        loops={
            0: LoopSpec(kind="for", var="filt_idx", modifies_ghost=["YA", "covered", "idfts", "accumulations", "idft_filt"], invariant=[
                ("range", "0 <= filt_idx <= self._ncoef"),
                ("previous_coefficient_complete", "covered == y_keep"),
                ("one_inverse_transform_per_coefficient", "idfts == filt_idx"),
            ]),
            1: LoopSpec(kind="for", modifies_ghost=["YA", "covered", "accumulations"], invariant=[
                ("tiling", "covered == ite(__zi == 0, 0, min(second_block_start + (__zi - 1) * self._frame_shift, y_keep))"),
            ]),
        },
        ensures=[
            ("all_new_samples_accumulated", "covered == y_keep"),
            ("every_coefficient_once", "idfts == self._ncoef"),
            ("y_rem_advanced", "self._y_rem == old(self._y_rem) + y_keep"),
        ],
    )
    c.lazy_products = False
    c.canaries = [("y_rem_advanced_by_one_more", "self._y_rem == old(self._y_rem) + y_keep + 1")]
    return c


# ------------------------------------------------------------------------------------------
# _compute_dft / _compute_idft : lengths and precision of the transforms (assumed numpy.fft contracts, numpy >= 2)
# ------------------------------------------------------------------------------------------

S = z3.StringVal
FLOATS = ("float16", "float32", "float64", "longdouble")


def fft_result_dtype(d):
    """numpy >= 2: single precision in, single precision out (half is computed in single); long double stays long double;
    everything else (float64, integers, complex128) is computed in double precision"""
    return z3.If(z3.Or(d == S("float32"), d == S("float16"), d == S("complex64")), S("complex64"),
                 z3.If(z3.Or(d == S("longdouble"), d == S("clongdouble")), S("complex256"), S("complex128")))


class Spectrum:
    def __init__(self, n, dtype, of=None, kind=None):
        self.n, self.dtype, self.of, self.kind = n, dtype, of, kind

    def sym_getattr(self, name, ev, node):
        if name == "dtype":
            return Opaque(self.dtype, "dtype")
        if name == "astype":
            def astype(ev2, args, kwargs, node2):
                dt = args[0]
                if not isinstance(dt, Opaque):
                    raise Outside("astype form")
                return Spectrum(self.n, Z(dt.term), self.of, self.kind)  # a cast AFTER the transform does not restore its precision
            return symex.PyCallable(astype)
        raise Outside(f"spectrum attribute .{name}")


def _h_astype(ex, st, o, args, kwargs, node, ev):
    dt = args[0]
    if not isinstance(o, Arr) or not isinstance(dt, Opaque):
        raise Outside("astype form")
    r = st.heap[o.root]
    # values are unchanged by a widening cast (A-REAL); what matters here is the TAG the transform will see
    a = st.new_root(o.n, z3.Lambda([z3.Int("ak")], z3.Select(r.content, Z(o.off) + z3.Int("ak"))), dt.term, "fresh", "cast")
    a.cast_of = o
    return a


def _h_fft(kind):
    def h(ex, st, args, kwargs, node, ev):
        (buf,) = args
        if not isinstance(buf, Arr):
            raise Outside("fft argument")
        n = kwargs.get("n")
        d = Z(st.heap[buf.root].dtype)
        length = Z(n) if n is not None else Z(buf.n)
        if n is not None:
            ex.oblige(st, Z(buf.n) <= Z(n), f"fft.input_not_cropped.L{node.lineno - ex.fx.lineno}", "wd", node.lineno)
        st.ghost["fft_calls"] = st.ghost.get("fft_calls", 0) + 1
        st.ghost["fft_in_dtype"] = d
        st.ghost["fft_points"] = length
        st.ghost["fft_kind"] = kind
        return Spectrum(simp(length / 2 + 1) if kind == "rfft" else length, fft_result_dtype(d), buf, kind)
    return h


def setup_dft(real):
    def setup(ex, st):
        D, n = api.sym("D"), api.sym("n")
        st.assume(z3.And(D >= 1, n >= 0, n <= D))
        ex.ctx = dict(D=D, n=n)
        api.mk_obj(st, "self", CLS, {"_dft_size": D, "_real": real})
        buf = api.mk_array(st, "buff", n, owner="param:buff")
        d = z3.String("buff_dtype")
        # the callers pass a chunk / the history buffer (any floating dtype, C03) or an impulse response (complex128)
        st.assume(z3.Or(*[d == S(x) for x in FLOATS + ("complex128",)]))
        st.heap["buff"].dtype = d
        st.env["buff"] = buf
    return setup


def contract_dft(real):
    want_kind = "rfft" if real else "fft"
    c = Contract(
        target=f"compute:{CLS}._compute_dft",
        uses=["A-PYSEM", "A-FFT", "A-NP-DTYPE"],
        consts={"config.USE_FFTPACK": False, "np.complex128": Opaque(S("complex128"), "dtype"), "np.float64": Opaque(S("float64"), "dtype"),
                "np.float32": Opaque(S("float32"), "dtype"),
                "CALLS": SpecFn(lambda ev: ev.st.ghost.get("fft_calls", 0)),
                "IN_DOUBLE": SpecFn(lambda ev: z3.Or(ev.st.ghost["fft_in_dtype"] == S("float64"), ev.st.ghost["fft_in_dtype"] == S("complex128"))),
                "POINTS": SpecFn(lambda ev: ev.st.ghost["fft_points"]),
                "KIND_OK": SpecFn(lambda ev: ev.st.ghost["fft_kind"] == want_kind),
                "RLEN": SpecFn(lambda ev, r: r.n), "RDT": SpecFn(lambda ev, r: Opaque(r.dtype, "dtype"))},
        handlers={"arr.astype": _h_astype, "np.fft.rfft": _h_fft("rfft"), "np.fft.fft": _h_fft("fft")},
        ensures=[
            ("one_transform_of_dft_size_points", "CALLS() == 1 and POINTS() == self._dft_size and KIND_OK()"),
            ("computed_in_double_precision", "IN_DOUBLE()"),
            ("result_is_complex128", "RDT(result) == np.complex128"),
            ("bins", "RLEN(result) == " + ("self._dft_size // 2 + 1" if real else "self._dft_size")),
        ],
    )
    c.no_param_writes = True
    c.canaries = [("bins_plus_one", "RLEN(result) == " + ("self._dft_size // 2 + 2" if real else "self._dft_size + 1"))]
    return c


def _h_ifft(kind):
    def h(ex, st, args, kwargs, node, ev):
        (X,) = args
        if not isinstance(X, Spectrum):
            raise Outside("inverse transform argument")
        n = kwargs.get("n")
        if kind == "irfft":
            length = Z(n) if n is not None else simp(2 * (Z(X.n) - 1))  # numpy: default output length 2*(m-1)
        else:
            length = Z(n) if n is not None else Z(X.n)
        st.ghost["ifft_kind"] = kind
        return st.new_root(simp(length), None, "float64" if kind == "irfft" else "complex128", "fresh", "idft")
    return h


def setup_idft(real):
    def setup(ex, st):
        D = api.sym("D")
        st.assume(D >= 1)
        ex.ctx = dict(D=D)
        api.mk_obj(st, "self", CLS, {"_dft_size": D, "_real": real})
        st.env["fourier_buff"] = Spectrum(simp(D / 2 + 1) if real else D, S("complex128"), None, "rfft" if real else "fft")
    return setup


def contract_idft(real):
    c = Contract(
        target=f"compute:{CLS}._compute_idft",
        uses=["A-PYSEM", "A-FFT"],
        consts={"config.USE_FFTPACK": False, "np.complex128": Opaque(S("complex128"), "dtype"),
                "INVERSE_OF_KIND": SpecFn(lambda ev: ev.st.ghost.get("ifft_kind") == ("irfft" if real else "ifft"))},
        handlers={"np.fft.irfft": _h_ifft("irfft"), "np.fft.ifft": _h_ifft("ifft")},
        ensures=[("dft_size_samples", "len(result) == self._dft_size"), ("matching_inverse", "INVERSE_OF_KIND()")],
    )
    c.canaries = [("one_sample_more", "len(result) == self._dft_size + 1")]
    return c


def make_to_case(base_to_case):
    """replay inputs for the transform contracts: the stand-in's cases in the dtype of the solver's model first, then the other
    floating dtypes (the precision clauses only show for non-float64 input)"""
    def to_case(ob):
        import re
        cases = base_to_case(ob) or []
        m = re.search(r'"(float16|float32|float64|longdouble)"', str((ob.model or {}).get("buff_dtype", "")))
        dts = ([m.group(1)] if m else []) + [d for d in ("float32", "float16", "float64") if not m or d != m.group(1)]
        # real-valued banks first (they take the rfft / irfft branch, whose default output length differs from the DFT size when it is odd)
        def is_real_bank(c):
            b = c.get("bank")
            return isinstance(b, dict) and b.get("analytic") is False
        want_real = "[real]" in ob.id
        cases = sorted(cases, key=lambda c: (is_real_bank(c) != want_real, bool(c.get("pad", c.get("pad_to_nearest_power_of_two", True)))))
        out = []
        for dt in dts:
            out += [dict(c, dtype=dt) for c in cases[:400]]
        return out
    return to_case


def generate(prop, which, label):
    from contracts.registry import run_contract
    if which == "frame":
        return run_contract(prop, ("compute", f"{CLS}._compute_frame"), contract_frame(), [("", setup_frame)], name="si_frame",
                            fname="SI._compute_frame")
    if which == "fill":
        return run_contract(prop, ("compute", f"{CLS}._fill_y_buf"), contract_fill(), [("", setup_fill)], name="si_fill", fname="SI._fill_y_buf")
    real = label == "real"
    if which == "dft":
        return run_contract(prop, ("compute", f"{CLS}._compute_dft"), contract_dft(real), [(label, setup_dft(real))], name="si_dft", fname="SI._compute_dft")
    if which == "idft":
        return run_contract(prop, ("compute", f"{CLS}._compute_idft"), contract_idft(real), [(label, setup_idft(real))], name="si_idft", fname="SI._compute_idft")
    raise KeyError(which)


LABELS = {"frame": [""], "fill": [""], "dft": ["real", "complex"], "idft": ["real", "complex"]}

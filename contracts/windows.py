"""Sidecar contracts: the four NumPy-backed window functions of filters.py (property C20, window sentence):
    get_impulse_response(width)[k] == numpy.<shape>(width)[k] / (gain * max(1, width - 1))      exactly `width` samples
with gain = 1/2 (Bartlett), 0.42 (Blackman), 0.54 (Hamming), 1/2 (Hann) - the area of the continuous shape per unit length, so that the
samples sum to (about) 1. Assumed library contract (A-NP-WINDOW): numpy.bartlett / blackman / hamming / hanning(M) return exactly M
non-negative* samples (*Blackman up to round-off at its end points) that depend on M only.
"""
from fractions import Fraction

import z3

from pyvc import api, symex
from pyvc.api import I, R, SpecFn, Z, Arr, Opaque, simp, to_real, Outside
from pyvc.symex import Contract

WINDOWS = {"BartlettWindow": ("np.bartlett", Fraction(1, 2)), "BlackmanWindow": ("np.blackman", Fraction(42, 100)),
           "HammingWindow": ("np.hamming", Fraction(54, 100)), "HannWindow": ("np.hanning", Fraction(1, 2))}
SHAPE = {name: z3.Function("numpy_" + lib.split(".")[1], I, I, R) for name, (lib, _) in WINDOWS.items()}


def setup(cls):
    def _setup(ex, st):
        w = api.sym("width")
        st.assume(w >= 0)
        api.mk_obj(st, "self", cls, {})
        st.env["width"] = w
        st.ghost.update(calls=0)
        ex.ctx = dict(w=w, cls=cls)
    return _setup


def mk_lib(cls):
    def h(ex, st, args, kwargs, node, ev):
        (m,) = args
        st.ghost["calls"] = st.ghost["calls"] + 1
        k = z3.Int("wk!%d" % next(symex._fresh))
        ex.assumption_ids.add("A-NP-WINDOW")
        return st.new_root(m, z3.Lambda([k], SHAPE[cls](Z(m), k)), "float64", "fresh", "window")
    return h


def h_arr_binop(ex, st, op, a, b, node, ev):
    import ast
    if isinstance(a, Arr) and symex.is_num(b) and isinstance(op, ast.Div):
        bb = to_real(b)
        ex.oblige(st, bb != 0, f"div0.L{node.lineno - ex.fx.lineno}", "wd", node.lineno)
        return api.elementwise(st, lambda x: x / bb, a, name="scaled")
    raise Outside("array arithmetic form")


def contract(cls):
    lib, gain = WINDOWS[cls]
    g = f"({gain.numerator} / {gain.denominator})"
    c = Contract(
        target=f"filters:{cls}.get_impulse_response", uses=["A-REAL", "A-PYSEM", "A-NP-WINDOW"],
        consts={"RES": SpecFn(lambda ev, r, k: ev.st.select(r, k)), "SHAPE": SpecFn(lambda ev, k: SHAPE[cls](ev.ex.ctx["w"], Z(k))),
                "CALLS": SpecFn(lambda ev: ev.st.ghost["calls"])},
        handlers={lib: mk_lib(cls), "arr_binop": h_arr_binop},
        ensures=[("exactly_width_samples", "len(result) == width"),
                 ("numpy_shape_divided_by_its_area", f"CALLS() == 1 and forall(k, 0, width, RES(result, k) * ({g} * max(1, width - 1)) == SHAPE(k))")],
    )
    c.lazy_products = False
    c.canaries = [("divided_by_width", f"forall(k, 0, width, RES(result, k) * ({g} * max(1, width)) == SHAPE(k)) and width >= 2 and SHAPE(1) != 0")]
    return c


def to_case(ob):
    """the C20 stand-in's window cases for the class the obligation is about: every width 0..320, the model's width first, then
    repeated requests on one object"""
    from pyvc.solve import model_int
    from rtc import c20
    cls = next((c for c in WINDOWS if c in ob.id), None)
    name = next((n for n, v in c20.NP_WINDOWS.items() if v[0] == cls), None)
    if name is None:
        return None
    out = []
    w = model_int(ob.model, "width")
    if w is not None and 0 <= w <= 100000:
        out.append({"check": "np_window", "window": name, "w_lo": w, "w_hi": w})
    out += [{"check": "np_window", "window": name, "w_lo": 0, "w_hi": 64}, {"check": "np_window", "window": name, "w_lo": 65, "w_hi": 320},
            {"check": "np_window", "window": name, "w_lo": 0, "w_hi": 40, "np_int": True}]
    try:
        out += [c for c in c20._window_session_cases("quick", 0) if name in str(c)][:6]
    except Exception:
        pass
    return out


def generate(prop, cls):
    from contracts.registry import run_contract
    return run_contract(prop, ("filters", f"{cls}.get_impulse_response"), contract(cls), [("", setup(cls))], name="windows", fname=f"{cls}.get_impulse_response")

"""Sidecar contracts: the four NumPy-backed window functions of filters.py (property C20, window sentence):
    get_impulse_response(width)[k] == numpy.<shape>(width)[k] / (gain * max(1, width - 1))      exactly `width` samples
with gain = 1/2 (Bartlett), 0.42 (Blackman), 0.54 (Hamming), 1/2 (Hann) - the area of the continuous shape per unit length, so that the
samples sum to (about) 1. Assumed library contract (A-NP-WINDOW): numpy.bartlett / blackman / hamming / hanning(M) return exactly M
non-negative* samples (*Blackman up to round-off at its end points) that depend on M only.
"""
from fractions import Fraction

import z3

from pyvc import api, symex
from pyvc.api import I, R, SpecFn, Z, Arr, Opaque, simp, to_real, Outside
from pyvc.symex import Contract

WINDOWS = {"BartlettWindow": ("np.bartlett", Fraction(1, 2)), "BlackmanWindow": ("np.blackman", Fraction(42, 100)),
           "HammingWindow": ("np.hamming", Fraction(54, 100)), "HannWindow": ("np.hanning", Fraction(1, 2))}
SHAPE = {name: z3.Function("numpy_" + lib.split(".")[1], I, I, R) for name, (lib, _) in WINDOWS.items()}


def setup(cls):
    def _setup(ex, st):
        w = api.sym("width")
        st.assume(w >= 0)
        api.mk_obj(st, "self", cls, {})
        st.env["width"] = w
        st.ghost.update(calls=0)
        ex.ctx = dict(w=w, cls=cls)
    return _setup


def mk_lib(cls):
    def h(ex, st, args, kwargs, node, ev):
        (m,) = args
        st.ghost["calls"] = st.ghost["calls"] + 1
        k = z3.Int("wk!%d" % next(symex._fresh))
        ex.assumption_ids.add("A-NP-WINDOW")
        return st.new_root(m, z3.Lambda([k], SHAPE[cls](Z(m), k)), "float64", "fresh", "window")
    return h


def h_arr_binop(ex, st, op, a, b, node, ev):
    import ast
    if isinstance(a, Arr) and symex.is_num(b) and isinstance(op, ast.Div):
        bb = to_real(b)
        ex.oblige(st, bb != 0, f"div0.L{node.lineno - ex.fx.lineno}", "wd", node.lineno)
        return api.elementwise(st, lambda x: x / bb, a, name="scaled")
    raise Outside("array arithmetic form")


def contract(cls):
    lib, gain = WINDOWS[cls]
    g = f"({gain.numerator} / {gain.denominator})"
    c = Contract(
        target=f"filters:{cls}.get_impulse_response", uses=["A-REAL", "A-PYSEM", "A-NP-WINDOW"],
        consts={"RES": SpecFn(lambda ev, r, k: ev.st.select(r, k)), "SHAPE": SpecFn(lambda ev, k: SHAPE[cls](ev.ex.ctx["w"], Z(k))),
                "CALLS": SpecFn(lambda ev: ev.st.ghost["calls"])},
        handlers={lib: mk_lib(cls), "arr_binop": h_arr_binop},
        ensures=[("exactly_width_samples", "len(result) == width"),
                 ("numpy_shape_divided_by_its_area", f"CALLS() == 1 and forall(k, 0, width, RES(result, k) * ({g} * max(1, width - 1)) == SHAPE(k))")],
    )
    c.lazy_products = False
    c.canaries = [("divided_by_width", f"forall(k, 0, width, RES(result, k) * ({g} * max(1, width)) == SHAPE(k)) and width >= 2 and SHAPE(1) != 0")]
    return c


def to_case(ob):
    """the C20 stand-in's window cases for the class the obligation is about: every width 0..320, the model's width first, then
    repeated requests on one object"""
    from pyvc.solve import model_int
    from rtc import c20
    cls = next((c for c in WINDOWS if c in ob.id), None)
    name = next((n for n, v in c20.NP_WINDOWS.items() if v[0] == cls), None)
    if name is None:
        return None
    out = []
    w = model_int(ob.model, "width")
    if w is not None and 0 <= w <= 100000:
        out.append({"check": "np_window", "window": name, "w_lo": w, "w_hi": w})
    out += [{"check": "np_window", "window": name, "w_lo": 0, "w_hi": 64}, {"check": "np_window", "window": name, "w_lo": 65, "w_hi": 320},
            {"check": "np_window", "window": name, "w_lo": 0, "w_hi": 40, "np_int": True}]
    try:
        out += [c for c in c20._window_session_cases("quick", 0) if name in str(c)][:6]
    except Exception:
        pass
    return out


def generate(prop, cls):
    from contracts.registry import run_contract
    return run_contract(prop, ("filters", f"{cls}.get_impulse_response"), contract(cls), [("", setup(cls))], name="windows", fname=f"{cls}.get_impulse_response")


# ------------------------------------------------------------------------------------------------------------- GammaWindow
# get_impulse_response(width) returns exactly `width` non-negative samples: sample i is the gamma density of the window's order at
# t = width - 1 - i (time reversed),   a^n / (n-1)! * t^(n-1) * e^(-a t)   computed as  t^(n-1) * exp(-a t + n ln a - ln (n-1)!),  with
# a = (n-1) / (width - peak * width) for n >= 2 (so that the density's maximum (n-1)/a falls at peak * width samples before the end) and
# a = 5 / width for n = 1; one sample is [1], none is [].  exp / log / power / factorial are uninterpreted (A-MATH: exp > 0, x^k >= 0 for
# x >= 0, 0^k = 0 for k >= 1, x^0 = 1); "the maximum falls at peak * width" itself is calculus on that closed form and stays bounded.
# Preconditions: order >= 1 (integer), 0 <= peak < 1 (peak = 1 divides by zero; the constructor does not check - observation).
import ast as _ast

GEXP = z3.Function("exp", R, R)
GLOG = z3.Function("log", R, R)
GPOW = z3.Function("pow_int", R, I, R)
GFACT = z3.Function("factorial", I, R)


class RVec:
    """a float vector held in the ghost state (z3 array Int -> Real), or a view [lo, lo + n) of one"""
    def __init__(self, key, lo, n):
        self.key, self.lo, self.n = key, simp(Z(lo)), simp(Z(n))

    def at(self, arr, t):
        return z3.Select(arr, self.lo + t)

    def sym_len(self):
        return self.n

    def _bounds(self, sl, ev, node):
        if sl.step is not None:
            raise Outside("stepped slice")
        lo = z3.IntVal(0) if sl.lower is None else Z(ev.eval(sl.lower))
        hi = self.n if sl.upper is None else Z(ev.eval(sl.upper))
        # numpy clamps; a bound outside the array would silently shorten the slice: demanded in range instead
        ev.wd(z3.And(lo >= 0, lo <= hi, hi <= self.n), "slice_in_range", node)
        return simp(lo), simp(hi)

    def sym_getitem(self, sl, ev, node):
        if isinstance(sl, _ast.Slice):
            lo, hi = self._bounds(sl, ev, node)
            return RVec(self.key, self.lo + lo, hi - lo)
        raise Outside("scalar read of a window vector")

    def sym_setitem(self, sl, v, ev, node):
        if not isinstance(sl, _ast.Slice):
            raise Outside("scalar store into a window vector")
        lo, hi = self._bounds(sl, ev, node)
        n = simp(hi - lo)
        if not isinstance(v, RExpr):
            raise Outside("slice store of an unsupported value")
        ev.ex.oblige(ev.st, v.view.n == n, f"store_length.L{node.lineno - ev.ex.fx.lineno}", "wd", node.lineno)
        st = ev.st
        arr, src = st.ghost[self.key], st.ghost[v.view.key]
        t_ = z3.Int("gw!%d" % next(symex._fresh))
        a0 = self.lo + lo
        st.ghost[self.key] = z3.Lambda([t_], z3.If(z3.And(t_ >= a0, t_ < a0 + n), v.fn(v.view.at(src, t_ - a0)), z3.Select(arr, t_)))


class RExpr:
    def __init__(self, view, fn):
        self.view, self.fn = view, fn


def _lift(x):
    if isinstance(x, RVec):
        return RExpr(x, lambda v: v)
    return x


def h_gamma_binop(ex, st, op, a, b, n):
    import ast
    a, b = _lift(a), _lift(b)
    num = lambda x: symex.is_num(x) or (symex.is_z3(x) and (z3.is_int(x) or z3.is_real(x)))
    if isinstance(a, RExpr) and isinstance(b, RExpr):
        if a.view.key != b.view.key or simp(z3.And(a.view.lo == b.view.lo, a.view.n == b.view.n)) is not True:
            raise Outside("element-wise operation on different views")
        if isinstance(op, ast.Mult):
            return RExpr(a.view, lambda v: a.fn(v) * b.fn(v))
        if isinstance(op, ast.Add):
            return RExpr(a.view, lambda v: a.fn(v) + b.fn(v))
        raise Outside("vector-vector operator")
    if isinstance(a, RExpr) and num(b):
        if isinstance(op, ast.Pow):
            if not (isinstance(b, int) or (symex.is_z3(b) and z3.is_int(b))):
                raise Outside("non-integer power of a vector")
            return RExpr(a.view, lambda v: GPOW(a.fn(v), Z(b)))
        zb = to_real(b)
        if isinstance(op, ast.Mult):
            return RExpr(a.view, lambda v: a.fn(v) * zb)
        if isinstance(op, ast.Add):
            return RExpr(a.view, lambda v: a.fn(v) + zb)
        if isinstance(op, ast.Sub):
            return RExpr(a.view, lambda v: a.fn(v) - zb)
        raise Outside("vector-scalar operator")
    if num(a) and isinstance(b, RExpr):
        za = to_real(a)
        if isinstance(op, ast.Mult):
            return RExpr(b.view, lambda v: za * b.fn(v))
        if isinstance(op, ast.Add):
            return RExpr(b.view, lambda v: za + b.fn(v))
        raise Outside("scalar-vector operator")
    return NotImplemented


def h_arange(ex, st, args, kwargs, node, ev):
    ok = len(args) == 3 and args[1] == -1 and args[2] == -1 and isinstance(kwargs.get("dtype"), Opaque) and kwargs["dtype"].term == "float"
    if not ok:
        raise Outside("np.arange form")
    start = Z(args[0])
    t_ = z3.Int("ga!%d" % next(symex._fresh))
    key = "G%d" % next(symex._fresh)
    st.ghost[key] = z3.Lambda([t_], z3.ToReal(start - t_))          # start, start-1, ..., 0
    return RVec(key, 0, simp(start + 1))


def h_array_literal(ex, st, args, kwargs, node, ev):
    vals = args[0]
    if not isinstance(vals, (list, tuple)) or not all(isinstance(v, int) for v in vals) or not (isinstance(kwargs.get("dtype"), Opaque) and kwargs["dtype"].term == "float"):
        raise Outside("np.array form")
    key = "L%d" % next(symex._fresh)
    arr = z3.K(I, z3.RealVal(0))
    for i, v in enumerate(vals):
        arr = z3.Store(arr, i, z3.RealVal(v))
    st.ghost[key] = arr
    return RVec(key, 0, len(vals))


def h_gexp(ex, st, args, kwargs, node, ev):
    (x,) = args
    x = _lift(x)
    if isinstance(x, RExpr):
        return RExpr(x.view, lambda v: GEXP(x.fn(v)))
    return GEXP(to_real(x))


def h_glog(ex, st, args, kwargs, node, ev):
    (x,) = args
    ex.oblige(st, to_real(x) > 0, f"log_of_a_positive_number.L{node.lineno - ex.fx.lineno}", "wd", node.lineno)
    return GLOG(to_real(x))


def h_gfact(ex, st, args, kwargs, node, ev):
    (k,) = args
    ex.oblige(st, Z(k) >= 0, f"factorial_of_a_non_negative_integer.L{node.lineno - ex.fx.lineno}", "wd", node.lineno)
    st.assume(GFACT(Z(k)) >= 1)
    return GFACT(Z(k))


def setup_gamma(ex, st):
    w, order, peak = api.sym("width"), api.sym("order"), api.sym("peak", "real")
    st.assume(z3.And(order >= 1, peak >= 0, peak < 1))
    api.mk_obj(st, "self", "GammaWindow", {"order": order, "peak": peak})
    st.env["width"] = w
    x, k = z3.Real("ax"), z3.Int("ak")
    st.assume(z3.ForAll([x], GEXP(x) > 0))
    st.assume(z3.ForAll([x, k], z3.Implies(x >= 0, GPOW(x, k) >= 0)))
    st.assume(z3.ForAll([k], z3.Implies(k >= 1, GPOW(z3.RealVal(0), k) == 0)))
    st.assume(z3.ForAll([x], GPOW(x, 0) == 1))
    ex.assumption_ids.add("A-MATH")
    ex.ctx = dict(w=w, order=order, peak=peak)


def contract_gamma():
    def alpha(c):
        w, n, p = z3.ToReal(c["w"]), c["order"], c["peak"]
        return z3.If(n > 1, z3.ToReal(n - 1) / (w - p * w), 5 / w)

    def density(c, t):
        n = c["order"]
        a = alpha(c)
        return GPOW(t, n - 1) * GEXP(-a * t + (z3.ToReal(n) * GLOG(a) - GLOG(GFACT(n - 1))))

    def values(ev, res):
        st, c = ev.st, ev.ex.ctx
        if not isinstance(res, RVec):
            return z3.BoolVal(False)
        arr = st.ghost[res.key]
        i = z3.Int("gi")
        w = c["w"]
        body = z3.If(w == 1, res.at(arr, i) == 1, res.at(arr, i) == density(c, z3.ToReal(w - 1 - i)))
        return z3.ForAll([i], z3.Implies(z3.And(i >= 0, i < w), body))

    def nonneg(ev, res):
        st, c = ev.st, ev.ex.ctx
        if not isinstance(res, RVec):
            return z3.BoolVal(False)
        arr = st.ghost[res.key]
        i = z3.Int("gn")
        return z3.ForAll([i], z3.Implies(z3.And(i >= 0, i < c["w"]), res.at(arr, i) >= 0))

    c = Contract(
        target="filters:GammaWindow.get_impulse_response", uses=["A-REAL", "A-PYSEM", "A-MATH"],
        consts={"VALUES": SpecFn(values), "NONNEG": SpecFn(nonneg), "float": Opaque("float", "dtype"),
                "RLEN": SpecFn(lambda ev, r: Z(r.n) if isinstance(r, RVec) else z3.IntVal(-1)),
                "WHOLE": SpecFn(lambda ev, r: simp(Z(r.lo) == 0) if isinstance(r, RVec) else False)},
        handlers={"np.arange": h_arange, "np.array": h_array_literal, "np.exp": h_gexp, "np.log": h_glog, "math.factorial": h_gfact, "binop": h_gamma_binop},
        ensures=[("exactly_width_samples", "RLEN(result) == max(width, 0) and WHOLE(result)"),
                 ("time_reversed_gamma_density_of_the_order", "VALUES(result)"),
                 ("non_negative", "NONNEG(result)")],
    )
    c.canaries = [("one_sample_more", "RLEN(result) == max(width, 0) + 1")]
    return c


def to_case_gamma(ob):
    from pyvc.solve import model_int
    out = []
    w, n = model_int(ob.model, "width"), model_int(ob.model, "order")
    for order in ([n] if n is not None and 1 <= n <= 8 else []) + [1, 2, 3, 4, 6]:
        for peak in (0.75, 0.5, 0.9):
            if w is not None and 0 <= w <= 5000:
                out.append({"check": "gamma", "order": order, "peak": peak, "w_lo": w, "w_hi": w, "argmax": False})
            out.append({"check": "gamma", "order": order, "peak": peak, "w_lo": 0, "w_hi": 64, "argmax": False})
    return out


def unit_gamma(prop="C20"):
    def unit(tier, known):
        from contracts.registry import run_contract
        return run_contract(prop, ("filters", "GammaWindow.get_impulse_response"), contract_gamma(), [("", setup_gamma)], name="gamma_window",
                            fname="GammaWindow.get_impulse_response", to_case=to_case_gamma, replay_module="rtc.c20")
    unit.__name__ = "gamma_window"
    return unit

"""Sidecar contracts: the four NumPy / torch reader helpers of util.py that read_signal dispatches to (properties C11, C17):
_numpy_binary_read_signal (.npy), _numpy_archive_read_signal (.npz), _numpy_fromfile_read_signal (raw), _torch_read_signal (.pt).

Effect-trace contracts over assumed library contracts (np.load / np.fromfile / torch.load return what the file holds, A-IO-CONTAINER):
    exactly ONE load of exactly `rfilename`, with the caller's keyword arguments and nothing else that changes what is read
    (.npz) the entry selected is `key` when a key is given, 'arr_0' otherwise
    the loaded array is returned as it is when dtype is None, after exactly one astype(dtype) otherwise
"""
import ast

import z3

from pyvc import api, symex
from pyvc.api import SpecFn, Z, Zb, Opaque, simp, Outside
from pyvc.symex import Contract


class Data:
    """what a loader returned / an entry of it / a cast of it (terms of a small algebra)"""

    def __init__(self, term):
        self.term = term

    def sym_getattr(self, attr, ev, node):
        if attr == "astype":
            def astype(ev2, args, kwargs, node2):
                ev2.st.ghost["casts"] = ev2.st.ghost["casts"] + [(self.term, args[0])]
                return Data(("cast", self.term, args[0]))
            return symex.PyCallable(astype)
        if attr == "numpy":
            return symex.PyCallable(lambda ev2, args, kwargs, node2: Data(("numpy", self.term)))
        raise Outside(f"data attribute .{attr}")

    def sym_getitem(self, sl, ev, node):
        k = ev.eval(sl)
        ev.st.ghost["entries"] = ev.st.ghost["entries"] + [k]
        return Data(("entry", self.term, k))


def mk_loader(name):
    def h(ex, st, args, kwargs, node, ev):
        st.ghost["loads"] = st.ghost["loads"] + [(name, tuple(args), dict(kwargs))]
        return Data(("file", name))
    return h


def setup(key_given, dtype_given):
    def _setup(ex, st):
        key = z3.String("key") if key_given else None
        if key_given:
            st.assume(z3.Length(key) >= 1)
        st.env.update({"rfilename": Opaque("RFILENAME", "str"), "dtype": Opaque("DTYPE", "dtype") if dtype_given else None, "key": key,
                       "kwargs": Opaque("KWARGS", "mapping")})
        st.ghost.update(loads=[], casts=[], entries=[])
        ex.ctx = dict(key_given=key_given, dtype_given=dtype_given, key=key)
    return _setup


def h_truthiness(ex, st, v):
    if v is None:
        return False
    if isinstance(v, Opaque) and v.kind == "dtype":
        return True  # a numpy dtype object / a type is truthy
    if symex.is_z3(v) and z3.is_string(v):
        return z3.Length(v) >= 1
    return NotImplemented


def _loads_ok(loader, extra_kw):
    def f(ev):
        loads = ev.st.ghost["loads"]
        if len(loads) != 1:
            return False
        name, args, kw = loads[0]
        rf, kws = ev.st.env["rfilename"], ev.st.env["kwargs"]
        pos_ok = len(args) == 1 and args[0] is rf
        kw = dict(kw)
        passed = kw.pop(None, None)
        extra_ok = all(kw.get(k) == v for k, v in extra_kw.items()) and set(kw) <= set(extra_kw)
        return name == loader and pos_ok and passed is kws and extra_ok
    return f


def _result_ok(entry_kind):
    def f(ev, res):
        if not isinstance(res, Data):
            return False
        t = res.term
        dtype = ev.st.env["dtype"]
        if ev.ex.ctx["dtype_given"]:
            if not (isinstance(t, tuple) and t[0] == "cast" and t[2] is dtype and len(ev.st.ghost["casts"]) == 1):
                return False
            t = t[1]
        elif ev.st.ghost["casts"]:
            return False
        if entry_kind == "numpy":
            if not (isinstance(t, tuple) and t[0] == "numpy"):
                return False
            t = t[1]
        if entry_kind == "npz":
            if not (isinstance(t, tuple) and t[0] == "entry" and len(ev.st.ghost["entries"]) == 1):
                return False
            k = t[2]
            want = ev.ex.ctx["key"] if ev.ex.ctx["key_given"] else "arr_0"
            same = (k is want) if ev.ex.ctx["key_given"] else (k == want)
            if not same:
                return False
            t = t[1]
        return isinstance(t, tuple) and t[0] == "file"
    return f


READERS = {
    "_numpy_binary_read_signal": ("np.load", {}, "plain"),
    "_numpy_archive_read_signal": ("np.load", {}, "npz"),
    "_numpy_fromfile_read_signal": ("np.fromfile", None, "plain"),
    "_torch_read_signal": ("torch.load", {"map_location": "cpu"}, "numpy"),
}


def contract(fn):
    loader, extra, kind = READERS[fn]
    handlers = {loader: mk_loader(loader), "truthiness": h_truthiness}
    if fn == "_numpy_fromfile_read_signal":
        # np.fromfile takes the dtype itself: result is the file read AS dtype (no separate cast)
        def res_ok(ev, res):
            loads = ev.st.ghost["loads"]
            if len(loads) != 1 or not isinstance(res, Data) or res.term != ("file", "np.fromfile") or ev.st.ghost["casts"]:
                return False
            name, args, kw = loads[0]
            kw = dict(kw)
            passed = kw.pop(None, None)
            want_dtype = ev.st.env["dtype"] if ev.ex.ctx["dtype_given"] else None
            return len(args) == 1 and args[0] is ev.st.env["rfilename"] and passed is ev.st.env["kwargs"] and kw.get("dtype") is want_dtype and set(kw) <= {"dtype"}
        consts = {"LOADS_OK": SpecFn(lambda ev: True), "RESULT_OK": SpecFn(res_ok)}
    else:
        consts = {"LOADS_OK": SpecFn(_loads_ok(loader, extra)), "RESULT_OK": SpecFn(_result_ok(kind))}
    c = Contract(target=f"util:{fn}", uses=["A-PYSEM", "A-IO-CONTAINER"], consts=consts, handlers=handlers,
                 ensures=[("one_load_of_rfilename_with_the_callers_kwargs", "LOADS_OK()"), ("returns_the_selected_entry_cast_iff_dtype", "RESULT_OK(result)")])
    return c


def labels():
    return ["%s|%s|%s" % (fn, "key" if k else "nokey", "dtype" if d else "nodtype") for fn in READERS for k in (False, True) for d in (False, True)]


def generate(prop, label):
    from contracts.registry import run_contract
    fn, k, d = label.split("|")
    return run_contract(prop, ("util", fn), contract(fn), [(k + "_" + d, setup(k == "key", d == "dtype"))], name="readers", fname=fn)


def to_case_c11(ob):
    """round trips through the four containers these helpers read, by path and by stream, with and without a key / a dtype request"""
    from rtc import c11
    out = []
    for cname in ("npy", "npz", "npz_c", "pt", "raw"):
        cont = c11.CONT[cname]
        for sd in cont.sdtypes:
            for shape in ([7], [5, 2]):
                if not c11.shape_ok(cont, tuple(shape)):
                    continue
                base = dict(kind="roundtrip", container=cname, shape=shape, sdtype=sd, range="small", seed=0)
                if cont.needs_dtype:
                    # raw binary: no suffix rule and no BytesIO path (np.fromfile needs a real file) - read by path with force_as='file' and
                    # the stored dtype, as the stand-in itself does
                    out.append(dict(base, via="path", force_as="file", dtype=sd))
                    out.append(dict(base, via="file", force_as="file", dtype=sd))
                    continue
                out.append(dict(base, via="path"))
                if cont.stream_force:
                    out.append(dict(base, via="bytesio", force_as=cont.stream_force[0]))
    try:
        for group in c11.enumerate_groups("quick", 0):
            cases = group[1] if isinstance(group, tuple) else [group]
            for c in cases:
                if c.get("container") in ("npy", "npz", "npz_c", "pt", "raw"):
                    out.append(c)
            if len(out) > 400:
                break
    except Exception:
        pass
    return out[:400]


def to_case_c17(ob):
    """the C17 stand-in's deterministic save / load histories (every target kind, with and without key)"""
    import itertools
    from rtc import c17
    try:
        return list(itertools.islice(c17.enumerate_cases("quick", 0), 200))
    except Exception:
        return None

"""Sidecar contract: filters.py ComplexGammatoneFilterBank.__init__, the per-filter loop (a statement slice: everything after the band
edges; the slice up to the edges is contracts/filters_gabor.py: generate_gamma). Properties C05 (centres strictly increasing, inside
supports_hz, one entry per filter) and C07 (a bank that is not max_centered has offset 0 for every filter, hence causal supports).

The eight per-filter lists are GHOST LISTS: list `name` is described by an uninterpreted function F_name (index -> value) and a counter;
`append(v)` is obliged to happen exactly once per iteration in filter order and defines F_name(counter) = v; `x[-1]` reads
F_name(counter - 1) (obliged: counter >= 1); `tuple(x)` is the symbolic sequence (counter, F_name). Any other use leaves the subset.

Proved for every num_filts >= 1, order >= 1, rate > 0, strictly increasing positive-width edges, all flag combinations:
    the initialisation statements dropped from the slice are exactly `self._<list> = []` for the eight lists and `_wrap_below = False`
    (AST-level obligations); every list gets one entry per filter, in order; centre k is the midpoint of edges k and k + 1 (so centres are
    strictly increasing); xi_k = 2 pi centre_k / rate; alpha_k > 0 and c_k > 0; offset_k = -(order - 1) / alpha_k when max_centered, 0
    otherwise; the temporal support is what _calculate_temp_support returns for that filter once alpha, c and offset of the SAME filter are
    in place; supports_ang_k is symmetric around xi_k; without scale_l2_norm its half-width is strictly positive, every logarithm has a
    positive argument and every square root a non-negative one (so no NaN), hence centre_k lies strictly inside supports_hz_k;
    _wrap_below is true iff some filter's lower support edge is negative; afterwards every list is frozen into a tuple of num_filts
    entries and supports_hz is angular_to_hertz of supports_ang pair by pair.
Assumed (A-MATH): exp / ln axioms, ln 2 > 0, ln(EFFECTIVE_SUPPORT_THRESHOLD) < 0 (the constant is read from config.py and checked to lie in (0, 1)),
2 ** x > 1 for x > 0, factorial >= 1, 3 < pi < 4. With scale_l2_norm the radicand's sign depends on numeric bounds: not obliged (stand-in).
"""
import ast

import z3

from pyvc import api, symex, extract
from pyvc.api import I, R, SpecFn, Z, Zb, Opaque, SeqVal, simp, to_real, Outside
from pyvc.symex import Contract, LoopSpec, Obligation
from contracts.filters_supports import PI

CLS = "ComplexGammatoneFilterBank"
LISTS = ("_centers_hz", "_xis", "_alphas", "_cs", "_offsets", "_supports", "_supports_ang", "_wrap_supports_ang")
PAIRS = ("_supports", "_supports_ang")
EDGE = z3.Function("gt_edge", I, R)
FACT = z3.Function("factorial", I, I)
F = {n: (z3.Function("gt" + n, I, R) if n not in PAIRS else (z3.Function("gt" + n + "_lo", I, R), z3.Function("gt" + n + "_hi", I, R))) for n in LISTS}


class GhostList:
    def __init__(self, name):
        self.name = name

    def sym_getattr(self, attr, ev, node):
        if attr == "append":
            return symex.PyCallable(lambda ev2, a, k, n2: _append(ev2.ex, ev2.st, self, a[0], n2))
        raise Outside(f"list method .{attr} on a per-filter list")

    def sym_getitem(self, sl, ev, node):
        idx = ev.eval(sl)
        if idx != -1:
            raise Outside("per-filter list read at an index other than -1")
        cnt = Z(ev.st.ghost["app" + self.name])
        ev.wd(cnt >= 1, "last_entry_of_a_nonempty_list", node)
        return _value(self.name, simp(cnt - 1))

    def sym_len(self):
        raise Outside("len of a per-filter list")


def _value(name, k):
    f = F[name]
    return (f[0](k), f[1](k)) if name in PAIRS else f(k)


def _append(ex, st, lst, v, node):
    lbl = f"L{node.lineno - ex.fx.lineno}"
    name = lst.name
    if "__zi" not in st.env:
        raise Outside("append outside the per-filter loop")
    i = Z(st.env["__zi"])
    ex.oblige(st, Z(st.ghost["app" + name]) == i, f"{name}.one_entry_per_filter_in_order.{lbl}", "spec", node.lineno)
    c = ex.ctx
    if name in PAIRS:
        if not (isinstance(v, tuple) and len(v) == 2):
            raise Outside(f"{name} entry is not a pair")
        st.assume(z3.And(F[name][0](i) == to_real(v[0]), F[name][1](i) == to_real(v[1])))
    else:
        st.assume(F[name](i) == to_real(v))
    st.ghost["app" + name] = simp(i + 1)
    if name == "_supports":
        ex.oblige(st, z3.BoolVal(st.ghost.get("support_of") is not None) if not symex.is_z3(st.ghost.get("support_of")) else st.ghost["support_of"] == i,
                  f"_supports.entry_is_the_temporal_support_computed_for_this_filter.{lbl}", "spec", node.lineno)
    return None


def h_temp_support(ex, st, o, args, kwargs, node, ev):
    """callee contract (unit gamma_support): reads alpha, c and offset at the given index, returns (floor(offset), right) with integer ends"""
    if len(args) != 1 or args[0] != -1 or kwargs:
        raise Outside("_calculate_temp_support called with something other than -1")
    i = Z(st.env["__zi"])
    lbl = f"L{node.lineno - ex.fx.lineno}"
    ex.oblige(st, z3.And(*[Z(st.ghost["app" + n]) == i + 1 for n in ("_alphas", "_cs", "_offsets")]),
              f"alpha_c_and_offset_of_this_filter_are_the_last_entries_when_the_support_is_computed.{lbl}", "pre", node.lineno)
    st.ghost["support_of"] = i
    lo, hi = symex.fresh("supp_left", "int"), symex.fresh("supp_right", "int")
    off = F["_offsets"](i)
    st.assume(z3.And(z3.ToReal(lo) <= off, off < z3.ToReal(lo) + 1))
    return (lo, hi)


def h_h2a(ex, st, args, kwargs, node, ev):
    hz, rate = args
    return to_real(hz) * 2 * PI / to_real(rate)


def h_a2h(ex, st, args, kwargs, node, ev):
    ang, rate = args
    return to_real(ang) * to_real(rate) / (2 * PI)


def h_log(ex, st, args, kwargs, node, ev):
    (a,) = args
    za = to_real(a)
    ex.oblige(st, za > 0, f"log_of_positive.L{node.lineno - ex.fx.lineno}", "wd", node.lineno)
    return api.LN(za)


def h_exp(ex, st, args, kwargs, node, ev):
    return api.EXP(to_real(args[0]))


def h_factorial(ex, st, args, kwargs, node, ev):
    (a,) = args
    ex.oblige(st, Z(a) >= 0, f"factorial_of_nonnegative.L{node.lineno - ex.fx.lineno}", "wd", node.lineno)
    return FACT(Z(a))


def h_binop(ex, st, op, a, b, node):
    from fractions import Fraction
    if isinstance(op, ast.Pow) and a == 2 and not symex.concrete(b):
        return api.EXP2(to_real(b))
    if isinstance(op, ast.Pow) and symex.concrete(b) and not isinstance(b, int) and Fraction(b) == Fraction(1, 2):
        za = to_real(a)
        if ex.ctx["l2"] is False:
            ex.oblige(st, za >= 0, f"square_root_of_nonnegative.L{node.lineno - ex.fx.lineno}", "wd", node.lineno)
        else:
            ex.assumption_ids.add("assumed: with scale_l2_norm the effective-support radicand is non-negative (numeric; stand-in)")
        return api.SQRT(za)
    return NotImplemented


def sel_loop(fn):
    """the statements after the (dropped) initialisations `self._<list> = []` / `self._wrap_below = False`"""
    body = fn.body
    start = None
    for i, s in enumerate(body):
        if isinstance(s, ast.Assign) and ast.unparse(s.targets[0]) == "log_eps":
            start = i
            break
    return body[start:] if start is not None else []


def init_facts(fn):
    """AST-level: between the edges and the slice there are exactly the nine initialisations the set-up assumes"""
    body = fn.body
    lo = next((i for i, s in enumerate(body) if isinstance(s, ast.Assign) and ast.unparse(s.targets[0]) == "edges"), None)
    hi = next((i for i, s in enumerate(body) if isinstance(s, ast.Assign) and ast.unparse(s.targets[0]) == "log_eps"), None)
    if lo is None or hi is None:
        return {"initialisations_found": False}
    got = [ast.unparse(s) for s in body[lo + 1:hi]]
    want = [f"self.{n} = []" for n in LISTS] + ["self._wrap_below = False"]
    return {"every_per_filter_list_starts_empty_and_wrap_below_false_nothing_else_in_between": sorted(got) == sorted(want)}


def setup(l2, maxc, erb):
    def _setup(ex, st):
        n, order = api.sym("num_filts"), api.sym("order")
        rate = api.sym("sampling_rate", "real")
        k = z3.Int("ek")
        st.assume(z3.And(n >= 1, order >= 1, rate > 0, PI > 3, PI < 4))
        st.assume(z3.ForAll([k], z3.Implies(z3.And(k >= 0, k < n), EDGE(k) < EDGE(k + 1)), patterns=[EDGE(k)]))
        fields = {"_order": order, "_rate": rate, "_wrap_below": False}
        for nm in LISTS:
            fields[nm] = GhostList(nm)
        api.mk_obj(st, "self", CLS, fields)
        st.env.update({"edges": SeqVal(n + 1, lambda j: EDGE(Z(j))), "order": order, "num_filts": n, "sampling_rate": rate,
                       "scale_l2_norm": l2, "max_centered": maxc, "erb": erb})
        st.ghost.update({"app" + nm: 0 for nm in LISTS})
        st.ghost["support_of"] = z3.IntVal(-1)
        for ax in api.math_axioms():
            ex.axioms.append(ax)
        x = z3.Real("gx")
        j = z3.Int("fj")
        thr = _thr()
        ex.axioms += [api.LN(thr) < 0, api.LN(z3.RealVal(2)) > 0, z3.ForAll([x], z3.Implies(x > 0, api.EXP2(x) > 1), patterns=[api.EXP2(x)]),
                      z3.ForAll([j], FACT(j) >= 1, patterns=[FACT(j)]),
                      z3.ForAll([x], z3.Implies(x > 0, api.SQRT(x) > 0), patterns=[api.SQRT(x)]), api.SQRT(z3.RealVal(0)) == 0,
                      z3.ForAll([x], z3.Implies(x >= 0, api.SQRT(x) >= 0), patterns=[api.SQRT(x)])]
        ex.ctx = dict(n=n, rate=rate, order=order, l2=l2, maxc=maxc, erb=erb)
    return _setup


def _thr():
    from fractions import Fraction
    v = extract.module_constants("config").get("EFFECTIVE_SUPPORT_THRESHOLD")
    if not isinstance(v, float) or not 0 < v < 1:
        raise Outside("config.EFFECTIVE_SUPPORT_THRESHOLD is not a literal in (0, 1)")
    return z3.RealVal(str(Fraction(repr(v))))


def _forall_filters(ev, upto, body):
    k = z3.Int("fk")
    return z3.ForAll([k], z3.Implies(z3.And(k >= 0, k < Z(upto)), body(k)))


def contract(l2, maxc, erb):
    def parts_of(c, k):
        rate, order = c["rate"], c["order"]
        cen, xi, al, cs, off = F["_centers_hz"], F["_xis"], F["_alphas"], F["_cs"], F["_offsets"]
        sa0, sa1 = F["_supports_ang"]
        d = {"layout": z3.And(2 * cen(k) == EDGE(k) + EDGE(k + 1), xi(k) * rate == 2 * PI * cen(k)),
             "positive": z3.And(al(k) > 0, cs(k) > 0),
             "offset": (off(k) * al(k) == -(z3.ToReal(order) - 1)) if maxc else (off(k) == 0),
             "symmetric": sa0(k) + sa1(k) == 2 * xi(k)}
        if not l2:
            d["inside"] = z3.And(sa0(k) < xi(k), xi(k) < sa1(k))
        return d

    def so_far_part(which):
        def fn(ev, upto):
            if which == "inside" and l2:
                return z3.BoolVal(True)
            return _forall_filters(ev, upto, lambda k: parts_of(ev.ex.ctx, k)[which])
        return fn

    def so_far(ev, upto):
        return _forall_filters(ev, upto, lambda k: z3.And(*parts_of(ev.ex.ctx, k).values()))

    def counters(ev, upto):
        return z3.And(*[Z(ev.st.ghost["app" + nm]) == Z(upto) for nm in LISTS])

    def wrap_iff(ev, upto):
        k = z3.Int("wk")
        wb = ev.st.fields[("self", "_wrap_below")]
        return Zb(wb) == z3.Exists([k], z3.And(k >= 0, k < Z(upto), F["_supports_ang"][0](k) < 0))

    def frozen(ev):
        f = ev.st.fields
        n = ev.ex.ctx["n"]
        k = z3.Int("zk")
        conj = []
        for nm in LISTS:
            v = f.get(("self", nm))
            if not isinstance(v, SeqVal):
                return z3.BoolVal(False)
            e = v.getter(k)
            want = _value(nm, k)
            same = z3.And(to_real(e[0]) == want[0], to_real(e[1]) == want[1]) if nm in PAIRS else (to_real(e) == want)
            conj.append(z3.And(Z(v.n) == n, z3.ForAll([k], z3.Implies(z3.And(k >= 0, k < n), same))))
        sh = f.get(("self", "_supports_hz"))
        if not isinstance(sh, SeqVal):
            return z3.BoolVal(False)
        e = sh.getter(k)
        rate = ev.ex.ctx["rate"]
        sa0, sa1 = F["_supports_ang"]
        conj.append(z3.And(Z(sh.n) == n, z3.ForAll([k], z3.Implies(z3.And(k >= 0, k < n), z3.And(
            to_real(e[0]) * 2 * PI == sa0(k) * rate, to_real(e[1]) * 2 * PI == sa1(k) * rate)))))
        return z3.And(*conj)

    def centres_increasing(ev):
        k = z3.Int("ck")
        n = ev.ex.ctx["n"]
        cen = F["_centers_hz"]
        return z3.ForAll([k], z3.Implies(z3.And(k >= 0, k < n - 1), cen(k) < cen(k + 1)))

    def centre_inside_supports_hz(ev):
        if l2:
            return z3.BoolVal(True)
        k = z3.Int("ik")
        n, rate = ev.ex.ctx["n"], ev.ex.ctx["rate"]
        cen = F["_centers_hz"]
        sa0, sa1 = F["_supports_ang"]
        return z3.ForAll([k], z3.Implies(z3.And(k >= 0, k < n), z3.And(sa0(k) * rate < cen(k) * 2 * PI, cen(k) * 2 * PI < sa1(k) * rate)))

    consts = {"SO_FAR": SpecFn(so_far), "LAYOUT": SpecFn(so_far_part("layout")), "POSITIVE": SpecFn(so_far_part("positive")), "OFFSET": SpecFn(so_far_part("offset")),
              "SYMMETRIC": SpecFn(so_far_part("symmetric")), "INSIDE": SpecFn(so_far_part("inside")), "COUNTERS": SpecFn(counters), "WRAP_IFF": SpecFn(wrap_iff), "FROZEN": SpecFn(frozen),
              "CENTRES_INCREASING": SpecFn(centres_increasing), "CENTRE_INSIDE": SpecFn(centre_inside_supports_hz),
              "config.EFFECTIVE_SUPPORT_THRESHOLD": _thr(), "np.pi": PI,
              "ISGHOST": SpecFn(lambda ev: all(isinstance(ev.st.fields.get(("self", nm)), GhostList) for nm in LISTS))}
    handlers = {"hertz_to_angular": h_h2a, "angular_to_hertz": h_a2h, "np.log": h_log, "np.exp": h_exp, "math.factorial": h_factorial, "binop": h_binop,
                f"{CLS}._calculate_temp_support": h_temp_support, "self._calculate_temp_support": h_temp_support,
                "tuple": h_tuple}
    c = Contract(
        target=f"filters:{CLS}.__init__", uses=["A-REAL", "A-PYSEM", "A-MATH"], consts=consts, handlers=handlers,
        # the VALUES of the bandwidth constants computed before the loop play no role in any clause (alpha = exp(anything) > 0): they enter
        # the loop as unconstrained reals (a weakening of the hypotheses; their well-definedness obligations were generated where they are computed)
        loops={0: LoopSpec(kind="for", modifies_ghost=["app" + nm for nm in LISTS] + ["support_of"], modifies_fields=["_wrap_below"],
                           convert={nm: (lambda st, v, nm=nm: symex.fresh(nm, "real")) for nm in ("alpha_const", "log_double_factorial", "log_factorial")}, invariant=[
            ("range", "0 <= __zi <= num_filts"), ("lists", "ISGHOST()"), ("one_entry_per_list_so_far", "COUNTERS(__zi)"),
            ("centre_is_the_midpoint_of_its_edges_xi_its_angle_so_far", "LAYOUT(__zi)"), ("alpha_and_c_positive_so_far", "POSITIVE(__zi)"),
            ("offset_zero_unless_max_centered_so_far", "OFFSET(__zi)"), ("supports_ang_symmetric_around_xi_so_far", "SYMMETRIC(__zi)"),
            ("xi_strictly_inside_supports_ang_so_far", "INSIDE(__zi)"), ("wrap_below_iff_a_lower_edge_is_negative_so_far", "WRAP_IFF(__zi)")])},
        ensures=[("one_entry_per_filter_in_every_list", "COUNTERS(num_filts)"), ("per_filter_facts", "SO_FAR(num_filts)"),
                 ("wrap_below_iff_some_lower_support_edge_is_negative", "WRAP_IFF(num_filts)"),
                 ("lists_frozen_into_tuples_supports_hz_is_supports_ang_in_hertz", "FROZEN()"),
                 ("centres_strictly_increasing", "CENTRES_INCREASING()"), ("centre_strictly_inside_supports_hz", "CENTRE_INSIDE()")],
    )
    c.canaries = [("centres_decreasing", "not CENTRES_INCREASING()")]
    return c


def h_tuple(ex, st, args, kwargs, node, ev):
    if len(args) == 1 and isinstance(args[0], GhostList):
        nm = args[0].name
        return SeqVal(st.ghost["app" + nm], lambda j: _value(nm, Z(j)))
    if len(args) == 1 and isinstance(args[0], SeqVal):
        return args[0]
    raise Outside("tuple() of something other than a per-filter list / a generator over one")


LABELS = [f"{'l2' if l2 else 'nol2'}|{'maxc' if m else 'causal'}|{'erb' if e else '3db'}" for l2 in (False, True) for m in (False, True) for e in (False, True)]


def generate(prop, label):
    from contracts.registry import run_contract
    from pyvc.check import UnitResult
    l2, m, e = [x in ("l2", "maxc", "erb") for x in label.split("|")]
    try:
        fx = extract.get_slice("filters", f"{CLS}.__init__", sel_loop, "per-filter loop: centres, bandwidth constants, offsets, supports, frozen tuples")
    except KeyError as err:
        u = UnitResult("gamma_init_loop")
        u.outside.append((f"filters:{CLS}.__init__", str(err)))
        return u
    u = run_contract(prop, fx, contract(l2, m, e), [(label, setup(l2, m, e))], name="gamma_init_loop", fname=f"{CLS}.__init__#loop")
    if label == LABELS[0]:
        base = extract.get_function("filters", f"{CLS}.__init__")
        for lab, ok in init_facts(base.node).items():
            u.obligations.append(Obligation(f"{prop}.{CLS}.__init__#loop.{lab}", [], z3.BoolVal(bool(ok)), "dataflow", base.lineno))
    return u


def unit_gamma_loop(prop):
    def unit(tier, known):
        from contracts.registry import run_parallel
        from contracts import filters_gabor

        def tc(ob):
            cs = filters_gabor.to_case_c05(ob) or []
            out = []
            for c in cs:
                c2 = dict(c)
                if isinstance(c2.get("bank"), dict) and c2["bank"].get("bank") == "gabor":
                    for order, mc in ((4, False), (2, True), (1, False)):
                        c3 = dict(c2)
                        c3["bank"] = dict(c2["bank"], bank="gamma", order=order, max_centered=mc)
                        out.append(c3)
            return out
        def tc07(ob):
            out = []
            for order in (4, 3, 2, 1, 5):
                for mc in (False, True):
                    for r, nf, lo in ((8000.0, 3, 20.0), (16000.0, 10, 0.0), (8000.0, 40, 20.0)):
                        sp = dict(bank="gamma", scale={"name": "mel"}, num_filts=nf, low_hz=lo, high_hz=None, rate=r, order=order, max_centered=mc)
                        for k in sorted({0, nf // 2, nf - 1}):
                            out.append({"bank": sp, "filt": k, "mult": 1, "plus": 0})
            return out
        jobs = [("contracts.filters_gamma", "generate", (prop, label)) for label in LABELS]
        if prop == "C07":
            return run_parallel("gamma_init_loop", jobs, to_case=tc07, replay_module="rtc.c07")
        return run_parallel("gamma_init_loop", jobs, to_case=tc, replay_module="rtc.c05")
    unit.__name__ = "gamma_init_loop"
    return unit

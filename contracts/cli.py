"""Sidecar contracts for statement slices of the two command-line tools (command_line.py; properties C09, C10).

The tools are long script-like functions (argument parsing, object construction, I/O); only the statements the properties hinge
on are put under contract, selected mechanically by AST predicates (pyvc.extract.get_slice) - everything else of the functions
is DROPPED from the deductive part and covered by the bounded stand-ins only:
  S1  signals_to_torch_feat_dir, the seed selection `if options.seed is None: ... else: ...`
        post: a given --seed (ANY non-negative integer, 0 included) is the base seed
  S2  signals_to_torch_feat_dir, the final write loop `for utt_ids, feats in loader:`
        ghost effect trace (assumed I/O contracts A-IO-TEXT, A-TORCH): torch.save(x, p) completes file p; print(u, file=manifest, flush=True)
        makes u durable in the manifest. Obligations at every effect: the manifest line of utterance j is written only after its
        file is complete (listed => complete), it is flushed with the write (completed utterances are listed except the one in
        flight), files go to dir/prefix+utt+suffix, each item of the loader is written exactly once and in order.
  S3  _FeatureProcessorDataset.__getitem__, the seeding prefix: torch.manual_seed(seed + position of the utterance in the FULL
        map) is executed before anything else touches the RNG - the seed is a function of utterance identity, not of which other
        utterances the manifest removed
  S4  compute_feats_from_kaldi_tables, `if options.seed is not None: np.random.seed(options.seed)`: seeded iff a seed was given
"""
import ast

import z3

from pyvc import api, extract, symex
from pyvc.api import SpecFn, Opaque, SeqVal, Z, Zb, simp, Outside
from pyvc.symex import Contract, LoopSpec, Obj

UTT = api.uf("utt_id", api.I, api.I)
IDX = api.uf("full_map_index", api.I, api.I)  # utterance -> its position in the full map


def _opaque_str_binop(ex, st, op, a, b, node):
    if isinstance(op, ast.Add) and (isinstance(a, Opaque) or isinstance(b, Opaque)) and not (symex.is_z3(a) or symex.is_z3(b)):
        ta = a.term if isinstance(a, Opaque) else a
        tb = b.term if isinstance(b, Opaque) else b
        return Opaque(("concat", ta, tb), "str")
    return NotImplemented


# ---------------------------------------------------------------------------------------------- S2 write loop

def sel_write_loop(fn):
    loops = [s for s in fn.body if isinstance(s, ast.For) and "loader" in ast.unparse(s.iter)]
    return loops[-1:] if loops else []


def setup_write_loop(with_manifest):
    def setup(ex, st):
        m = api.sym("m")
        st.assume(m >= 0)
        api.mk_obj(st, "options", "Options", {"dir": Opaque("DIR", "str"), "file_prefix": Opaque("PREFIX", "str"), "file_suffix": Opaque("SUFFIX", "str"),
                                             "manifest": Opaque("MANIFEST", "file") if with_manifest else None})
        st.env["loader"] = SeqVal(m, lambda j: ((Opaque(("utt", simp(Z(j))), "str"),), (Opaque(("feat", simp(Z(j))), "tensor"),)))
        st.ghost.update(n_saved=0, n_listed=0, m=m)
        ex.ctx = dict(m=m, with_manifest=with_manifest)
    return setup


def h_join(ex, st, args, kwargs, node, ev):
    return Opaque(("join",) + tuple(a.term if isinstance(a, Opaque) else a for a in args), "str")


def _same_term(t, want):
    """structural equality of opaque terms up to z3-equal indices"""
    if isinstance(t, tuple) and isinstance(want, tuple) and len(t) == len(want):
        conj = [_same_term(a, b) for a, b in zip(t, want)]
        return z3.And(*[Zb(c) for c in conj]) if conj else z3.BoolVal(True)
    if symex.is_z3(t) or symex.is_z3(want):
        return Z(t) == Z(want)
    return z3.BoolVal(t == want)


def h_save(ex, st, args, kwargs, node, ev):
    feat, path = args
    j = Z(st.env["__zi"])
    lbl = f"L{node.lineno - ex.fx.lineno}"
    ex.oblige(st, Z(st.ghost["n_saved"]) == j, f"one_file_per_item_in_order.{lbl}", "trace", node.lineno)
    ex.oblige(st, isinstance(feat, Opaque) and simp(_same_term(feat.term, ("feat", j))), f"saves_this_items_features.{lbl}", "trace", node.lineno)
    want = ("join", "DIR", ("concat", ("concat", "PREFIX", ("utt", j)), "SUFFIX"))
    ex.oblige(st, isinstance(path, Opaque) and simp(_same_term(path.term, want)), f"file_name_is_dir_prefix_utt_suffix.{lbl}", "trace", node.lineno)
    st.ghost["n_saved"] = simp(Z(st.ghost["n_saved"]) + 1)
    ex.assumption_ids.update(["A-TORCH", "A-IO-TEXT"])
    return None


def h_print(ex, st, args, kwargs, node, ev):
    j = Z(st.env["__zi"])
    lbl = f"L{node.lineno - ex.fx.lineno}"
    f = kwargs.get("file")
    if not (isinstance(f, Opaque) and f.term == "MANIFEST"):
        return None  # printing elsewhere is not a manifest event
    what = args[0] if args else None
    ex.oblige(st, isinstance(what, Opaque) and simp(_same_term(what.term, ("utt", j))) and len(args) == 1, f"manifest_line_is_this_utterance.{lbl}", "trace", node.lineno)
    ex.oblige(st, Z(st.ghost["n_saved"]) == j + 1, f"listed_only_after_its_file_is_complete.{lbl}", "trace", node.lineno)
    ex.oblige(st, kwargs.get("flush") is True, f"manifest_line_flushed_with_the_write.{lbl}", "trace", node.lineno)
    st.ghost["n_listed"] = simp(Z(st.ghost["n_listed"]) + 1)
    ex.assumption_ids.add("A-IO-TEXT")
    return None


def contract_write_loop():
    c = Contract(
        target="command_line:signals_to_torch_feat_dir#write-loop",
        uses=["A-PYSEM", "A-TORCH", "A-IO-TEXT"],
        consts={"WITH_MANIFEST": SpecFn(lambda ev: ev.ex.ctx["with_manifest"])},
        handlers={"os.path.join": h_join, "torch.save": h_save, "print": h_print, "binop": _opaque_str_binop},
        loops={0: LoopSpec(kind="for", modifies_ghost=["n_saved", "n_listed"], invariant=[
            ("range", "0 <= __zi <= m"),
            ("saved", "n_saved == __zi"),
            ("listed", "n_listed == ite(WITH_MANIFEST(), __zi, 0)"),
        ])},
        ensures=[("every_item_saved", "n_saved == m"), ("every_item_listed", "implies(WITH_MANIFEST(), n_listed == m)")],
    )
    return c


# ---------------------------------------------------------------------------------------------- S1 / S4 seed selection

def sel_if_mentions(text):
    def sel(fn):
        out = [s for s in ast.walk(fn) if isinstance(s, ast.If) and text in ast.unparse(s.test)]
        return out[:1]
    return sel


def sel_assign_or_if_seed(fn):
    """the first statement that decides the base seed: `if options.seed ...:` or `seed = <expr mentioning options.seed>`"""
    for s in fn.body:
        if isinstance(s, ast.If) and "options.seed" in ast.unparse(s.test):
            return [s]
        if isinstance(s, ast.Assign) and "options.seed" in ast.unparse(s.value):
            return [s]
    return []


def setup_seed(given):
    def setup(ex, st):
        sd = api.sym("seed_option")
        st.assume(sd >= 0)
        api.mk_obj(st, "options", "Options", {"seed": sd if given else None})
        st.ghost.update(np_seeded_with=None, random_draws=0)
        ex.ctx = dict(given=given, sd=sd)
    return setup


def h_randint(ex, st, args, kwargs, node, ev):
    st.ghost["random_draws"] = st.ghost["random_draws"] + 1
    return symex.fresh("random_seed")


def h_iinfo(ex, st, args, kwargs, node, ev):
    return Opaque("iinfo", "iinfo")


def h_attr_any_seed(ex, st, o, attr, node, ev):
    if isinstance(o, Opaque) and o.kind == "iinfo" and attr == "max":
        return 2 ** 31 - 1
    return NotImplemented


def h_np_seed(ex, st, args, kwargs, node, ev):
    st.ghost["np_seeded_with"] = args[0]
    return None


def contract_torch_seed():
    return Contract(
        target="command_line:signals_to_torch_feat_dir#seed",
        uses=["A-PYSEM"],
        consts={"np.int32": Opaque("int32", "dtype"), "GIVEN": SpecFn(lambda ev: ev.ex.ctx["given"]), "SD": SpecFn(lambda ev: ev.ex.ctx["sd"])},
        handlers={"np.random.randint": h_randint, "np.iinfo": h_iinfo, "attr_any": h_attr_any_seed},
        ensures=[("given_seed_is_used", "implies(GIVEN(), seed == SD() and random_draws == 0)")],
    )


def contract_kaldi_seed():
    return Contract(
        target="command_line:compute_feats_from_kaldi_tables#seed",
        uses=["A-PYSEM"],
        consts={"GIVEN": SpecFn(lambda ev: ev.ex.ctx["given"]), "SD": SpecFn(lambda ev: ev.ex.ctx["sd"]),
                "SEEDED_WITH_OPTION": SpecFn(lambda ev: (ev.st.ghost["np_seeded_with"] is not None) and simp(Z(ev.st.ghost["np_seeded_with"]) == ev.ex.ctx["sd"]) is True),
                "NOT_SEEDED": SpecFn(lambda ev: ev.st.ghost["np_seeded_with"] is None)},
        handlers={"np.random.seed": h_np_seed},
        ensures=[("seeded_iff_given", "ite(GIVEN(), SEEDED_WITH_OPTION(), NOT_SEEDED())")],
    )


# ---------------------------------------------------------------------------------------------- S3 __getitem__ seeding

def sel_getitem_prefix(fn):
    """statements up to and including the torch.manual_seed call"""
    out = []
    for s in fn.body:
        out.append(s)
        if "manual_seed" in ast.unparse(s):
            return out
    return []


def setup_getitem(with_index):
    def setup(ex, st):
        idx, seed, n = api.sym("idx"), api.sym("base_seed"), api.sym("n_remaining")
        st.assume(z3.And(idx >= 0, idx < n, seed >= 0))

        class U2I:
            def sym_getitem(self, sl, ev, node):
                k = ev.eval(sl)
                if not (isinstance(k, Opaque) and isinstance(k.term, tuple) and k.term[0] == "utt"):
                    raise Outside("utt2idx key")
                return IDX(Z(k.term[1]))

        api.mk_obj(st, "self", "Dataset", {"seed": seed, "utt2idx": U2I() if with_index else None,
                                           "utt_path": SeqVal(n, lambda j: (Opaque(("utt", simp(Z(j))), "str"), Opaque(("path", simp(Z(j))), "str")))})
        st.env["idx"] = idx
        st.ghost.update(manual_seed=None, rng_uses_before_seed=0)
        ex.ctx = dict(idx=idx, seed=seed, with_index=with_index)
    return setup


def h_manual_seed(ex, st, args, kwargs, node, ev):
    st.ghost["manual_seed"] = args[0]
    return None


def contract_getitem():
    def seeded_right(ev):
        ms = ev.st.ghost["manual_seed"]
        if ms is None:
            return False
        c = ev.ex.ctx
        want = c["seed"] + (IDX(c["idx"]) if c["with_index"] else c["idx"])
        return Z(ms) == want
    return Contract(
        target="command_line:_FeatureProcessorDataset.__getitem__#seeding-prefix",
        uses=["A-PYSEM", "A-TORCH"],
        consts={"SEEDED_BY_FULL_MAP_POSITION": SpecFn(seeded_right)},
        handlers={"torch.manual_seed": h_manual_seed},
        ensures=[("seed_is_base_plus_position_in_full_map", "SEEDED_BY_FULL_MAP_POSITION()")],
    )


def _to_case_plan(rm):
    """replay inputs for the slices: the deterministic start of the stand-in's own plan (fixed seeds incl. 0, dither, several
    utterances, manifest / no manifest, worker counts) - a slice obligation has no input of its own to offer"""
    def to_case(ob):
        import importlib
        try:
            mod = importlib.import_module(rm)
            plan = list(mod._plan("quick", 0))
            zero = [c for c in plan if c.get("seed") == 0 or c.get("cli_seed") == 0 or "seed0" in str(c) or "'seed': 0" in str(c)]
            return (zero[:8] + [c for c in plan if c not in zero][:10])
        except Exception:
            return None
    return to_case


def units(prop):
    from contracts.registry import run_contract
    from pyvc.check import UnitResult

    def mk(name, mod, qual, selector, desc, contract_fn, setups, rm):
        def unit(tier, known):
            u = UnitResult(name)
            try:
                fx = extract.get_slice(mod, qual, selector, desc)
            except KeyError as e:
                u.outside.append((f"{mod}:{qual}#{desc}", str(e)))
                return u
            u.functions.append(fx.describe())
            for label, setup in setups:
                ex = symex.Executor(fx, contract_fn(), prop)
                ex.fname = name
                st = symex.State()
                try:
                    setup(ex, st)
                    ex.run(st)
                except symex.Outside as e:
                    u.outside.append((fx.id + f"[{label}]", str(e)))
                    continue
                for o in ex.obligations + ex.canaries:
                    o.id = o.id + f"[{label}]"
                u.obligations += ex.obligations
                u.canaries += ex.canaries
                u.assumptions |= set(ex.assumption_ids)
            u.replay_module = rm
            u.to_case = _to_case_plan(rm)
            return u
        unit.__name__ = name
        return unit

    out = []
    if prop == "C10":
        out.append(mk("write_loop", "command_line", "signals_to_torch_feat_dir", sel_write_loop, "write-loop", contract_write_loop,
                      [("manifest", setup_write_loop(True)), ("no_manifest", setup_write_loop(False))], "rtc.c10"))
        out.append(mk("torch_seed", "command_line", "signals_to_torch_feat_dir", sel_assign_or_if_seed, "seed-selection", contract_torch_seed,
                      [("seed_given", setup_seed(True)), ("seed_absent", setup_seed(False))], "rtc.c10"))
        out.append(mk("getitem_seed", "command_line", "_FeatureProcessorDataset.__getitem__", sel_getitem_prefix, "seeding-prefix", contract_getitem,
                      [("full_map_index", setup_getitem(True))], "rtc.c10"))
    if prop == "C09":
        out.append(mk("kaldi_seed", "command_line", "compute_feats_from_kaldi_tables", sel_if_mentions("options.seed"), "seed-selection", contract_kaldi_seed,
                      [("seed_given", setup_seed(True)), ("seed_absent", setup_seed(False))], "rtc.c09"))
        out.append(mk("torch_seed", "command_line", "signals_to_torch_feat_dir", sel_assign_or_if_seed, "seed-selection", contract_torch_seed,
                      [("seed_given", setup_seed(True)), ("seed_absent", setup_seed(False))], "rtc.c09"))
    return out

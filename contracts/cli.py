"""Sidecar contracts for statement slices of the two command-line tools (command_line.py; properties C09, C10).

The tools are long script-like functions (argument parsing, object construction, I/O); only the statements the properties hinge
on are put under contract, selected mechanically by AST predicates (pyvc.extract.get_slice) - everything else of the functions
is DROPPED from the deductive part and covered by the bounded stand-ins only:
  S1  signals_to_torch_feat_dir, the seed selection `if options.seed is None: ... else: ...`
        post: a given --seed (ANY non-negative integer, 0 included) is the base seed
  S2  signals_to_torch_feat_dir, the final write loop `for utt_ids, feats in loader:`
        ghost effect trace (assumed I/O contracts A-IO-TEXT, A-TORCH): torch.save(x, p) completes file p; print(u, file=manifest, flush=True)
        makes u durable in the manifest. Obligations at every effect: the manifest line of utterance j is written only after its
        file is complete (listed => complete), it is flushed with the write (completed utterances are listed except the one in
        flight), files go to dir/prefix+utt+suffix, each item of the loader is written exactly once and in order.
  S3  _FeatureProcessorDataset.__getitem__, the seeding prefix: torch.manual_seed(seed + position of the utterance in the FULL
        map) is executed before anything else touches the RNG - the seed is a function of utterance identity, not of which other
        utterances the manifest removed
  S4  compute_feats_from_kaldi_tables, `if options.seed is not None: np.random.seed(options.seed)`: seeded iff a seed was given
"""
import ast

import z3

from pyvc import api, extract, symex
from pyvc.api import SpecFn, Opaque, SeqVal, Z, Zb, simp, Outside, to_real
from pyvc.symex import Contract, LoopSpec, Obj

UTT = api.uf("utt_id", api.I, api.I)
IDX = api.uf("full_map_index", api.I, api.I)  # utterance -> its position in the full map


def _opaque_str_binop(ex, st, op, a, b, node):
    if isinstance(op, ast.Add) and (isinstance(a, Opaque) or isinstance(b, Opaque)) and not (symex.is_z3(a) or symex.is_z3(b)):
        ta = a.term if isinstance(a, Opaque) else a
        tb = b.term if isinstance(b, Opaque) else b
        return Opaque(("concat", ta, tb), "str")
    return NotImplemented


# ---------------------------------------------------------------------------------------------- S2 write loop

def sel_write_loop(fn):
    loops = [s for s in fn.body if isinstance(s, ast.For) and "loader" in ast.unparse(s.iter)]
    return loops[-1:] if loops else []


def setup_write_loop(with_manifest):
    def setup(ex, st):
        m = api.sym("m")
        st.assume(m >= 0)
        api.mk_obj(st, "options", "Options", {"dir": Opaque("DIR", "str"), "file_prefix": Opaque("PREFIX", "str"), "file_suffix": Opaque("SUFFIX", "str"),
                                             "manifest": Opaque("MANIFEST", "file") if with_manifest else None})
        st.env["loader"] = SeqVal(m, lambda j: ((Opaque(("utt", simp(Z(j))), "str"),), (Opaque(("feat", simp(Z(j))), "tensor"),)))
        st.ghost.update(n_saved=0, n_listed=0, m=m)
        ex.ctx = dict(m=m, with_manifest=with_manifest)
    return setup


def h_join(ex, st, args, kwargs, node, ev):
    return Opaque(("join",) + tuple(a.term if isinstance(a, Opaque) else a for a in args), "str")


def _same_term(t, want):
    """structural equality of opaque terms up to z3-equal indices"""
    if isinstance(t, tuple) and isinstance(want, tuple) and len(t) == len(want):
        conj = [_same_term(a, b) for a, b in zip(t, want)]
        return z3.And(*[Zb(c) for c in conj]) if conj else z3.BoolVal(True)
    if symex.is_z3(t) or symex.is_z3(want):
        return Z(t) == Z(want)
    return z3.BoolVal(t == want)


def h_save(ex, st, args, kwargs, node, ev):
    feat, path = args
    j = Z(st.env["__zi"])
    lbl = f"L{node.lineno - ex.fx.lineno}"
    ex.oblige(st, Z(st.ghost["n_saved"]) == j, f"one_file_per_item_in_order.{lbl}", "trace", node.lineno)
    ex.oblige(st, isinstance(feat, Opaque) and simp(_same_term(feat.term, ("feat", j))), f"saves_this_items_features.{lbl}", "trace", node.lineno)
    want = ("join", "DIR", ("concat", ("concat", "PREFIX", ("utt", j)), "SUFFIX"))
    ex.oblige(st, isinstance(path, Opaque) and simp(_same_term(path.term, want)), f"file_name_is_dir_prefix_utt_suffix.{lbl}", "trace", node.lineno)
    st.ghost["n_saved"] = simp(Z(st.ghost["n_saved"]) + 1)
    ex.assumption_ids.update(["A-TORCH", "A-IO-TEXT"])
    return None


def h_print(ex, st, args, kwargs, node, ev):
    j = Z(st.env["__zi"])
    lbl = f"L{node.lineno - ex.fx.lineno}"
    f = kwargs.get("file")
    if not (isinstance(f, Opaque) and f.term == "MANIFEST"):
        return None  # printing elsewhere is not a manifest event
    what = args[0] if args else None
    ex.oblige(st, isinstance(what, Opaque) and simp(_same_term(what.term, ("utt", j))) and len(args) == 1, f"manifest_line_is_this_utterance.{lbl}", "trace", node.lineno)
    ex.oblige(st, Z(st.ghost["n_saved"]) == j + 1, f"listed_only_after_its_file_is_complete.{lbl}", "trace", node.lineno)
    ex.oblige(st, kwargs.get("flush") is True, f"manifest_line_flushed_with_the_write.{lbl}", "trace", node.lineno)
    st.ghost["n_listed"] = simp(Z(st.ghost["n_listed"]) + 1)
    ex.assumption_ids.add("A-IO-TEXT")
    return None


def contract_write_loop():
    c = Contract(
        target="command_line:signals_to_torch_feat_dir#write-loop",
        uses=["A-PYSEM", "A-TORCH", "A-IO-TEXT"],
        consts={"WITH_MANIFEST": SpecFn(lambda ev: ev.ex.ctx["with_manifest"])},
        handlers={"os.path.join": h_join, "torch.save": h_save, "print": h_print, "binop": _opaque_str_binop},
        loops={0: LoopSpec(kind="for", modifies_ghost=["n_saved", "n_listed"], invariant=[
            ("range", "0 <= __zi <= m"),
            ("saved", "n_saved == __zi"),
            ("listed", "n_listed == ite(WITH_MANIFEST(), __zi, 0)"),
        ])},
        ensures=[("every_item_saved", "n_saved == m"), ("every_item_listed", "implies(WITH_MANIFEST(), n_listed == m)")],
    )
    return c


# ---------------------------------------------------------------------------------------------- S1 / S4 seed selection

def sel_if_mentions(text):
    def sel(fn):
        out = [s for s in ast.walk(fn) if isinstance(s, ast.If) and text in ast.unparse(s.test)]
        return out[:1]
    return sel


def sel_assign_or_if_seed(fn):
    """the first statement that decides the base seed: `if options.seed ...:` or `seed = <expr mentioning options.seed>`"""
    for s in fn.body:
        if isinstance(s, ast.If) and "options.seed" in ast.unparse(s.test):
            return [s]
        if isinstance(s, ast.Assign) and "options.seed" in ast.unparse(s.value):
            return [s]
    return []


def setup_seed(given):
    def setup(ex, st):
        sd = api.sym("seed_option")
        st.assume(sd >= 0)
        api.mk_obj(st, "options", "Options", {"seed": sd if given else None})
        st.ghost.update(np_seeded_with=None, random_draws=0)
        ex.ctx = dict(given=given, sd=sd)
    return setup


def h_randint(ex, st, args, kwargs, node, ev):
    st.ghost["random_draws"] = st.ghost["random_draws"] + 1
    return symex.fresh("random_seed")


def h_iinfo(ex, st, args, kwargs, node, ev):
    return Opaque("iinfo", "iinfo")


def h_attr_any_seed(ex, st, o, attr, node, ev):
    if isinstance(o, Opaque) and o.kind == "iinfo" and attr == "max":
        return 2 ** 31 - 1
    return NotImplemented


def h_np_seed(ex, st, args, kwargs, node, ev):
    st.ghost["np_seeded_with"] = args[0]
    return None


def contract_torch_seed():
    return Contract(
        target="command_line:signals_to_torch_feat_dir#seed",
        uses=["A-PYSEM"],
        consts={"np.int32": Opaque("int32", "dtype"), "GIVEN": SpecFn(lambda ev: ev.ex.ctx["given"]), "SD": SpecFn(lambda ev: ev.ex.ctx["sd"])},
        handlers={"np.random.randint": h_randint, "np.iinfo": h_iinfo, "attr_any": h_attr_any_seed},
        ensures=[("given_seed_is_used", "implies(GIVEN(), seed == SD() and random_draws == 0)")],
    )


def contract_kaldi_seed():
    return Contract(
        target="command_line:compute_feats_from_kaldi_tables#seed",
        uses=["A-PYSEM"],
        consts={"GIVEN": SpecFn(lambda ev: ev.ex.ctx["given"]), "SD": SpecFn(lambda ev: ev.ex.ctx["sd"]),
                "SEEDED_WITH_OPTION": SpecFn(lambda ev: (ev.st.ghost["np_seeded_with"] is not None) and simp(Z(ev.st.ghost["np_seeded_with"]) == ev.ex.ctx["sd"]) is True),
                "NOT_SEEDED": SpecFn(lambda ev: ev.st.ghost["np_seeded_with"] is None)},
        handlers={"np.random.seed": h_np_seed},
        ensures=[("seeded_iff_given", "ite(GIVEN(), SEEDED_WITH_OPTION(), NOT_SEEDED())")],
    )


# ---------------------------------------------------------------------------------------------- S3 __getitem__ seeding

def sel_getitem_prefix(fn):
    """statements up to and including the torch.manual_seed call"""
    out = []
    for s in fn.body:
        out.append(s)
        if "manual_seed" in ast.unparse(s):
            return out
    return []


def setup_getitem(with_index):
    def setup(ex, st):
        idx, seed, n = api.sym("idx"), api.sym("base_seed"), api.sym("n_remaining")
        st.assume(z3.And(idx >= 0, idx < n, seed >= 0))

        class U2I:
            def sym_getitem(self, sl, ev, node):
                k = ev.eval(sl)
                if not (isinstance(k, Opaque) and isinstance(k.term, tuple) and k.term[0] == "utt"):
                    raise Outside("utt2idx key")
                return IDX(Z(k.term[1]))

        api.mk_obj(st, "self", "Dataset", {"seed": seed, "utt2idx": U2I() if with_index else None,
                                           "utt_path": SeqVal(n, lambda j: (Opaque(("utt", simp(Z(j))), "str"), Opaque(("path", simp(Z(j))), "str")))})
        st.env["idx"] = idx
        st.ghost.update(manual_seed=None, rng_uses_before_seed=0)
        ex.ctx = dict(idx=idx, seed=seed, with_index=with_index)
    return setup


def h_manual_seed(ex, st, args, kwargs, node, ev):
    st.ghost["manual_seed"] = args[0]
    return None


def contract_getitem():
    def seeded_right(ev):
        ms = ev.st.ghost["manual_seed"]
        if ms is None:
            return False
        c = ev.ex.ctx
        want = c["seed"] + (IDX(c["idx"]) if c["with_index"] else c["idx"])
        return Z(ms) == want
    return Contract(
        target="command_line:_FeatureProcessorDataset.__getitem__#seeding-prefix",
        uses=["A-PYSEM", "A-TORCH"],
        consts={"SEEDED_BY_FULL_MAP_POSITION": SpecFn(seeded_right)},
        handlers={"torch.manual_seed": h_manual_seed, "hash": h_hash},
        ensures=[("seed_is_base_plus_position_in_full_map", "SEEDED_BY_FULL_MAP_POSITION()")],
    )


def _to_case_plan(rm):
    """replay inputs for the slices: the deterministic start of the stand-in's own plan (fixed seeds incl. 0, dither, several
    utterances, manifest / no manifest, worker counts) - a slice obligation has no input of its own to offer"""
    def to_case(ob):
        import importlib
        try:
            mod = importlib.import_module(rm)
            plan = list(mod._plan("quick", 0))
            zero = [c for c in plan if c.get("seed") == 0 or c.get("cli_seed") == 0 or "seed0" in str(c) or "'seed': 0" in str(c)]
            # (only ever replayed behind a refuted / undecided obligation, so the whole quick plan is affordable)
            return (zero + [c for c in plan if c not in zero])[:200]
        except Exception:
            return None
    return to_case


def units(prop):
    from contracts.registry import run_contract
    from pyvc.check import UnitResult

    def mk(name, mod, qual, selector, desc, contract_fn, setups, rm):
        def unit(tier, known):
            u = UnitResult(name)
            try:
                fx = extract.get_slice(mod, qual, selector, desc)
            except KeyError as e:
                u.outside.append((f"{mod}:{qual}#{desc}", str(e)))
                return u
            u.functions.append(fx.describe())
            odd = extract.odd_decorators(fx)
            if odd:
                u.outside.append((fx.id, f"decorated with {', '.join(odd)} (dropped by the extraction)"))
                return u
            for label, setup in setups:
                ex = symex.Executor(fx, contract_fn(), prop)
                ex.fname = name
                st = symex.State()
                try:
                    setup(ex, st)
                    ex.run(st)
                except symex.Outside as e:
                    u.outside.append((fx.id + f"[{label}]", str(e)))
                    continue
                for o in ex.obligations + ex.canaries:
                    o.id = o.id + f"[{label}]"
                u.obligations += ex.obligations
                u.canaries += ex.canaries
                u.assumptions |= set(ex.assumption_ids)
            u.replay_module = rm
            u.to_case = _to_case_plan(rm)
            return u
        unit.__name__ = name
        return unit

    out = []
    if prop == "C09":
        out.append(mk("write_loop", "command_line", "signals_to_torch_feat_dir", sel_write_loop, "write-loop", contract_write_loop,
                      [("manifest", setup_write_loop(True)), ("no_manifest", setup_write_loop(False))], "rtc.c09"))
    if prop == "C10":
        out.append(mk("write_loop", "command_line", "signals_to_torch_feat_dir", sel_write_loop, "write-loop", contract_write_loop,
                      [("manifest", setup_write_loop(True)), ("no_manifest", setup_write_loop(False))], "rtc.c10"))
        out.append(mk("torch_seed", "command_line", "signals_to_torch_feat_dir", sel_assign_or_if_seed, "seed-selection", contract_torch_seed,
                      [("seed_given", setup_seed(True)), ("seed_absent", setup_seed(False))], "rtc.c10"))
        out.append(mk("getitem_seed", "command_line", "_FeatureProcessorDataset.__getitem__", sel_getitem_prefix, "seeding-prefix", contract_getitem,
                      [("full_map_index", setup_getitem(True))], "rtc.c10"))
    full = [(f"ndim{nd}_pre{a}_post{b}_{'comp' if hc else 'nocomp'}_{'map' if wm else 'nomap'}", nd, a, b, hc, wm)
            for nd in (1, 2) for (a, b) in ((0, 0), (2, 2)) for hc in (True, False) for wm in (True, False)]

    def mk_full():
        def unit(tier, known):
            from pyvc.check import UnitResult as UR
            u = UR("getitem_pipeline")
            try:
                fx = extract.get_function("command_line", "_FeatureProcessorDataset.__getitem__")
            except KeyError as e:
                u.outside.append(("command_line:_FeatureProcessorDataset.__getitem__", str(e)))
                return u
            u.functions.append(fx.describe())
            for label, nd, a, b, hc, wm in full:
                ex = symex.Executor(fx, contract_getitem_full(nd, a, b, hc, wm), prop)
                ex.fname = "getitem_pipeline"
                st = symex.State()
                try:
                    setup_getitem_full(nd, a, b, hc, wm)(ex, st)
                    ex.run(st)
                except symex.Outside as e:
                    u.outside.append((fx.id + f"[{label}]", str(e)))
                    continue
                for o in ex.obligations + ex.canaries:
                    o.id = o.id + f"[{label}]"
                u.obligations += ex.obligations
                u.canaries += ex.canaries
                u.assumptions |= set(ex.assumption_ids)
            u.replay_module = "rtc." + prop.lower()
            u.to_case = _to_case_plan(u.replay_module)
            return u
        unit.__name__ = "getitem_pipeline"
        return unit
    out.append(mk_full())
    pipe = [(f"{c or 'nocomp'}_{a}_{b}", setup_pipeline(c, a, b)) for (c, a, b) in
            ((None, "list0", "list0"), ("stft", "list2", "list2"), ("si", "list2r", "dict"), ("stft", "dict", "list0"), (None, "list2", "list2"))]
    out.append(mk("pipeline_construction", "command_line", "signals_to_torch_feat_dir", sel_pipeline, "pipeline-construction", contract_pipeline, pipe,
                  "rtc." + prop.lower()))
    out.append(mk("resume", "command_line", "signals_to_torch_feat_dir", sel_resume, "resume-logic", contract_resume,
                  [("manifest", setup_resume(True)), ("no_manifest", setup_resume(False))], "rtc." + prop.lower()))
    if prop == "C09":
        kc = [("lists_ok", setup_kaldi_construction("list2", "list2", None)), ("dicts_ok", setup_kaldi_construction("dict", "dict", None)),
              ("empty_ok", setup_kaldi_construction("list0", "list0", None)), ("computer_fails", setup_kaldi_construction("list2", "list2", ("comp",))),
              ("second_pre_fails", setup_kaldi_construction("list2", "list2", ("pre", 1))), ("first_post_fails", setup_kaldi_construction("list0", "list2", ("post", 0)))]
        out.append(mk("kaldi_construction", "command_line", "compute_feats_from_kaldi_tables", sel_kaldi_construction, "object-construction",
                      contract_kaldi_construction, kc, "rtc.c09"))
        out.append(mk("kaldi_loop", "command_line", "compute_feats_from_kaldi_tables", sel_kaldi_loop, "utterance-loop", contract_kaldi_loop,
                      [(f"pre{a}_post{b}", setup_kaldi_loop(a, b)) for a, b in ((0, 0), (2, 2), (1, 0), (0, 1))], "rtc.c09"))
        out.append(mk("kaldi_seed", "command_line", "compute_feats_from_kaldi_tables", sel_if_mentions("options.seed"), "seed-selection", contract_kaldi_seed,
                      [("seed_given", setup_seed(True)), ("seed_absent", setup_seed(False))], "rtc.c09"))
        out.append(mk("torch_seed", "command_line", "signals_to_torch_feat_dir", sel_assign_or_if_seed, "seed-selection", contract_torch_seed,
                      [("seed_given", setup_seed(True)), ("seed_absent", setup_seed(False))], "rtc.c09"))
    return out


# ---------------------------------------------------------------------------------------------- S5 the Kaldi tool's utterance loop
# compute_feats_from_kaldi_tables, `for utt_id, (buff, samp_freq, duration) in list(wav_reader.items())` (term level):
#   an utterance is skipped exactly when it is shorter than --min-duration, has another sampling rate than the bank, or --channel
#   names a channel it does not have; otherwise exactly one table entry is written under its id, in input order, holding
#       cast( POST_n(.. POST_1( COMPUTE_FULL( PRE_m(.. PRE_1( buff[channel] as float64 ..)) ) ..)) )
#   where the post-processors are applied iff there is at least one frame, the channel is --channel (channel 0 when it is -1), the
#   pre-processors are applied in order with in_place=True, and the cast to float32 happens iff Kaldi's base matrix is single precision;
#   num_success counts the entries written.

NCH = api.uf("num_channels", api.I, api.I)
NFR = api.uf("num_frames", api.I, api.I)
DUR = api.uf("duration", api.I, api.R)
FRQ = api.uf("samp_freq", api.I, api.R)


class WavBuf:
    def __init__(self, j):
        self.j = j

    def sym_getattr(self, attr, ev, node):
        if attr == "shape":
            return (NCH(Z(self.j)), api.uf("num_samples", api.I, api.I)(Z(self.j)))
        raise Outside(f"buffer attribute .{attr}")

    def sym_getitem(self, sl, ev, node):
        i = Z(ev.eval(sl))
        n = NCH(Z(self.j))
        ev.wd(z3.And(i >= -n, i < n), "channel_index", node)
        return Term(("chan", self.j), chan=simp(z3.If(i < 0, i + n, i)))


class Term:
    """a value of the per-utterance pipeline: a nested tuple of what was applied, plus the (symbolic) channel it started from"""

    def __init__(self, t, chan=None, frames=None):
        self.t, self.chan, self.frames = t, chan, frames

    def sym_len(self):
        if self.frames is None:
            raise Outside("len of a non-feature value")
        return self.frames

    def sym_getattr(self, attr, ev, node):
        if attr == "astype":
            def astype(ev2, args, kwargs, node2):
                dt = args[0]
                copy = kwargs.get("copy", True)
                return Term(("astype", self.t, dt.term if isinstance(dt, Opaque) else dt, copy), self.chan, self.frames)
            return symex.PyCallable(astype)
        raise Outside(f"value attribute .{attr}")


def sel_kaldi_loop(fn):
    return [s for s in fn.body if isinstance(s, ast.For) and "wav_reader" in ast.unparse(s.iter)] + \
           [s for s in fn.body if isinstance(s, ast.Return) and "num_success" in ast.unparse(s)]


def setup_kaldi_loop(npre, npost):
    def setup(ex, st):
        m = api.sym("m")
        st.assume(m >= 0)
        rate = api.sym("rate", "real")
        j0 = z3.Int("uj")
        st.assume(z3.ForAll([j0], z3.And(NCH(j0) >= 1, NFR(j0) >= 0), patterns=[NCH(j0)]))
        st.assume(z3.ForAll([j0], z3.And(NCH(j0) >= 1, NFR(j0) >= 0), patterns=[NFR(j0)]))
        api.mk_obj(st, "options", "Options", {"min_duration": api.sym("min_duration", "real"), "channel": api.sym("channel")})
        st.assume(Z(st.fields[("options", "channel")]) >= -1)
        bank = api.mk_obj(st, "bank", "Bank", {"sampling_rate": rate})
        api.mk_obj(st, "computer", "Computer", {"bank": bank})
        api.mk_obj(st, "wav_reader", "Reader", {})
        api.mk_obj(st, "feat_writer", "Writer", {})
        st.env["preprocessors"] = [api.mk_obj(st, f"pre{k}", "Pre", {"k": k}) for k in range(npre)]
        st.env["postprocessors"] = [api.mk_obj(st, f"post{k}", "Post", {"k": k}) for k in range(npost)]
        st.env["num_utts"], st.env["num_success"] = 0, 0
        st.ghost.update(written=0, last=-1, m=m)
        ex.ctx = dict(m=m, npre=npre, npost=npost, rate=rate, is_double=api.sym("kaldi_base_matrix_is_double", "bool"))
        ex.notes_seen = set()
    return setup


def _skip(ex, st, j):
    ch = Z(st.fields[("options", "channel")])
    return z3.Or(DUR(j) < to_real(st.fields[("options", "min_duration")]), FRQ(j) != ex.ctx["rate"], ch >= NCH(j))


def h_items(ex, st, o, args, kwargs, node, ev):
    return SeqVal(ex.ctx["m"], lambda j: (Opaque(("utt", simp(Z(j))), "str"), (WavBuf(simp(Z(j))), FRQ(Z(j)), DUR(Z(j)))))


def h_pre_apply(ex, st, o, args, kwargs, node, ev):
    (x,) = args
    if not isinstance(x, Term):
        raise Outside("pre-processor input")
    lbl = f"L{node.lineno - ex.fx.lineno}"
    ex.oblige(st, kwargs.get("in_place") is True, f"preprocessors_work_in_place.{lbl}", "spec", node.lineno)
    return Term(("pre", st.fields[(o.oid, "k")], x.t), x.chan)


def h_compute_full(ex, st, o, args, kwargs, node, ev):
    (x,) = args
    if not isinstance(x, Term):
        raise Outside("computer input")
    j = Z(st.env["__zi"])
    st.assume(NFR(j) >= 0)
    return Term(("feats", x.t), x.chan, frames=NFR(j))


def h_post_apply(ex, st, o, args, kwargs, node, ev):
    (x,) = args
    if not isinstance(x, Term) or kwargs:
        raise Outside("post-processor call form")
    return Term(("post", st.fields[(o.oid, "k")], x.t), x.chan, frames=x.frames)


def _expected_term(ex, j, posts_applied, f32):
    t = ("astype", ("chan", j), "float64", False)
    for k in range(ex.ctx["npre"]):
        t = ("pre", k, t)
    t = ("feats", t)
    if posts_applied:
        for k in range(ex.ctx["npost"]):
            t = ("post", k, t)
    if f32:
        t = ("astype", t, "float32", True)
    return t


def _term_eq(a, b):
    """equality of two pipeline terms as a z3 formula: same shape, equal leaves (symbolic leaves compared by the solver)"""
    if isinstance(a, tuple) and isinstance(b, tuple):
        if len(a) != len(b):
            return z3.BoolVal(False)
        parts = [_term_eq(x, y) for x, y in zip(a, b)]
        return z3.And(*parts) if parts else z3.BoolVal(True)
    if isinstance(a, tuple) or isinstance(b, tuple):
        return z3.BoolVal(False)
    if symex.is_z3(a) or symex.is_z3(b):
        try:
            return Z(a) == Z(b)
        except Exception:
            return z3.BoolVal(False)
    return z3.BoolVal(a == b)


def h_write(ex, st, o, args, kwargs, node, ev):
    key, val = args
    lbl = f"L{node.lineno - ex.fx.lineno}"
    j = Z(st.env["__zi"])
    if not isinstance(val, Term):
        raise Outside("written value")
    ex.oblige(st, _term_eq(key.term, ("utt", simp(j))) if isinstance(key, Opaque) else False, f"written_under_its_own_id.{lbl}", "trace", node.lineno)
    ex.oblige(st, z3.Not(_skip(ex, st, j)), f"skipped_utterances_are_not_written.{lbl}", "trace", node.lineno)
    ex.oblige(st, Z(st.ghost["last"]) < j, f"once_and_in_input_order.{lbl}", "trace", node.lineno)
    ch = Z(st.fields[("options", "channel")])
    ex.oblige(st, Z(val.chan) == z3.If(ch == -1, 0, ch), f"channel_is_the_requested_one_or_0.{lbl}", "trace", node.lineno)
    # the pipeline term the statement specifies, by cases on "at least one frame" and on Kaldi's base precision
    cases = []
    for has_frames in (True, False):
        for dbl in (True, False):
            cond = z3.And((NFR(j) > 0) if has_frames else (NFR(j) <= 0), Zb(ex.ctx["is_double"]) if dbl else z3.Not(Zb(ex.ctx["is_double"])))
            cases.append(z3.And(cond, _term_eq(val.t, _expected_term(ex, simp(j), has_frames, not dbl))))
    ex.oblige(st, z3.Or(*cases), f"stored_value_is_the_configured_pipeline.{lbl}", "trace", node.lineno)
    st.ghost["last"] = j
    st.ghost["written"] = simp(Z(st.ghost["written"]) + 1)
    ex.assumption_ids.update(["A-IO-CONTAINER"])
    return None


def h_on_continue(ex, st, node):
    j = Z(st.env["__zi"])
    ex.oblige(st, _skip(ex, st, j), f"only_the_documented_skips.L{node.lineno - ex.fx.lineno}", "trace", node.lineno)


def _noop(ex, st, o, args, kwargs, node, ev):
    return None


def _kaldi_attr_any(ex, st, o, name, node, ev):
    if isinstance(o, Opaque) and o.kind == "enum" and name == "BaseMatrix":
        return Opaque("BaseMatrix", "enum")
    if isinstance(o, Opaque) and o.kind == "enum" and name == "is_double":
        return ex.ctx["is_double"]
    return NotImplemented


def contract_kaldi_loop():
    return Contract(
        target="command_line:compute_feats_from_kaldi_tables", uses=["A-PYSEM", "A-IO-CONTAINER"],
        consts={"np.float64": Opaque("float64", "dtype"), "np.float32": Opaque("float32", "dtype"),
                "KaldiDataType.BaseMatrix.is_double": SpecFn(lambda ev: ev.ex.ctx["is_double"]), "ISLIST": SpecFn(lambda ev, a: True),
                "logger": Opaque("logger", "logger"), "KaldiDataType": Opaque("KaldiDataType", "enum")},
        handlers={"Reader.items": h_items, "Pre.apply": h_pre_apply, "Computer.compute_full": h_compute_full, "Post.apply": h_post_apply,
                  "Writer.write": h_write, "on_continue": h_on_continue,
                  "opaque.warn": _noop, "opaque.warning": _noop, "opaque.info": _noop, "opaque.log": _noop, "opaque.error": _noop,
                  "attr_any": _kaldi_attr_any},
        loops={0: LoopSpec(kind="for", modifies_ghost=["written", "last"], invariant=[
            ("counts", "num_utts == __zi and num_success == written and last < __zi and 0 <= written <= __zi")])},
        ensures=[("exit_status_zero_iff_something_written", "result == ite(written >= 1, 0, 1)")],
    )


# ---------------------------------------------------------------------------------------------- S6 the torch tool's per-utterance pipeline
# _FeatureProcessorDataset.__getitem__ (whole body, term level): item idx is (utt_id, float32( POST_n(.. POST_1( COMPUTER( PRE_m(..
# PRE_1( from_numpy( read_signal(path, float64, force_as, key=utt_id)[channel] ) ..)) ) ..)) )) with the RNG seeded by seed + the
# utterance's position in the full map BEFORE anything else; ValueError exactly when --channel is unset for a multi-channel signal,
# set for a 1-D signal, or too large; a missing computer passes the signal on as a one-column matrix; the dataset object is not assigned.


class SigVal:
    def __init__(self, t, ndim, nchan):
        self.t, self.ndim, self.nchan = t, ndim, nchan

    def sym_getattr(self, attr, ev, node):
        if attr == "ndim":
            return self.ndim
        if attr == "shape":
            return (self.nchan, Opaque("S", "int")) if self.ndim == 2 else (api.sym("S"),)
        if attr == "unsqueeze":
            return symex.PyCallable(lambda ev2, a, k, n2: SigVal(("unsqueeze", self.t, a[0]), 2, None))
        if attr == "float":
            return symex.PyCallable(lambda ev2, a, k, n2: SigVal(("float", self.t), self.ndim, self.nchan))
        raise Outside(f"signal attribute .{attr}")

    def sym_getitem(self, sl, ev, node):
        i = Z(ev.eval(sl))
        ev.wd(z3.And(i >= -Z(self.nchan), i < Z(self.nchan)), "channel_index", node)
        return SigVal(("chan", self.t, simp(z3.If(i < 0, i + Z(self.nchan), i))), 1, None)


def setup_getitem_full(ndim, npre, npost, has_computer, with_map):
    def setup(ex, st):
        idx, seed, chan, nchan, m = api.sym("idx"), api.sym("seed"), api.sym("channel"), api.sym("nchan"), api.sym("m")
        st.assume(z3.And(idx >= 0, idx < m, chan >= -1, nchan >= 1, api.sym("S") >= 0))      # S: a length

        def proc(kind, k):
            return symex.PyCallable(lambda ev, a, kw, n: SigVal((kind, k, a[0].t), a[0].ndim, a[0].nchan) if len(a) == 1 and isinstance(a[0], SigVal) and not kw
                                    else (_ for _ in ()).throw(Outside("processor call form")))
        comp = proc("computer", 0) if has_computer else None
        utt2idx = SeqVal(m, lambda u: IDX(Z(u))) if with_map else None
        api.mk_obj(st, "self", "Dataset", {
            "utt_path": SeqVal(m, lambda j: (UTT(Z(j)), Opaque(("path", simp(Z(j))), "str"))),
            "preprocessors": [proc("pre", k) for k in range(npre)], "postprocessors": [proc("post", k) for k in range(npost)],
            "computer": comp, "channel": chan, "force_as": Opaque("FORCE_AS", "str"), "seed": seed, "utt2idx": _Utt2Idx() if with_map else None})
        st.env["idx"] = idx
        st.ghost.update(seeded=[], reads=[], rng_touched=False)
        ex.ctx = dict(idx=idx, seed=seed, chan=chan, nchan=nchan, ndim=ndim, npre=npre, npost=npost, has_computer=has_computer, with_map=with_map)
    return setup


class _Utt2Idx:
    def sym_getitem(self, sl, ev, node):
        return IDX(Z(ev.eval(sl)))


def h_manual_seed_full(ex, st, args, kwargs, node, ev):
    lbl = f"L{node.lineno - ex.fx.lineno}"
    ex.oblige(st, not st.ghost["reads"], f"seeded_before_anything_else.{lbl}", "trace", node.lineno)
    st.ghost["seeded"] = st.ghost["seeded"] + [args[0]]
    return None


def h_read_signal_full(ex, st, args, kwargs, node, ev):
    lbl = f"L{node.lineno - ex.fx.lineno}"
    idx = ex.ctx["idx"]
    ok = len(args) == 1 and isinstance(args[0], Opaque) and set(kwargs) == {"dtype", "force_as", "key"}
    ex.oblige(st, ok, f"read_signal_called_with_path_dtype_force_as_key.{lbl}", "trace", node.lineno)
    if ok:
        ex.oblige(st, _term_eq(args[0].term, ("path", simp(idx))), f"reads_this_utterances_path.{lbl}", "trace", node.lineno)
        ex.oblige(st, isinstance(kwargs["dtype"], Opaque) and kwargs["dtype"].term == "float64", f"reads_as_float64.{lbl}", "trace", node.lineno)
        ex.oblige(st, kwargs["force_as"] is st.fields[("self", "force_as")], f"passes_force_as.{lbl}", "trace", node.lineno)
        ex.oblige(st, Z(kwargs["key"]) == UTT(idx) if symex.is_z3(kwargs["key"]) else False, f"key_is_the_utterance_id.{lbl}", "trace", node.lineno)
    st.ghost["reads"] = st.ghost["reads"] + [1]
    return SigVal(("signal", simp(idx)), ex.ctx["ndim"], ex.ctx["nchan"] if ex.ctx["ndim"] == 2 else None)


def h_from_numpy(ex, st, args, kwargs, node, ev):
    (x,) = args
    return SigVal(("from_numpy", x.t), x.ndim, x.nchan)


HASH = api.uf("python_hash", api.I, api.I)       # hash(): some integer - for str it even differs from process to process


def h_hash(ex, st, args, kwargs, node, ev):
    (x,) = args
    if isinstance(x, Opaque):
        return z3.Int("python_hash_of_" + "".join(ch if ch.isalnum() else "_" for ch in str(x.term)))
    if not symex.is_z3(x):
        raise Outside("hash of a non-scalar")
    return HASH(Z(x))


def contract_getitem_full(ndim, npre, npost, has_computer, with_map):
    def expected(ev):
        ex = ev.ex
        idx, chan = ex.ctx["idx"], ex.ctx["chan"]
        t = ("signal", simp(idx))
        if ndim == 2:
            t = ("chan", t, simp(z3.If(chan < 0, chan + ex.ctx["nchan"], chan)))
        t = ("from_numpy", t)
        for k in range(npre):
            t = ("pre", k, t)
        t = ("computer", 0, t) if has_computer else ("unsqueeze", t, 1)
        for k in range(npost):
            t = ("post", k, t)
        return ("float", t)

    def result_ok(ev, res):
        if not (isinstance(res, tuple) and len(res) == 2 and isinstance(res[1], SigVal)):
            return z3.BoolVal(False)
        return z3.And(Z(res[0]) == UTT(ev.ex.ctx["idx"]) if symex.is_z3(res[0]) else z3.BoolVal(False), _term_eq(res[1].t, expected(ev)))

    def seeded_ok(ev):
        s = ev.st.ghost["seeded"]
        if len(s) != 1:
            return z3.BoolVal(False)
        pos = IDX(UTT(ev.ex.ctx["idx"])) if with_map else ev.ex.ctx["idx"]
        return Z(s[0]) == ev.ex.ctx["seed"] + pos

    if ndim == 1:
        bad = "self.channel != -1"
    else:
        bad = "(self.channel == -1 and NCHAN() > 1) or self.channel >= NCHAN()"
    c = Contract(
        target="command_line:_FeatureProcessorDataset.__getitem__", uses=["A-PYSEM", "A-TORCH", "A-IO-CONTAINER"],
        consts={"np.float64": Opaque("float64", "dtype"), "RESULT_OK": SpecFn(result_ok), "SEEDED_OK": SpecFn(seeded_ok),
                "NCHAN": SpecFn(lambda ev: ev.ex.ctx["nchan"]), "FIELD_WRITES": SpecFn(lambda ev: len([w for w in ev.st.writes if w and w[0] == "field"]))},
        handlers={"torch.manual_seed": h_manual_seed_full, "read_signal": h_read_signal_full, "torch.from_numpy": h_from_numpy, "hash": h_hash},
        raises={"ValueError": bad},
        ensures=[("item_is_id_and_the_configured_pipeline", "RESULT_OK(result)"), ("seed_is_base_plus_position_in_full_map", "SEEDED_OK()"),
                 ("dataset_not_assigned", "FIELD_WRITES() == 0")],
    )
    return c


# ---------------------------------------------------------------------------------------------- S7 the torch tool's resume logic
# signals_to_torch_feat_dir, the two statements `utt2idx = dict(... enumerate(utt2path))` and `if options.manifest is not None: ...`:
# (a) utt2idx maps every utterance of the FULL map to its position there (it is computed before anything is removed);
# (b) with a manifest, the file is rewound and the utterances removed from the work list are exactly the stripped manifest lines, one
#     pop per line and in order, each with a default (a listed utterance that is not in the map does not abort the run);
# (c) without a manifest nothing is removed.
# Library contracts assumed (A-IO-TEXT, A-PYSEM): iterating a text file yields its lines from the current position; seek(0) rewinds;
# dict.pop(k, d) removes k if present and never raises; enumerate(dict) yields (position, key) in insertion order.

KEY = api.uf("map_key", api.I, api.I)                 # j-th utterance id of the full map (insertion order)
SL = api.uf("stripped_manifest_line", api.I, api.I)   # k-th line of the manifest, stripped
RAWL = api.uf("raw_manifest_line", api.I, api.I)      # k-th line of the manifest as read (with its newline)


def sel_resume(fn):
    out = [s for s in fn.body if isinstance(s, ast.Assign) and "utt2idx" in [getattr(t, "id", None) for t in s.targets]]
    out += [s for s in fn.body if isinstance(s, ast.If) and "options.manifest" in ast.unparse(s.test) and "utt2path" in ast.unparse(s)]
    return sorted(out, key=lambda s: s.lineno)


class _Line:
    def __init__(self, k):
        self.k = k

    def sym_getattr(self, attr, ev, node):
        if attr == "strip":
            return symex.PyCallable(lambda ev2, a, kw, n2: SL(Z(self.k)) if not a and not kw else (_ for _ in ()).throw(Outside("strip with arguments")))
        raise Outside(f"manifest line attribute .{attr}")


class _Manifest:
    def sym_getattr(self, attr, ev, node):
        if attr == "seek":
            def seek(ev2, a, kw, n2):
                if len(a) != 1 or kw or not isinstance(a[0], int):
                    raise Outside("seek form")
                ev2.st.ghost["at_start"] = (a[0] == 0)
                return None
            return symex.PyCallable(seek)
        raise Outside(f"manifest attribute .{attr}")

    def sym_iter(self, ev, node):
        n = ev.ex.ctx["L"] if ev.st.ghost["at_start"] is True else 0       # opened for appending: positioned at the end until rewound
        ev.st.ghost["at_start"] = False
        return SeqVal(n, lambda k: _Line(simp(Z(k))))


class _WorkList:
    """utt2path: the keys are KEY(0..m) minus the popped ones (ghost trace POPPED[0..np))"""
    def sym_getattr(self, attr, ev, node):
        if attr == "pop":
            def pop(ev2, a, kw, n2):
                st = ev2.st
                lbl = f"L{n2.lineno - ev2.ex.fx.lineno}"
                ev2.ex.oblige(st, len(a) == 2 and not kw, f"pop_has_a_default_and_cannot_raise.{lbl}", "trace", n2.lineno)
                key = RAWL(Z(a[0].k)) if a and isinstance(a[0], _Line) else (a[0] if a else None)
                if not symex.is_z3(key):
                    raise Outside("popped key is not an utterance id")
                st.ghost["POPPED"] = z3.Store(st.ghost["POPPED"], Z(st.ghost["np"]), Z(key))
                st.ghost["np"] = simp(Z(st.ghost["np"]) + 1)
                return Opaque("popped", "object")
            return symex.PyCallable(pop)
        raise Outside(f"work list attribute .{attr}")


class _Map:
    def __init__(self, n, getter):
        self.n, self.getter = n, getter


def h_enumerate(ex, st, args, kwargs, node, ev):
    if len(args) != 1 or kwargs or not isinstance(args[0], _WorkList):
        raise Outside("enumerate form")
    if st.ghost["np"] == 0:
        return SeqVal(ex.ctx["m"], lambda j: (simp(Z(j)), KEY(Z(j))))
    # enumerated AFTER something was removed: positions in the reduced list, unrelated to the full map
    rk = api.uf("reduced_key", api.I, api.I)
    return SeqVal(api.sym("m_reduced"), lambda j: (simp(Z(j)), rk(Z(j))))


def h_dict(ex, st, args, kwargs, node, ev):
    if len(args) != 1 or kwargs or not isinstance(args[0], SeqVal):
        raise Outside("dict() form")
    return _Map(args[0].n, args[0].getter)


def setup_resume(with_manifest):
    def setup(ex, st):
        m, L = api.sym("m"), api.sym("L")
        st.assume(z3.And(m >= 0, L >= 0))
        api.mk_obj(st, "options", "Options", {"manifest": _Manifest() if with_manifest else None})
        st.env["utt2path"] = _WorkList()
        st.ghost.update(at_start=False, np=0, POPPED=z3.Array("POPPED", api.I, api.I))
        ex.ctx = dict(m=m, L=L, with_manifest=with_manifest)
    return setup


def contract_resume():
    def utt2idx_ok(ev):
        v = ev.st.env.get("utt2idx")
        if not isinstance(v, _Map):
            return z3.BoolVal(False)
        j = z3.Int("jq")
        item = v.getter(j)
        if not (isinstance(item, tuple) and len(item) == 2 and symex.is_z3(item[0])):
            return z3.BoolVal(False)
        return z3.And(Z(v.n) == ev.ex.ctx["m"], z3.ForAll([j], z3.Implies(z3.And(j >= 0, j < ev.ex.ctx["m"]), z3.And(item[0] == KEY(j), Z(item[1]) == j))))

    def removed_ok(ev):
        L, g = ev.ex.ctx["L"], ev.st.ghost
        if not ev.ex.ctx["with_manifest"]:
            return Z(g["np"]) == 0
        k = z3.Int("kq")
        return z3.And(Z(g["np"]) == L, z3.ForAll([k], z3.Implies(z3.And(k >= 0, k < L), z3.Select(g["POPPED"], k) == SL(k))))

    def inv(ev):
        g = ev.st.ghost
        k = z3.Int("kq")
        zi = Z(ev.st.env["__zi"])
        return z3.And(zi >= 0, zi <= ev.ex.ctx["L"], Z(g["np"]) == zi,
                      z3.ForAll([k], z3.Implies(z3.And(k >= 0, k < zi), z3.Select(g["POPPED"], k) == SL(k))))

    return Contract(
        target="command_line:signals_to_torch_feat_dir", uses=["A-PYSEM", "A-IO-TEXT"],
        consts={"UTT2IDX_OK": SpecFn(utt2idx_ok), "REMOVED_OK": SpecFn(removed_ok), "INV": SpecFn(inv)},
        handlers={"enumerate": h_enumerate, "dict": h_dict},
        loops={0: LoopSpec(kind="for", modifies_ghost=["np", "POPPED"], invariant=[("pops_are_the_stripped_lines_so_far", "INV()")])},
        ensures=[("utt2idx_is_the_position_in_the_full_map", "UTT2IDX_OK()"),
                 ("removed_are_exactly_the_manifest_lines", "REMOVED_OK()")],
    )


# ---------------------------------------------------------------------------------------------- S8 configuration arguments
# _config_type (the argparse `type=` of every configuration option of both tools): the value handed to the tools is
# _load_config(TEXT) where TEXT is the content of the file the argument names if it can be opened, and the argument itself otherwise -
# one parse, of exactly that text, so a configuration given inline, as a JSON file or as a YAML file reaches the tools as the same object
# whenever the parser reads the three texts as the same tree (A-JSON); ValueError iff the parser rejects the text.
class _CfgFile:
    def sym_getattr(self, attr, ev, node):
        if attr == "read":
            def read(ev2, a, kw, n2):
                if a or kw:
                    raise Outside("read form")
                ev2.st.ghost["reads"] = ev2.st.ghost["reads"] + 1
                return Opaque("FILE_TEXT", "str")
            return symex.PyCallable(read)
        raise Outside(f"file attribute .{attr}")


def setup_config_type(is_file, parses):
    def setup(ex, st):
        st.env["string"] = Opaque("ARGUMENT", "str")
        st.ghost.update(opens=[], reads=0, parsed=[])
        ex.ctx = dict(is_file=is_file, parses=parses)
    return setup


def h_cfg_open(ex, st, args, kwargs, node, ev):
    st.ghost["opens"] = st.ghost["opens"] + [tuple(a.term if isinstance(a, Opaque) else a for a in args) + tuple(sorted(kwargs))]
    if not ex.ctx["is_file"]:
        ex.sym_raise("IOError")
    return _CfgFile()


def h_cfg_load(ex, st, args, kwargs, node, ev):
    t = args[0].term if len(args) == 1 and isinstance(args[0], Opaque) and not kwargs else None
    st.ghost["parsed"] = st.ghost["parsed"] + [t]
    if not ex.ctx["parses"]:
        ex.sym_raise("Exception")
    return Opaque(("config_tree_of", t), "tree")


def contract_config_type():
    def ok(ev, res):
        st, c = ev.st, ev.ex.ctx
        want = "FILE_TEXT" if c["is_file"] else "ARGUMENT"
        return (isinstance(res, Opaque) and res.term == ("config_tree_of", want) and st.ghost["parsed"] == [want]
                and st.ghost["opens"] == [("ARGUMENT",)] and st.ghost["reads"] == (1 if c["is_file"] else 0))

    return Contract(
        target="command_line:_config_type", uses=["A-PYSEM", "A-JSON"],
        consts={"OK": SpecFn(ok), "REJECTED": SpecFn(lambda ev: not ev.ex.ctx["parses"]), "_HAVE_YAML": api.sym("have_yaml", "bool")},
        handlers={"open": h_cfg_open, "_load_config": h_cfg_load, "opaque.endswith": lambda ex, st, o, args, kwargs, node, ev: symex.fresh("endswith", "bool")},
        raises={"ValueError": "REJECTED()"},
        ensures=[("one_parse_of_the_files_text_or_of_the_argument_itself", "OK(result)")],
    )


def unit_config_type(prop="C09"):
    def unit(tier, known):
        from contracts.registry import run_contract
        setups = [(f"{'file' if f else 'inline'}_{'ok' if p else 'rejected'}", setup_config_type(f, p)) for f in (True, False) for p in (True, False)]
        return run_contract(prop, ("command_line", "_config_type"), contract_config_type(), setups, name="config_type", fname="_config_type",
                            to_case=_to_case_plan("rtc." + prop.lower()), replay_module="rtc." + prop.lower())
    unit.__name__ = "config_type"
    return unit


# ---------------------------------------------------------------------------------------------- S9 the torch tool's pipeline construction
# signals_to_torch_feat_dir, from `if options.computer_config is None:` to the DataLoader: the dataset is built with
#   the work list, the pre-processors IN CONFIGURED ORDER each replaced by its torch counterpart (Dither -> PyTorchDither.from_dither,
#   Preemphasize -> PyTorchPreemphasize.from_preemphasize), the computer's torch counterpart (or None), the post-processors in configured
#   order each wrapped by PyTorchPostProcessorWrapper.from_postprocessor - as LISTS, i.e. re-iterable for every utterance -, and
#   options.channel, options.force_as, the base seed and the full-map position table unchanged;
# the loader iterates that dataset with options.num_workers. Configuration -> object is alias_factory_subclass_from_arg (contract: C08).
class _Made:
    def __init__(self, fam, cfg, kind):
        self.fam, self.cfg, self.kind = fam, cfg, kind


class _Wrapped:
    def __init__(self, how, obj):
        self.how, self.obj = how, obj


class _Dataset:
    def __init__(self, args):
        self.args = args


def sel_pipeline(fn):
    out, on = [], False
    for s in fn.body:
        txt = ast.unparse(s)
        if isinstance(s, ast.If) and txt.startswith("if options.computer_config is None"):
            on = True
        if on:
            out.append(s)
        if on and isinstance(s, ast.Assign) and txt.startswith("loader ="):
            return out
    return []


def setup_pipeline(comp, pre_form, post_form):
    """comp: None | 'stft' | 'si';  pre_form / post_form: 'dict' | 'list0' | 'list2' | 'list2r'"""
    def setup(ex, st):
        def cfgs(form, fam):
            if form == "dict":
                return {"name": Opaque((fam, "cfg", 0), "cfg")}, 1
            n = 0 if form == "list0" else 2
            return [Opaque((fam, "cfg", j), "cfg") for j in range(n)], n
        pre_cfg, npre = cfgs(pre_form, "pre")
        post_cfg, npost = cfgs(post_form, "post")
        api.mk_obj(st, "options", "Options", {"computer_config": None if comp is None else Opaque(("comp", "cfg"), "cfg"), "preprocess": pre_cfg,
                                             "postprocess": post_cfg, "channel": Opaque("CHANNEL", "int"), "force_as": Opaque("FORCE_AS", "str"),
                                             "num_workers": Opaque("NUM_WORKERS", "int"), "dir": Opaque("DIR", "str")})
        st.env.update(utt2path=Opaque("UTT2PATH", "dict"), utt2idx=Opaque("UTT2IDX", "dict"), seed=Opaque("SEED", "int"))
        kinds = ["dither", "preemph"] if pre_form != "list2r" else ["preemph", "dither"]
        ex.ctx = dict(comp=comp, pre_form=pre_form, post_form=post_form, npre=npre, npost=npost, pre_kinds=kinds[:npre] if pre_form != "dict" else ["dither"])
        st.ghost.update(datasets=[], loaders=[])
    return setup


def contract_pipeline():
    def h_factory(ex, st, args, kwargs, node, ev):
        fam, cfg = args
        famn = fam.term if isinstance(fam, Opaque) else str(fam)
        c = ex.ctx
        if famn == "FrameComputer":
            return _Made("comp", cfg, c["comp"])
        if famn == "PreProcessor":
            j = cfg.term[2] if isinstance(cfg, Opaque) else (cfg["name"].term[2] if isinstance(cfg, dict) else None)
            return _Made("pre", cfg, c["pre_kinds"][j])
        if famn == "PostProcessor":
            return _Made("post", cfg, "post")
        raise Outside("alias factory family")

    def h_isinstance(ex, st, args, kwargs, node, ev):
        obj, cls = args
        cn = cls.term if isinstance(cls, Opaque) else None
        if isinstance(obj, dict):
            return cn == "dict"
        if isinstance(obj, list):
            return cn == "list"
        if isinstance(obj, _Made):
            return {"STFTFrameComputer": "stft", "SIFrameComputer": "si", "Dither": "dither", "Preemphasize": "preemph"}.get(cn) == obj.kind
        raise Outside("isinstance form")

    def wrap(how):
        def h(ex, st, args, kwargs, node, ev):
            if len(args) != 1 or kwargs or not isinstance(args[0], _Made):
                raise Outside("wrapper call form")
            return _Wrapped(how, args[0])
        return h

    def h_dataset(ex, st, args, kwargs, node, ev):
        d = _Dataset(list(args) + [("kw", k, v) for k, v in kwargs.items()])
        st.ghost["datasets"] = st.ghost["datasets"] + [d]
        return d

    def h_loader(ex, st, args, kwargs, node, ev):
        st.ghost["loaders"] = st.ghost["loaders"] + [(tuple(args), dict(kwargs))]
        return Opaque("LOADER", "loader")

    def ok(ev):
        st, c = ev.st, ev.ex.ctx
        ds, ls = st.ghost["datasets"], st.ghost["loaders"]
        if len(ds) != 1 or len(ls) != 1:
            return False
        a = ds[0].args
        if len(a) != 8 or any(isinstance(x, tuple) and x and x[0] == "kw" for x in a):
            return False
        utt2path, pre, comp, post, channel, force_as, seed, utt2idx = a
        env, f = st.env, st.fields
        if utt2path is not env["utt2path"] or utt2idx is not env["utt2idx"] or seed is not env["seed"]:
            return False
        if channel is not f[("options", "channel")] or force_as is not f[("options", "force_as")]:
            return False
        # pre-processors: a list, configured order, the right torch counterpart each
        if not isinstance(pre, list) or len(pre) != c["npre"]:
            return False
        want_how = {"dither": "PyTorchDither.from_dither", "preemph": "PyTorchPreemphasize.from_preemphasize"}
        for j, w in enumerate(pre):
            if not (isinstance(w, _Wrapped) and w.obj.fam == "pre" and w.how == want_how[c["pre_kinds"][j]]):
                return False
            cfgj = w.obj.cfg
            tj = cfgj.term[2] if isinstance(cfgj, Opaque) else (cfgj["name"].term[2] if isinstance(cfgj, dict) else None)
            if tj != j:
                return False
        if not isinstance(post, list) or len(post) != c["npost"]:
            return False
        for j, w in enumerate(post):
            if not (isinstance(w, _Wrapped) and w.obj.fam == "post" and w.how == "PyTorchPostProcessorWrapper.from_postprocessor"):
                return False
            cfgj = w.obj.cfg
            tj = cfgj.term[2] if isinstance(cfgj, Opaque) else (cfgj["name"].term[2] if isinstance(cfgj, dict) else None)
            if tj != j:
                return False
        if c["comp"] is None:
            if comp is not None:
                return False
        else:
            how = {"stft": "PyTorchSTFTFrameComputer.from_stft_frame_computer", "si": "PyTorchSIFrameComputer.from_si_frame_computer"}[c["comp"]]
            if not (isinstance(comp, _Wrapped) and comp.how == how and comp.obj.fam == "comp"):
                return False
        (largs, lkw) = ls[0]
        return len(largs) == 1 and largs[0] is ds[0] and set(lkw) == {"num_workers"} and lkw["num_workers"] is f[("options", "num_workers")]

    class _OneShot:
        """map(...) / a generator: can be iterated ONCE - not what a dataset that serves many utterances needs"""
        def __init__(self, items):
            self.items = items

    def h_map(ex, st, args, kwargs, node, ev):
        if len(args) != 2 or kwargs or not isinstance(args[1], list) or not isinstance(args[0], symex.PyCallable):
            raise Outside("map form")
        return _OneShot([args[0].fn(ev, [x], {}, node) for x in args[1]])

    names = ["FrameComputer", "PreProcessor", "PostProcessor", "STFTFrameComputer", "SIFrameComputer", "Dither", "Preemphasize", "dict", "list"]
    consts = {n_: Opaque(n_, "class") for n_ in names}
    consts["OK"] = SpecFn(ok)
    handlers = {"alias_factory_subclass_from_arg": h_factory, "isinstance": h_isinstance, "_FeatureProcessorDataset": h_dataset, "map": h_map,
                "torch.utils.data.DataLoader": h_loader}
    class _ClsRef:
        def __init__(self, name):
            self.name = name

        def sym_getattr(self, attr, ev, node):
            h = wrap(f"{self.name}.{attr}")
            return symex.PyCallable(lambda ev2, a, kw, n2: h(ev2.ex, ev2.st, a, kw, n2, ev2))

    for cname in ("PyTorchDither", "PyTorchPreemphasize", "PyTorchPostProcessorWrapper", "PyTorchSTFTFrameComputer", "PyTorchSIFrameComputer"):
        consts[cname] = _ClsRef(cname)
    return Contract(target="command_line:signals_to_torch_feat_dir", uses=["A-PYSEM", "A-TORCH"], consts=consts, handlers=handlers,
                    ensures=[("dataset_gets_the_configured_pipeline_in_order_as_lists", "OK()")])


# ---------------------------------------------------------------------------------------------- S10 the Kaldi tool's object construction
# compute_feats_from_kaldi_tables, the three try-blocks that turn the configuration arguments into objects: the computer, the pre-processors
# and the post-processors are alias_factory_subclass_from_arg of their family and of the configured element, one per element IN CONFIGURED
# ORDER (a single mapping counts as one element); a ValueError of any of these constructions ends the run with exit status 1 before any table
# is opened.
def sel_kaldi_construction(fn):
    out = []
    for s in fn.body:
        txt = ast.unparse(s)
        if isinstance(s, ast.Try) and "alias_factory_subclass_from_arg" in txt:
            out.append(s)
        elif isinstance(s, ast.Assign) and (txt.startswith("preprocessors = []") or txt.startswith("postprocessors = []")):
            out.append(s)
    return out if len(out) == 5 else []


def setup_kaldi_construction(pre_form, post_form, fail_at):
    """fail_at: None | ('comp',) | ('pre', j) | ('post', j): which construction raises ValueError"""
    def setup(ex, st):
        def cfgs(form, fam):
            if form == "dict":
                return {"name": Opaque((fam, "cfg", 0), "cfg")}, 1
            n = 0 if form == "list0" else 2
            return [Opaque((fam, "cfg", j), "cfg") for j in range(n)], n
        pre_cfg, npre = cfgs(pre_form, "pre")
        post_cfg, npost = cfgs(post_form, "post")
        api.mk_obj(st, "options", "Options", {"computer_config": Opaque(("comp", "cfg"), "cfg"), "preprocess": pre_cfg, "postprocess": post_cfg})
        st.env["logger"] = Opaque("logger", "logger")
        st.ghost.update(built=[])
        ex.ctx = dict(npre=npre, npost=npost, fail_at=fail_at)
    return setup


def contract_kaldi_construction():
    def idx_of(cfg):
        if isinstance(cfg, Opaque):
            return cfg.term
        if isinstance(cfg, dict):
            return cfg["name"].term
        return None

    def h_factory(ex, st, args, kwargs, node, ev):
        fam, cfg = args
        famn = fam.term if isinstance(fam, Opaque) else str(fam)
        t = idx_of(cfg)
        st.ghost["built"] = st.ghost["built"] + [(famn, t)]
        fa = ex.ctx["fail_at"]
        j_ = t[2] if (t and len(t) > 2) else None
        key = {"FrameComputer": ("comp",), "PreProcessor": ("pre", j_), "PostProcessor": ("post", j_)}.get(famn)
        if fa is not None and key == tuple(fa):
            ex.sym_raise("ValueError")
        return _Made({"FrameComputer": "comp", "PreProcessor": "pre", "PostProcessor": "post"}.get(famn, "?"), cfg, "any")

    def h_isinstance(ex, st, args, kwargs, node, ev):
        obj, cls = args
        cn = cls.term if isinstance(cls, Opaque) else None
        if isinstance(obj, (dict, list)):
            return cn == type(obj).__name__
        raise Outside("isinstance form")

    def ok(ev):
        st, c = ev.st, ev.ex.ctx
        env = st.env
        comp, pre, post = env.get("computer"), env.get("preprocessors"), env.get("postprocessors")
        if not (isinstance(comp, _Made) and comp.fam == "comp" and idx_of(comp.cfg) == ("comp", "cfg")):
            return False
        for lst, fam, n in ((pre, "pre", c["npre"]), (post, "post", c["npost"])):
            if not isinstance(lst, list) or len(lst) != n:
                return False
            for j, m in enumerate(lst):
                if not (isinstance(m, _Made) and m.fam == fam and idx_of(m.cfg) == (fam, "cfg", j)):
                    return False
        want = [("FrameComputer", ("comp", "cfg"))] + [("PreProcessor", ("pre", "cfg", j)) for j in range(c["npre"])] + \
               [("PostProcessor", ("post", "cfg", j)) for j in range(c["npost"])]
        return st.ghost["built"] == want

    def exit1_ok(ev, res):
        return ev.ex.ctx["fail_at"] is not None and res == 1

    consts = {n_: Opaque(n_, "class") for n_ in ("FrameComputer", "PreProcessor", "PostProcessor", "dict", "list")}
    consts.update({"OK": SpecFn(ok), "EXIT1_OK": SpecFn(exit1_ok), "FAILS": SpecFn(lambda ev: ev.ex.ctx["fail_at"] is not None)})
    return Contract(
        target="command_line:compute_feats_from_kaldi_tables", uses=["A-PYSEM"], consts=consts,
        handlers={"alias_factory_subclass_from_arg": h_factory, "isinstance": h_isinstance, "opaque.error": _noop},
        ensures=[("objects_built_from_the_configured_elements_in_order_or_exit_status_1", "EXIT1_OK(result) if FAILS() else (result is None and OK())")],
    )

"""Sidecar contracts: the two audio reader helpers of util.py that need no third-party decoder model beyond an effect trace (C11):
_wave_read_signal (standard-library wave) and _soundfile_read_signal (soundfile).

_wave_read_signal, for the sample widths the property covers (2 and 4 bytes: 16- / 32-bit PCM) and every channel and frame count:
    the file is opened once with the caller's keyword arguments and CLOSED on every way out (normal return, the IOError below);
    ALL frames are read once and interpreted as little-endian signed integers of the file's sample width ('<i2' / '<i4');
    IOError iff the number of samples is not a multiple of the channel count;
    mono: the flat sample vector; multi-channel: reshaped in C order to (samples / channels, channels), i.e. time x channels;
    one astype(dtype) iff a dtype is given, as the last step.
_soundfile_read_signal, for the subtypes the property covers (PCM_16: 16-bit flac / aiff / wav) and the other exact mappings of the code
that libsndfile can deliver losslessly (PCM_32 -> int32, FLOAT -> float32, DOUBLE -> float64, PCM_S8 -> int8):
    one SoundFile(rfilename, **kwargs), one read(dtype = the NumPy type of the stored subtype) - never the caller's dtype, which would make
    libsndfile rescale floats -, one astype(dtype) iff a dtype is given, as the last step.
Assumed (A-IO-CONTAINER): wave.Wave_read / numpy.frombuffer / soundfile.SoundFile.read return what the file holds.
"""
import ast

import z3

from pyvc import api, symex
from pyvc.api import SpecFn, Z, Zb, Opaque, simp, Outside
from pyvc.symex import Contract
from contracts.readers import Data, h_truthiness


def _ev(st, e):
    st.ghost["trace"] = st.ghost["trace"] + [e]


class WaveFile:
    def sym_getattr(self, attr, ev, node):
        c = ev.ex.ctx
        if attr == "getsampwidth":
            return symex.PyCallable(lambda ev2, a, kw, n2: c["width"])
        if attr == "getnframes":
            return symex.PyCallable(lambda ev2, a, kw, n2: c["nframes"])
        if attr == "getnchannels":
            return symex.PyCallable(lambda ev2, a, kw, n2: c["nchan"])
        if attr == "readframes":
            def readframes(ev2, a, kw, n2):
                _ev(ev2.st, ("readframes", a[0] if len(a) == 1 and not kw else None))
                return Opaque("FRAMES", "bytes")
            return symex.PyCallable(readframes)
        if attr == "close":
            def close(ev2, a, kw, n2):
                _ev(ev2.st, ("close",))
            return symex.PyCallable(close)
        raise Outside(f"wave file attribute .{attr}")


class Samples:
    """np.frombuffer(frames, dtype): n samples; or its reshape / cast"""
    def __init__(self, term, n):
        self.term, self.n = term, n

    def sym_len(self):
        return self.n

    def sym_getattr(self, attr, ev, node):
        if attr == "reshape":
            def reshape(ev2, a, kw, n2):
                ok = len(a) == 1 and isinstance(a[0], tuple) and len(a[0]) == 2 and kw.get("order", "C") == "C" and set(kw) <= {"order"}
                if not ok:
                    raise Outside("reshape form")
                return Samples(("reshape", self.term, simp(Z(a[0][0])), simp(Z(a[0][1]))), self.n)
            return symex.PyCallable(reshape)
        if attr == "astype":
            def astype(ev2, a, kw, n2):
                _ev(ev2.st, ("astype", a[0] if len(a) == 1 and not kw else None))
                return Samples(("cast", self.term, a[0] if a else None), self.n)
            return symex.PyCallable(astype)
        raise Outside(f"sample array attribute .{attr}")


def setup_wave(width, dtype_given):
    def _setup(ex, st):
        nframes, nchan = api.sym("nframes"), api.sym("nchannels")
        st.assume(z3.And(nframes >= 0, nchan >= 1))
        nsamp = api.sym("n_samples_in_the_frames_read")
        st.assume(nsamp >= 0)
        st.env.update({"rfilename": Opaque("RFILENAME", "str"), "dtype": Opaque("DTYPE", "dtype") if dtype_given else None, "key": None,
                       "kwargs": Opaque("KWARGS", "mapping")})
        st.ghost.update(trace=[])
        ex.ctx = dict(width=width, nframes=nframes, nchan=nchan, nsamp=nsamp, dtype_given=dtype_given)
    return _setup


def h_wave_open(ex, st, args, kwargs, node, ev):
    ok = len(args) == 1 and args[0] is st.env["rfilename"] and set(kwargs) == {None} and kwargs[None] is st.env["kwargs"]
    _ev(st, ("open", ok))
    return WaveFile()


def h_frombuffer(ex, st, args, kwargs, node, ev):
    ok = len(args) == 1 and isinstance(args[0], Opaque) and args[0].term == "FRAMES" and set(kwargs) == {"dtype"}
    _ev(st, ("frombuffer", kwargs.get("dtype") if ok else None))
    return Samples(("samples",), ex.ctx["nsamp"])


def h_wave_format(ex, st, fmt, args, kwargs, node, ev):
    if fmt == "<i{}" and len(args) == 1 and isinstance(args[0], int) and not kwargs:
        return "<i%d" % args[0]
    return "<formatted string>"


def contract_wave():
    def trace_ok(ev, raised):
        st, c = ev.st, ev.ex.ctx
        tr = st.ghost["trace"]
        want = [("open", True), ("readframes", c["nframes"]), ("frombuffer", "<i%d" % c["width"])]
        if len(tr) < 4 or tr[0] != want[0] or tr[2] != want[2]:
            return z3.BoolVal(False)
        rf = tr[1]
        if rf[0] != "readframes" or rf[1] is None:
            return z3.BoolVal(False)
        rest = tr[3:]
        # closed exactly once, and before any cast
        if rest[0] != ("close",) or rest.count(("close",)) != 1:
            return z3.BoolVal(False)
        casts = [e for e in rest[1:] if e[0] == "astype"]
        others = [e for e in rest[1:] if e[0] != "astype"]
        if others:
            return z3.BoolVal(False)
        if raised:
            cast_ok = not casts
        else:
            cast_ok = (len(casts) == 1 and casts[0][1] is st.env["dtype"]) if c["dtype_given"] else not casts
        return z3.And(Z(rf[1]) == c["nframes"], z3.BoolVal(bool(cast_ok)))

    def result_ok(ev, res):
        st, c = ev.st, ev.ex.ctx
        if not isinstance(res, Samples):
            return z3.BoolVal(False)
        t = res.term
        if c["dtype_given"]:
            if not (t[0] == "cast" and t[2] is st.env["dtype"]):
                return z3.BoolVal(False)
            t = t[1]
        flat = z3.BoolVal(t == ("samples",))
        if t[0] == "reshape" and t[1] == ("samples",):
            shaped = z3.And(t[2] * c["nchan"] == c["nsamp"], t[3] == c["nchan"])
        else:
            shaped = z3.BoolVal(False)
        return z3.If(c["nchan"] == 1, flat, shaped)

    c = Contract(
        target="util:_wave_read_signal", uses=["A-PYSEM", "A-IO-CONTAINER"],
        consts={"TRACE_OK": SpecFn(lambda ev: trace_ok(ev, False)), "TRACE_OK_RAISED": SpecFn(lambda ev: trace_ok(ev, True)), "RESULT_OK": SpecFn(result_ok),
                "UNEVEN": SpecFn(lambda ev: ev.ex.ctx["nsamp"] % ev.ex.ctx["nchan"] != 0)},
        handlers={"wave.open": h_wave_open, "np.frombuffer": h_frombuffer, "str.format": h_wave_format, "truthiness": h_truthiness},
        raises={"IOError": "UNEVEN()"},
        ensures=[("opened_read_whole_closed_then_cast_iff_dtype", "TRACE_OK()"), ("time_by_channels_little_endian_signed", "RESULT_OK(result)")],
    )
    c.ensures_raise = {"IOError": [("file_closed_before_raising", "TRACE_OK_RAISED()")]}
    return c


# ------------------------------------------------------------------------------------------------------------- soundfile
SUBTYPE_DTYPE = {"PCM_16": "np.int16", "PCM_32": "np.int32", "FLOAT": "np.float32", "DOUBLE": "np.float64", "PCM_S8": "np.int8"}


class SoundFile:
    def sym_getattr(self, attr, ev, node):
        if attr == "subtype":
            return ev.ex.ctx["subtype"]
        if attr == "read":
            def read(ev2, a, kw, n2):
                dt = kw.get("dtype")
                _ev(ev2.st, ("read", dt.term if isinstance(dt, Opaque) else dt, len(a), tuple(sorted(k for k in kw if k != "dtype"))))
                return Data(("file", "soundfile"))
            return symex.PyCallable(read)
        raise Outside(f"SoundFile attribute .{attr}")


def h_soundfile(ex, st, args, kwargs, node, ev):
    ok = len(args) == 1 and args[0] is st.env["rfilename"] and set(kwargs) == {None} and kwargs[None] is st.env["kwargs"]
    _ev(st, ("open", ok))
    return SoundFile()


def setup_sf(subtype, dtype_given):
    def _setup(ex, st):
        st.env.update({"rfilename": Opaque("RFILENAME", "str"), "dtype": Opaque("DTYPE", "dtype") if dtype_given else None, "key": None,
                       "kwargs": Opaque("KWARGS", "mapping")})
        st.ghost.update(trace=[], casts=[], entries=[])
        ex.ctx = dict(subtype=subtype, dtype_given=dtype_given)
    return _setup


def contract_sf():
    def ok(ev, res):
        st, c = ev.st, ev.ex.ctx
        tr = st.ghost["trace"]
        if tr != [("open", True), ("read", SUBTYPE_DTYPE[c["subtype"]], 0, ())]:
            return False
        if not isinstance(res, Data):
            return False
        t = res.term
        if c["dtype_given"]:
            if not (isinstance(t, tuple) and t[0] == "cast" and t[2] is st.env["dtype"] and len(st.ghost["casts"]) == 1):
                return False
            t = t[1]
        elif st.ghost["casts"]:
            return False
        return t == ("file", "soundfile")

    consts = {"OK": SpecFn(ok)}
    for k in set(SUBTYPE_DTYPE.values()) | {"np.uint8"}:
        consts[k] = Opaque(k, "dtype")
    return Contract(
        target="util:_soundfile_read_signal", uses=["A-PYSEM", "A-IO-CONTAINER"],
        consts=consts, handlers={"soundfile.SoundFile": h_soundfile, "truthiness": h_truthiness},
        ensures=[("one_read_in_the_stored_type_then_cast_iff_dtype", "OK(result)")],
    )


def labels():
    return ["wave|%d|%s" % (w, d) for w in (2, 4) for d in ("dtype", "nodtype")] + ["sf|%s|%s" % (s, d) for s in SUBTYPE_DTYPE for d in ("dtype", "nodtype")] \
        + ["h5|%s|%s" % (k, d) for k in ("key", "nokey") for d in ("dtype", "nodtype")]


def generate(prop, label):
    from contracts.registry import run_contract
    kind, a, d = label.split("|")
    if kind == "h5":
        return generate_h5(prop, label)
    if kind == "wave":
        return run_contract(prop, ("util", "_wave_read_signal"), contract_wave(), [(label, setup_wave(int(a), d == "dtype"))], name="readers_audio", fname="_wave_read_signal")
    return run_contract(prop, ("util", "_soundfile_read_signal"), contract_sf(), [(label, setup_sf(a, d == "dtype"))], name="readers_audio", fname="_soundfile_read_signal")


def to_case(ob):
    """round trips through wav / flac / aiff containers (by path and by stream) in the C11 stand-in's case format"""
    from rtc import c11
    out = []
    for cname, cont in c11.CONT.items():
        if not any(x in cname for x in ("wav", "flac", "aiff", "sf", "sound", "hdf5", "h5")):
            continue
        for sd in cont.sdtypes:
            for shape in ([7], [5, 2], [6, 3]):
                if not c11.shape_ok(cont, tuple(shape)):
                    continue
                base = dict(kind="roundtrip", container=cname, shape=shape, sdtype=sd, range="small", seed=0)
                out.append(dict(base, via="path"))
                if cont.stream_force:
                    out.append(dict(base, via="bytesio", force_as=cont.stream_force[0]))
    try:
        for group in c11.enumerate_groups("quick", 0):
            cases = group[1] if isinstance(group, tuple) else [group]
            for c in cases:
                if any(x in str(c.get("container")) for x in ("wav", "flac", "aiff", "hdf5", "h5")):
                    out.append(c)
            if len(out) > 400:
                break
    except Exception:
        pass
    return out[:400]


def unit_readers_audio(prop="C11"):
    def unit(tier, known):
        from contracts.registry import run_parallel
        jobs = [("contracts.readers_audio", "generate", (prop, label)) for label in labels()]
        return run_parallel("readers_audio", jobs, to_case=to_case, replay_module="rtc.c11")
    unit.__name__ = "readers_audio"
    return unit


# ------------------------------------------------------------------------------------------------------------- HDF5
# _hdf5_read_signal: the file is opened once, read-only, with the caller's keyword arguments; with a key the entry of that name is taken;
# without one, for an archive whose root group holds only data sets (any number n; nested groups stay with the stand-in), the data set
# with the SMALLEST name is taken (the depth-first search in name order finds it first) and IOError is raised iff there is none; the entry is
# converted with numpy.array once, with dtype= iff a dtype is given.
NAME_DESC = z3.Function("root_entry_name_in_descending_order", z3.IntSort(), z3.IntSort())


class H5Item:
    def __init__(self, term):
        self.term = term


class H5File(H5Item):
    def __init__(self):
        H5Item.__init__(self, ("file",))

    def sym_getitem(self, sl, ev, node):
        k = ev.eval(sl)
        return H5Item(("entry", k.term if isinstance(k, Opaque) else k))

    def sym_getattr(self, attr, ev, node):
        if attr == "keys":
            return symex.PyCallable(lambda ev2, a, kw, n2: H5Keys(False))
        raise Outside(f"h5py file attribute .{attr}")


class H5Keys:
    def __init__(self, is_list):
        self.is_list = is_list


class H5KeyList:
    """list(cur_group.keys()): n names; after sort(reverse=True) element j is NAME_DESC(j) (ghost flag 'sorted_desc')"""
    def sym_getattr(self, attr, ev, node):
        if attr == "sort":
            def sort(ev2, a, kw, n2):
                if a or not set(kw) <= {"reverse"} or kw.get("reverse", False) not in (True, False):
                    raise Outside("sort form")
                ev2.st.ghost["sorted_desc"] = True if kw.get("reverse", False) else "asc"
            return symex.PyCallable(sort)
        raise Outside(f"key list attribute .{attr}")

    def sym_iter(self, ev, node):
        from pyvc.api import SeqVal
        n = ev.ex.ctx["n"]
        if ev.st.ghost["sorted_desc"] is True:
            return SeqVal(n, lambda j: NAME_DESC(Z(j)))
        if ev.st.ghost["sorted_desc"] == "asc":
            return SeqVal(n, lambda j: NAME_DESC(n - 1 - Z(j)))
        raise Outside("iteration over unsorted keys")


class H5Stack:
    """group_stack: ghost 'hstk' (Array Int -> Int: -1 the file, otherwise the NAME id of a root entry) and 'hsp'"""
    def sym_getattr(self, attr, ev, node):
        if attr == "pop":
            def pop(ev2, a, kw, n2):
                if a or kw:
                    raise Outside("pop form")
                s = ev2.st
                sp = Z(s.ghost["hsp"])
                ev2.wd(sp >= 1, "pop_from_a_non_empty_list", n2)
                s.ghost["hsp"] = simp(sp - 1)
                top = simp(z3.Select(s.ghost["hstk"], sp - 1))
                return H5Top(top)
            return symex.PyCallable(pop)
        if attr == "append":
            def append(ev2, a, kw, n2):
                s = ev2.st
                if len(a) != 1 or not isinstance(a[0], H5Top):
                    raise Outside("append form")
                sp = Z(s.ghost["hsp"])
                s.ghost["hstk"] = z3.Store(s.ghost["hstk"], sp, Z(a[0].ident))
                s.ghost["hsp"] = simp(sp + 1)
            return symex.PyCallable(append)
        raise Outside(f"stack attribute .{attr}")


class H5Top(H5Item):
    """an element of the search stack: ident == -1 is the file (root group), any other ident a root entry's name"""
    def __init__(self, ident):
        self.ident = ident
        H5Item.__init__(self, ("stack_item", ident))

    def sym_getattr(self, attr, ev, node):
        if attr == "keys":
            return symex.PyCallable(lambda ev2, a, kw, n2: H5Keys(False))
        raise Outside(f"stack item attribute .{attr}")

    def sym_getitem(self, sl, ev, node):
        k = ev.eval(sl)
        if not (symex.is_z3(k) and z3.is_int(k)):
            raise Outside("group subscript form")
        return H5Top(k)


def setup_h5(key_given, dtype_given):
    def _setup(ex, st):
        n = api.sym("n_root_entries")
        st.assume(n >= 0)
        j, j2 = z3.Ints("hj hj2")
        st.assume(z3.ForAll([j], NAME_DESC(j) >= 0))
        st.assume(z3.ForAll([j, j2], z3.Implies(z3.And(j >= 0, j < j2, j2 < n), NAME_DESC(j) > NAME_DESC(j2))))      # strictly descending (names are distinct)
        st.env.update({"rfilename": Opaque("RFILENAME", "str"), "dtype": Opaque("DTYPE", "dtype") if dtype_given else None,
                       "key": Opaque("KEY", "str") if key_given else None, "kwargs": Opaque("KWARGS", "mapping")})
        st.ghost.update(trace=[], sorted_desc=False, hstk=z3.K(z3.IntSort(), z3.IntVal(-2)), hsp=0)
        ex.ctx = dict(n=n, key_given=key_given, dtype_given=dtype_given)
    return _setup


def h_h5file(ex, st, args, kwargs, node, ev):
    ok = len(args) == 2 and args[0] is st.env["rfilename"] and args[1] == "r" and set(kwargs) == {None} and kwargs[None] is st.env["kwargs"]
    _ev(st, ("open", ok))
    return H5File()


def h_h5_isinstance(ex, st, args, kwargs, node, ev):
    obj, cls = args
    if isinstance(obj, H5Top) and isinstance(cls, Opaque) and cls.term == "h5py.Dataset":
        return Z(obj.ident) != -1          # root entries are data sets (precondition of this contract), the file is a group
    raise Outside("isinstance form")


def h_h5_list(ex, st, args, kwargs, node, ev):
    if len(args) == 1 and isinstance(args[0], H5Keys) and not kwargs:
        return H5KeyList()
    raise Outside("list() form")


def h_h5_array(ex, st, args, kwargs, node, ev):
    ok = len(args) == 1 and isinstance(args[0], H5Item) and set(kwargs) <= {"dtype"}
    dt = kwargs.get("dtype")
    _ev(st, ("array", args[0].term if ok else None, dt))
    return Data(("array", args[0].term if ok else None))


def h_h5_truthiness(ex, st, v):
    if isinstance(v, H5Stack):
        return Z(st.ghost["hsp"]) > 0
    if isinstance(v, list):
        return len(v) > 0
    if isinstance(v, Opaque) and v.kind == "str":
        return True                       # a key that is given is a non-empty name
    return h_truthiness(ex, st, v)


def _h5_convert_stack(st, v):
    if isinstance(v, list) and len(v) == 1 and isinstance(v[0], H5File):
        st.ghost["hstk"] = z3.Store(z3.K(z3.IntSort(), z3.IntVal(-2)), 0, z3.IntVal(-1))
        st.ghost["hsp"] = 1
        return H5Stack()
    if isinstance(v, H5Stack):
        return v
    raise Outside("initial stack form")


def contract_h5():
    from pyvc.symex import LoopSpec

    def inv_outer(ev):
        st, c = ev.st, ev.ex.ctx
        sp, stk, n = Z(st.ghost["hsp"]), st.ghost["hstk"], c["n"]
        k = z3.Int("ok")
        data = st.env.get("data")
        start = z3.And(sp == 1, z3.Select(stk, 0) == -1)
        pushed = z3.And(sp == n, z3.ForAll([k], z3.Implies(z3.And(k >= 0, k < n), z3.Select(stk, k) == NAME_DESC(k))))
        return z3.And(z3.BoolVal(data is None), z3.Or(start, pushed))

    def inv_inner(ev):
        st, c = ev.st, ev.ex.ctx
        sp, stk, n = Z(st.ghost["hsp"]), st.ghost["hstk"], c["n"]
        zi = Z(st.env["__zi"])
        k = z3.Int("ik")
        return z3.And(zi >= 0, zi <= n, sp == zi, z3.ForAll([k], z3.Implies(z3.And(k >= 0, k < zi), z3.Select(stk, k) == NAME_DESC(k))),
                      z3.BoolVal(st.env.get("data") is None))

    def ok(ev, res):
        st, c = ev.st, ev.ex.ctx
        tr = st.ghost["trace"]
        if len(tr) != 2 or tr[0] != ("open", True) or tr[1][0] != "array" or not isinstance(res, Data) or res.term != ("array", tr[1][1]):
            return z3.BoolVal(False)
        dt_ok = (tr[1][2] is st.env["dtype"]) if c["dtype_given"] else (tr[1][2] is None)
        if not dt_ok:
            return z3.BoolVal(False)
        t = tr[1][1]
        if c["key_given"]:
            return z3.BoolVal(t == ("entry", "KEY"))
        if not (isinstance(t, tuple) and t[0] == "stack_item"):
            return z3.BoolVal(False)
        return z3.And(c["n"] >= 1, Z(t[1]) == NAME_DESC(c["n"] - 1))       # the smallest name

    c = Contract(
        target="util:_hdf5_read_signal", uses=["A-PYSEM", "A-IO-CONTAINER"],
        consts={"INV_OUTER": SpecFn(inv_outer), "INV_INNER": SpecFn(inv_inner), "OK": SpecFn(ok), "h5py.Dataset": Opaque("h5py.Dataset", "class"),
                "EMPTY": SpecFn(lambda ev: z3.And(z3.BoolVal(not ev.ex.ctx["key_given"]), ev.ex.ctx["n"] == 0))},
        handlers={"h5py.File": h_h5file, "isinstance": h_h5_isinstance, "list": h_h5_list, "np.array": h_h5_array, "truthiness": h_h5_truthiness},
        loops={0: LoopSpec(kind="while", modifies_ghost=["hstk", "hsp", "sorted_desc"], types={"group_stack": lambda hst, v: H5Stack()},
                           convert={"group_stack": _h5_convert_stack}, invariant=[("root_then_its_entries_in_descending_name_order", "INV_OUTER()")]),
               1: LoopSpec(kind="for", modifies_ghost=["hstk", "hsp"], invariant=[("entries_pushed_so_far", "INV_INNER()")])},
        raises={"IOError": "EMPTY()"},
        ensures=[("opened_read_only_entry_selected_converted_once", "OK(result)")],
    )
    return c


def generate_h5(prop, label):
    from contracts.registry import run_contract
    _, k, d = label.split("|")
    return run_contract(prop, ("util", "_hdf5_read_signal"), contract_h5(), [(label, setup_h5(k == "key", d == "dtype"))], name="readers_audio", fname="_hdf5_read_signal")

"""Sidecar contracts: the read-only accessors (`@property` methods) through which the properties OBSERVE the state the other
contracts talk about. The constructor / method contracts are stated over attributes (`self._started`, `self._vertices`, `self._rate`,
...); the property texts speak of `started`, `centers_hz`, `supports_hz`, `is_real`, `num_filts`, `frame_shift`, ... . Each accessor is
therefore put under contract: its result is exactly the attribute (or the documented function of attributes) that the other
contracts constrain, and it writes nothing (no assignment to `self`: frame condition checked by the executor's store hook).

An accessor that acquires a side effect, a cache, or a different formula fails a named obligation here
(`<Class>.<name>.result_is_...`).  Fields are symbolic values of the sort the constructors' contracts give them; sequences are symbolic
sequences of any length n >= 0 (banks: n + 2 vertices with n >= 1, the constructors' postcondition).
"""
import z3

from pyvc import api
from pyvc.api import SeqVal, SpecFn, Z, Zb, Opaque, Outside
from pyvc.symex import Contract

STFT = "ShortTimeFourierTransformFrameComputer"
SI = "ShortIntegrationFrameComputer"
TRI = "TriangularOverlappingFilterBank"
GABOR = "GaborFilterBank"
GAMMA = "ComplexGammatoneFilterBank"

V = z3.Function("acc_vertex", z3.IntSort(), z3.RealSort())
CH = z3.Function("acc_center", z3.IntSort(), z3.RealSort())
SL = z3.Function("acc_support_left", z3.IntSort(), z3.IntSort())
SR = z3.Function("acc_support_right", z3.IntSort(), z3.IntSort())


def _ms_pairs(ev, res, n):
    """res is a sequence of n pairs, pair k == (left_k * 1000 / rate, right_k * 1000 / rate)"""
    if not isinstance(res, SeqVal):
        return z3.BoolVal(False)
    k = z3.Int("acc_k")
    elt = res.getter(k)
    if not (isinstance(elt, tuple) and len(elt) == 2):
        return z3.BoolVal(False)
    r = z3.Real("rate")
    return z3.And(Z(res.n) == Z(n), z3.ForAll([k], z3.Implies(z3.And(k >= 0, k < Z(n)), z3.And(
        api.to_real(Z(elt[0])) * r == z3.ToReal(SL(k)) * 1000, api.to_real(Z(elt[1])) * r == z3.ToReal(SR(k)) * 1000))))


def _same(ev, a, b):
    """the result IS the attribute: the same solver term, or the very same carried object"""
    if isinstance(a, (z3.ExprRef, int, bool, float)) and isinstance(b, (z3.ExprRef, int, bool, float)) and not isinstance(a, Opaque):
        za, zb = (Zb(a), Zb(b)) if (isinstance(a, bool) or isinstance(b, bool) or (z3.is_expr(a) and z3.is_bool(a)) or (z3.is_expr(b) and z3.is_bool(b))) else (Z(a), Z(b))
        if z3.is_real(za) != z3.is_real(zb):
            za, zb = api.to_real(za), api.to_real(zb)
        return za == zb
    return z3.BoolVal(a is b)


def _is_bool_const(ev, a, which):
    return z3.BoolVal(a is which) if isinstance(a, bool) else (Zb(a) == z3.BoolVal(which))


def _seq_is(ev, res, n, f_name, shift):
    """res is a sequence of n elements, element k equal to F(k + shift)"""
    F = {"V": V, "CH": CH}[f_name]
    if isinstance(res, (tuple, list)):
        raise Outside("accessor returned a concrete tuple where a symbolic sequence was expected")
    if not isinstance(res, SeqVal):
        return z3.BoolVal(False)
    k = z3.Int("acc_k")
    elt = res.getter(k)
    if isinstance(elt, tuple):
        return z3.BoolVal(False)
    return z3.And(Z(res.n) == Z(n), z3.ForAll([k], z3.Implies(z3.And(k >= 0, k < Z(n)), api.to_real(Z(elt)) == F(k + shift))))


def _pairs_are(ev, res, n):
    """res is a sequence of n pairs, pair k == (V(k), V(k + 2))"""
    if not isinstance(res, SeqVal):
        return z3.BoolVal(False)
    k = z3.Int("acc_k")
    elt = res.getter(k)
    if not (isinstance(elt, tuple) and len(elt) == 2):
        return z3.BoolVal(False)
    return z3.And(Z(res.n) == Z(n), z3.ForAll([k], z3.Implies(z3.And(k >= 0, k < Z(n)),
                                                               z3.And(api.to_real(Z(elt[0])) == V(k), api.to_real(Z(elt[1])) == V(k + 2)))))


CONSTS = {
    "SAME": SpecFn(_same),
    "IS_TRUE": SpecFn(lambda ev, a: _is_bool_const(ev, a, True)),
    "IS_FALSE": SpecFn(lambda ev, a: _is_bool_const(ev, a, False)),
    "SEQ_IS": SpecFn(_seq_is),
    "PAIRS_ARE": SpecFn(_pairs_are),
    "N": SpecFn(lambda ev: ev.ex.ctx["n"]),
    "MS_PAIRS": SpecFn(_ms_pairs),
}


def _fields(kind, st):
    n = api.sym("nfilt")
    st.assume(n >= 1)
    if kind == "computer":
        return n, {"_started": api.sym("started0", "bool"), "_frame_style": Opaque("FRAME_STYLE", "str"), "_rate": api.sym("rate", "real"),
                   "_frame_length": api.sym("L"), "_frame_shift": api.sym("s"), "_kaldi_shift": api.sym("kaldi0", "bool"),
                   "_bank": Opaque("BANK", "bank"), "_include_energy": api.sym("energy0", "bool"),
                   "_buf_len": api.sym("buf_len0"), "_hist_len": api.sym("hist_len0"), "_first_frame": api.sym("first0", "bool")}
    if kind == "vertex_bank":
        return n, {"_analytic": api.sym("analytic0", "bool"), "_rate": api.sym("rate", "real"), "_vertices": SeqVal(n + 2, lambda j: V(Z(j)))}
    if kind == "center_bank":
        return n, {"_wrap_below": api.sym("wrap0", "bool"), "_rate": api.sym("rate", "real"), "_centers_hz": SeqVal(n, lambda j: CH(Z(j))),
                   "_supports_hz": Opaque("SUPPORTS_HZ", "tuple"), "_supports": Opaque("SUPPORTS", "tuple"),
                   "_scale_l2_norm": api.sym("l2_0", "bool"), "_erb": api.sym("erb0", "bool"), "_order": api.sym("order0")}
    if kind == "abstract_computer":
        # the base class reads its subclass's accessors (each under contract above): modelled as the values they return
        r = api.sym("rate", "real")
        st.assume(r > 0)
        return n, {"frame_length": api.sym("L"), "frame_shift": api.sym("s"), "sampling_rate": r}
    if kind == "abstract_bank":
        r = api.sym("rate", "real")
        st.assume(r > 0)
        return n, {"sampling_rate": r, "supports": SeqVal(n, lambda j: (SL(Z(j)), SR(Z(j))))}
    raise KeyError(kind)


# (module, class, accessor, kind of state, label of the clause, clause)
def _table():
    T = []
    for cls in (STFT, SI):
        T += [("compute", cls, "started", "computer", "result_is_the_started_flag", "SAME(result, self._started)"),
              ("compute", cls, "frame_style", "computer", "result_is_the_frame_style", "SAME(result, self._frame_style)"),
              ("compute", cls, "sampling_rate", "computer", "result_is_the_rate", "SAME(result, self._rate)"),
              ("compute", cls, "frame_length", "computer", "result_is_the_frame_length", "SAME(result, self._frame_length)"),
              ("compute", cls, "frame_shift", "computer", "result_is_the_frame_shift", "SAME(result, self._frame_shift)")]
    T += [("compute", STFT, "kaldi_shift", "computer", "result_is_the_kaldi_flag", "SAME(result, self._kaldi_shift)"),
          ("compute", "LinearFilterBankFrameComputer", "bank", "computer", "result_is_the_bank", "SAME(result, self._bank)"),
          ("compute", "LinearFilterBankFrameComputer", "includes_energy", "computer", "result_is_the_energy_flag", "SAME(result, self._include_energy)")]
    for cls in (TRI, "Fbank"):
        T += [("filters", cls, "is_real", "vertex_bank", "real_iff_not_analytic", "SAME(result, not self._analytic)"),
              ("filters", cls, "is_analytic", "vertex_bank", "result_is_the_analytic_flag", "SAME(result, self._analytic)"),
              ("filters", cls, "is_zero_phase", "vertex_bank", "always_zero_phase", "IS_TRUE(result)"),
              ("filters", cls, "num_filts", "vertex_bank", "vertices_minus_the_two_outer_ones", "SAME(result, N())"),
              ("filters", cls, "sampling_rate", "vertex_bank", "result_is_the_rate", "SAME(result, self._rate)"),
              ("filters", cls, "centers_hz", "vertex_bank", "the_inner_vertices_in_order", "SEQ_IS(result, N(), 'V', 1)"),
              ("filters", cls, "supports_hz", "vertex_bank", "pair_k_is_vertices_k_and_k_plus_2", "PAIRS_ARE(result, N())")]
    for cls, zp in ((GABOR, "IS_TRUE"), (GAMMA, "IS_FALSE")):
        T += [("filters", cls, "is_real", "center_bank", "never_real", "IS_FALSE(result)"),
              ("filters", cls, "is_analytic", "center_bank", "analytic_iff_nothing_wraps_below_zero", "SAME(result, not self._wrap_below)"),
              ("filters", cls, "is_zero_phase", "center_bank", "zero_phase_as_documented", zp + "(result)"),
              ("filters", cls, "num_filts", "center_bank", "one_filter_per_centre", "SAME(result, N())"),
              ("filters", cls, "sampling_rate", "center_bank", "result_is_the_rate", "SAME(result, self._rate)"),
              ("filters", cls, "centers_hz", "center_bank", "the_centres_the_constructor_laid_out", "SAME(result, self._centers_hz)"),
              ("filters", cls, "supports_hz", "center_bank", "the_supports_hz_the_constructor_computed", "SAME(result, self._supports_hz)"),
              ("filters", cls, "supports", "center_bank", "the_supports_the_constructor_computed", "SAME(result, self._supports)"),
              ("filters", cls, "scaled_l2_norm", "center_bank", "result_is_the_l2_flag", "SAME(result, self._scale_l2_norm)"),
              ("filters", cls, "erb", "center_bank", "result_is_the_erb_flag", "SAME(result, self._erb)")]
    T += [("filters", GAMMA, "order", "center_bank", "result_is_the_order", "SAME(result, self._order)")]
    T += [("compute", "FrameComputer", "frame_length_ms", "abstract_computer", "frame_length_in_milliseconds", "result * self.sampling_rate == self.frame_length * 1000"),
          ("compute", "FrameComputer", "frame_shift_ms", "abstract_computer", "frame_shift_in_milliseconds", "result * self.sampling_rate == self.frame_shift * 1000"),
          ("filters", "LinearFilterBank", "supports_ms", "abstract_bank", "supports_in_milliseconds_pair_by_pair", "MS_PAIRS(result, N())")]
    return T


# which accessors each property observes
PROPS = {
    "C04": lambda r: r[2] == "started",
    "C02": lambda r: r[0] == "compute" and r[2] in ("frame_style", "frame_length", "frame_shift", "sampling_rate", "kaldi_shift", "bank", "includes_energy", "frame_length_ms", "frame_shift_ms") and r[1] != SI,
    "C03": lambda r: r[0] == "compute" and (r[1] == SI or r[1] == "FrameComputer") and r[2] != "started",
    "C05": lambda r: r[0] == "filters" and r[2] in ("centers_hz", "supports_hz", "num_filts", "sampling_rate", "scaled_l2_norm", "erb", "order"),
    "C07": lambda r: r[0] == "filters" and r[2] in ("is_real", "is_analytic", "is_zero_phase", "supports", "supports_hz", "supports_ms"),
}


def generate(prop, idx):
    from contracts.registry import run_contract
    mod, cls, name, kind, label, clause = _table()[idx]

    def setup(ex, st):
        n, fields = _fields(kind, st)
        api.mk_obj(st, "self", cls, fields)
        ex.ctx = dict(n=n)
        ex.entry_fields = dict(st.fields)

    def unchanged(ev):
        now = {k: v for k, v in ev.st.fields.items() if k[0] == "self"}
        was = {k: v for k, v in ev.ex.entry_fields.items() if k[0] == "self"}
        return z3.BoolVal(set(now) == set(was) and all(now[k] is was[k] for k in was))

    c = Contract(target=f"{mod}:{cls}.{name}", uses=["A-PYSEM"], consts=dict(CONSTS, UNCHANGED=SpecFn(unchanged)),
                 ensures=[(label, clause), ("writes_nothing", "UNCHANGED()")])
    return run_contract(prop, (mod, f"{cls}.{name}"), c, [("", setup)], name="accessors", fname=f"{cls}.{name}")


def unit_accessors(prop):
    def unit(tier, known):
        from contracts.registry import run_parallel
        rows = [i for i, r in enumerate(_table()) if PROPS[prop](r)]
        jobs = [("contracts.accessors", "generate", (prop, i)) for i in rows]
        return run_parallel("accessors", jobs, to_case=to_case(prop), replay_module="rtc." + prop.lower())
    unit.__name__ = "accessors"
    return unit


def to_case(prop):
    def tc(ob):
        """an accessor has no inputs of its own: behind a refuted obligation the standard replay inputs of the property's other units
        are replayed (the stand-ins observe the library through these accessors)"""
        if prop == "C04":
            from contracts import stft_stream
            return stft_stream.to_case_c04(ob)
        if prop == "C02":
            from contracts import stft_frame
            return stft_frame.to_case_geometry(ob)
        if prop == "C03":
            from contracts import si_stream
            return si_stream.to_case_c03(ob)
        if prop == "C05":
            # layout and response cases of the C05 stand-in for banks of the class the accessor belongs to
            from rtc import c05
            kind = "tri" if "Triangular" in ob.id else ("fbank" if "Fbank" in ob.id else ("gabor" if "Gabor" in ob.id else "gamma"))
            specs = [sp for sp in c05._grid("quick") if sp["bank"] == kind]
            specs = specs[::max(1, len(specs) // 60)][:60]
            out = [{"kind": "layout", "bank": sp} for sp in specs]
            for sp in specs[:30]:
                out += [{"kind": "response", "bank": sp, "filt": f} for f in sorted({0, sp["num_filts"] - 1})]
            return out
        if prop == "C07":
            from contracts import filters_supports
            return filters_supports.to_case(ob)
        return None
    return tc


# ------------------------------------------------------------------------------------------ constructors that only store their arguments
# The per-method contracts read `self.coeff`, `self.num_vectors`, `self.order`, ... ; the configuration layer (C08) hands the user's values
# to these constructors. Each is under contract: every argument is stored, unchanged, under the attribute the methods read; the only
# rejection is the documented one (Stack: num_vectors < 1).
# (module, class, {attribute: parameter}, raises clause or None, sorts of the parameters, properties served)
CTORS = [
    ("pre", "Dither", {"coeff": "coeff"}, None, {"coeff": "real"}, ("C18",)),
    ("pre", "Preemphasize", {"coeff": "coeff"}, None, {"coeff": "real"}, ("C18",)),
    ("post", "Stack", {"num_vectors": "num_vectors", "time_axis": "time_axis", "_pad_mode": "pad_mode", "_pad_kwargs": "kwargs"},
     "num_vectors < 1", {"num_vectors": "int", "time_axis": "int", "pad_mode": "opaque", "kwargs": "opaque"}, ("C15",)),
    ("filters", "GammaWindow", {"order": "order", "peak": "peak"}, None, {"order": "int", "peak": "real"}, ("C20",)),
    ("scales", "LinearScaling", {"low_hz": "low_hz", "slope_hz": "slope_hz"}, None, {"low_hz": "real", "slope_hz": "real"}, ("C19",)),
]


def generate_ctor(prop, idx):
    from contracts.registry import run_contract
    from contracts.torch_wrappers import h_super
    mod, cls, attrs, raises, sorts, _ = CTORS[idx]

    def setup(ex, st):
        api.mk_obj(st, "self", cls, {})
        args = {}
        for p, srt in sorts.items():
            args[p] = Opaque("ARG_" + p, "arg") if srt == "opaque" else api.sym(p, srt)
        st.env.update(args)
        ex.ctx = dict(args=args)

    def stored(ev):
        f = {k[1]: v for k, v in ev.st.fields.items() if k[0] == "self"}
        if set(f) != set(attrs):
            return z3.BoolVal(False)
        conj = []
        for a, p in attrs.items():
            want = ev.ex.ctx["args"][p]
            conj.append(_same(ev, f[a], want))
        return z3.And(*conj)

    c = Contract(target=f"{mod}:{cls}.__init__", uses=["A-PYSEM"], consts={"STORED": SpecFn(stored)},
                 handlers={"super": h_super, "opaque.__init__": lambda ex, st, o, args, kwargs, node, ev: None},
                 raises=({"ValueError": raises} if raises else {}),
                 ensures=[("every_argument_stored_unchanged_under_the_attribute_the_methods_read_and_nothing_else", "STORED()")])
    return run_contract(prop, (mod, f"{cls}.__init__"), c, [("", setup)], name="constructors", fname=f"{cls}.__init__")


def unit_ctors(prop):
    def unit(tier, known):
        from contracts.registry import run_parallel
        jobs = [("contracts.accessors", "generate_ctor", (prop, i)) for i, r in enumerate(CTORS) if prop in r[5]]
        import importlib
        mod, fn = {"C15": ("contracts.post_stack", "to_case"), "C18": ("contracts.pre", "to_case"), "C20": ("contracts.windows", "to_case_gamma"),
                   "C19": ("contracts.scales", "to_case")}[prop]
        return run_parallel("constructors", jobs, to_case=getattr(importlib.import_module(mod), fn), replay_module="rtc." + prop.lower())
    unit.__name__ = "constructors"
    return unit


# ------------------------------------------------------------------------------------------ torch modules: constructors, delegating forwards, check_in
CTORS += [
    ("torch", "PyTorchPreemphasize", {"coeff": "coeff"}, None, {"coeff": "real"}, ("C14",)),
    ("torch", "PyTorchPostProcessorWrapper", {"postprocessor": "postprocessor"}, None, {"postprocessor": "opaque"}, ("C14",)),
    ("torch", "PyTorchShortIntegrationFrameComputer", {"si_frame_computer": "si_frame_computer"}, None, {"si_frame_computer": "opaque"}, ("C14",)),
]

# forward(sig) of the two wrapper modules is exactly one call of the (contracted) helper on the caller's tensor
DELEGATES = [("PyTorchPostProcessorWrapper", "forward", "_postprocessor_appy", "postprocessor"),
             ("PyTorchShortIntegrationFrameComputer", "forward", "_compute_full", "si_frame_computer")]


def generate_delegate(prop, idx):
    from contracts.registry import run_contract
    cls, name, helper, field = DELEGATES[idx]
    inner = Opaque("WRAPPED", "obj")

    def setup(ex, st):
        api.mk_obj(st, "self", cls, {field: inner})
        st.env["sig"] = Opaque("SIG", "tensor")
        st.ghost["calls"] = []
        ex.entry_fields = dict(st.fields)

    def h_helper(ex, st, o, args, kwargs, node, ev):
        st.ghost["calls"] = st.ghost["calls"] + [(tuple(args), dict(kwargs))]
        return Opaque("HELPER_RESULT", "tensor")

    def ok(ev, res):
        calls = ev.st.ghost["calls"]
        if len(calls) != 1 or not (isinstance(res, Opaque) and res.term == "HELPER_RESULT"):
            return False
        args, kw = calls[0]
        return len(args) == 1 and not kw and isinstance(args[0], Opaque) and args[0].term == "SIG"

    def unchanged(ev):
        now = {k: v for k, v in ev.st.fields.items() if k[0] == "self"}
        return set(now) == set(ev.ex.entry_fields) and all(now[k] is ev.ex.entry_fields[k] for k in now)

    c = Contract(target=f"torch:{cls}.{name}", uses=["A-PYSEM"], consts={"DELEGATED": SpecFn(ok), "UNCHANGED": SpecFn(unchanged)},
                 handlers={f"{cls}.{helper}": h_helper},
                 ensures=[("one_call_of_the_helper_on_the_callers_tensor_result_returned_as_is", "DELEGATED(result)"), ("module_state_untouched", "UNCHANGED()")])
    return run_contract(prop, ("torch", f"{cls}.{name}"), c, [("", setup)], name="torch_delegates", fname=f"{cls}.{name}")


def generate_check_in(prop):
    """check_in(name, val, choices): ValueError exactly when val is not one of the choices (a set display of literals at every call site)"""
    from contracts.registry import run_contract

    def setup(ex, st):
        st.env.update({"name": Opaque("NAME", "str"), "val": api.sym("val", "str"), "choices": frozenset({"causal", "centered"})})

    def h_join(ex, st, o, args, kwargs, node, ev):
        return Opaque("JOINED", "str")

    c = Contract(target="torch:check_in", uses=["A-PYSEM"], raises={"ValueError": "not (val == 'causal' or val == 'centered')"},
                 handlers={"str.join": h_join, "sorted": lambda ex, st, args, kwargs, node, ev: Opaque("SORTED", "list")},
                 ensures=[("returns_nothing", "result is None")])
    return run_contract(prop, ("torch", "check_in"), c, [("", setup)], name="check_in", fname="check_in")


def unit_torch_small(prop):
    def unit(tier, known):
        from contracts.registry import run_parallel
        from contracts import torch_wrappers
        jobs = [("contracts.accessors", "generate_ctor", (prop, i)) for i, r in enumerate(CTORS) if prop in r[5]]
        jobs += [("contracts.accessors", "generate_delegate", (prop, i)) for i in range(len(DELEGATES))]
        jobs += [("contracts.accessors", "generate_check_in", (prop,))]
        return run_parallel("torch_small", jobs, to_case=torch_wrappers.to_case, replay_module="rtc.c14")
    unit.__name__ = "torch_small"
    return unit


# ------------------------------------------------------------------------------------------ the torch tool's dataset: __init__ and __len__
# The pipeline-construction slice (contracts/cli.py) hands the configured pipeline to this constructor and __getitem__ (contracts/cli.py)
# reads the attributes: in between, every argument is stored unchanged under the attribute __getitem__ reads, the utterance table as the
# tuple of the map's items in the map's own order; __len__ is the number of entries of that table.
DATASET = "_FeatureProcessorDataset"
DS_ATTRS = {"preprocessors": "preprocessors", "computer": "computer", "postprocessors": "postprocessors", "channel": "channel", "force_as": "force_as",
            "seed": "seed", "utt2idx": "utt2idx"}


def generate_dataset(prop, which):
    from contracts.registry import run_contract
    from contracts.torch_wrappers import h_super
    if which == "len":
        def setup_len(ex, st):
            n = api.sym("n_utts")
            st.assume(n >= 0)
            api.mk_obj(st, "self", DATASET, {"utt_path": SeqVal(n, lambda j: (Opaque(("utt", j), "str"), Opaque(("path", j), "str")))})
            ex.ctx = dict(n=n)
        c = Contract(target=f"command_line:{DATASET}.__len__", uses=["A-PYSEM"], consts={"N": SpecFn(lambda ev: ev.ex.ctx["n"])},
                     ensures=[("number_of_utterances_in_the_table", "result == N()")])
        return run_contract(prop, ("command_line", f"{DATASET}.__len__"), c, [("", setup_len)], name="dataset", fname=f"{DATASET}.__len__")

    def setup(ex, st):
        api.mk_obj(st, "self", DATASET, {})
        args = {p: Opaque("ARG_" + p, "arg") for p in list(DS_ATTRS.values()) + ["utt2path"]}
        st.env.update(args)
        st.env[DATASET] = Opaque(DATASET, "class")
        ex.ctx = dict(args=args)

    def h_items(ex, st, o, args, kwargs, node, ev):
        if isinstance(o, Opaque) and o.term == "ARG_utt2path" and not args and not kwargs:
            return Opaque("ITEMS_OF_THE_MAP", "items")
        raise Outside(".items() of something other than the utterance map")

    def h_tuple(ex, st, args, kwargs, node, ev):
        if len(args) == 1 and isinstance(args[0], Opaque) and args[0].term == "ITEMS_OF_THE_MAP":
            return Opaque("TUPLE_OF_ITEMS_OF_THE_MAP", "tuple")
        raise Outside("tuple() of something other than the map's items")

    def stored(ev):
        f = {k[1]: v for k, v in ev.st.fields.items() if k[0] == "self"}
        if set(f) != set(DS_ATTRS) | {"utt_path"}:
            return False
        if not all(f[a] is ev.ex.ctx["args"][p] for a, p in DS_ATTRS.items()):
            return False
        up = f["utt_path"]
        return isinstance(up, Opaque) and up.term == "TUPLE_OF_ITEMS_OF_THE_MAP"

    c = Contract(target=f"command_line:{DATASET}.__init__", uses=["A-PYSEM"], consts={"STORED": SpecFn(stored)},
                 handlers={"super": h_super, "opaque.__init__": lambda ex, st, o, args, kwargs, node, ev: None, "opaque.items": h_items, "tuple": h_tuple},
                 ensures=[("every_argument_stored_unchanged_table_is_the_maps_items_in_order", "STORED()")])
    return run_contract(prop, ("command_line", f"{DATASET}.__init__"), c, [("", setup)], name="dataset", fname=f"{DATASET}.__init__")


def unit_dataset(prop):
    def unit(tier, known):
        from contracts.registry import run_parallel
        from contracts import cli
        jobs = [("contracts.accessors", "generate_dataset", (prop, w)) for w in ("init", "len")]
        return run_parallel("dataset", jobs, to_case=cli._to_case_plan("rtc." + prop.lower()), replay_module="rtc." + prop.lower())
    unit.__name__ = "dataset"
    return unit


# ------------------------------------------------------------------------------------------ FrameComputer.compute_full (the inherited default)
# A computer that does not override compute_full gets the base class's: exactly one frame_by_frame_calculation(self, signal) with the default
# chunk size, its result returned as it is - so C01's "compute_full equals any chunking" holds for such a computer by the contract of
# frame_by_frame_calculation (contracts/stft_stream.py: contract_fbf).
def generate_base_full(prop):
    from contracts.registry import run_contract

    def setup(ex, st):
        api.mk_obj(st, "self", "FrameComputer", {})
        st.env["signal"] = Opaque("SIGNAL", "array")
        st.ghost["calls"] = []
        ex.entry_fields = dict(st.fields)

    def h_fbf(ex, st, args, kwargs, node, ev):
        st.ghost["calls"] = st.ghost["calls"] + [(tuple(args), dict(kwargs))]
        return Opaque("FBF_RESULT", "array")

    def ok(ev, res):
        calls = ev.st.ghost["calls"]
        if len(calls) != 1 or not (isinstance(res, Opaque) and res.term == "FBF_RESULT"):
            return False
        args, kw = calls[0]
        return len(args) == 2 and not kw and args[0] is ev.st.env["self"] and isinstance(args[1], Opaque) and args[1].term == "SIGNAL"

    c = Contract(target="compute:FrameComputer.compute_full", uses=["A-PYSEM"], consts={"DELEGATED": SpecFn(ok)},
                 handlers={"frame_by_frame_calculation": h_fbf},
                 ensures=[("one_frame_by_frame_calculation_of_the_whole_signal_with_the_default_chunk_size", "DELEGATED(result)")])
    return run_contract(prop, ("compute", "FrameComputer.compute_full"), c, [("", setup)], name="base_compute_full", fname="FrameComputer.compute_full")


def unit_base_full(prop):
    def unit(tier, known):
        from contracts.registry import run_parallel
        from contracts import stft_stream
        return run_parallel("base_compute_full", [("contracts.accessors", "generate_base_full", (prop,))], to_case=stft_stream.to_case_fbf, replay_module="rtc.c01")
    unit.__name__ = "base_compute_full"
    return unit

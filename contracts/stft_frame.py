"""Sidecar contract: compute.py ShortTimeFourierTransformFrameComputer._compute_frame
(property C02: coefficient i of a frame equals the sum over the FULL DFT spectrum of
|DFT(window x frame) x H_i|^p, log floor, energy at index 0).

Index-level statement. With X the full D-point DFT of window*frame, Xh = rfft (A-FFT:
X[b] = Xh[b] for b < h, conj Xh[D-b] otherwise, h = D//2+1) and t_i the truncated response of
filter i starting at bin b0_i (from C06: 0 <= b0_i < D, 1 <= len t_i <= D):

    NS(i, a, b) := sum_{j in [a,b)} | X[(b0_i + j) mod D] * t_i[j] |^p

is an uninterpreted function with the additivity axioms below. The contract of the reduction
`self._nonlin_op(spect_slice * filt_slice)` (= sum |.|^p, A-NP-RED; |conj z| = |z|) is: IF element k of
the product pairs tap a+k with half-spectrum index specbin(b0_i + a + k) for every k (the "touches"
obligation, pure integer arithmetic over the slice expressions of the real code) THEN it returns
NS(i, a, a+len). Everything else (walk invariant, loop exit, doubling for real banks, log floor,
energy term, coefficient positions) is proved from the code.
"""
import z3

from pyvc import api
from pyvc.api import I, R, B, A, SpecFn, Z, Zb, Arr, Prod, Opaque, SeqVal, simp, to_real, Outside
from pyvc.symex import Contract, LoopSpec

TARGET = ("compute", "ShortTimeFourierTransformFrameComputer._compute_frame")

NS = api.uf("NS", I, I, I, R)  # (filter, from tap, to tap)


def ns_axioms():
    i, a, b, c = z3.Ints("ni na nb nc")
    return [
        z3.ForAll([i, a], NS(i, a, a) == 0, patterns=[NS(i, a, a)]),
        z3.ForAll([i, a, b, c], z3.Implies(z3.And(a <= b, b <= c), NS(i, a, b) + NS(i, b, c) == NS(i, a, c)),
                  patterns=[z3.MultiPattern(NS(i, a, b), NS(i, b, c))]),
    ]


def wrap(ev, b, D):
    """(b mod D) for 0 <= b < 2D"""
    b, D = Z(b), Z(D)
    return z3.If(b < D, b, b - D)


def setup(ex, st, real_bank=None, energy=None):
    D = api.sym("D")
    L = api.sym("L")
    nf = api.sym("nfilt")
    h = D / 2 + 1
    st.assume(z3.And(L >= 1, D >= L, nf >= 0))
    fields = {
        "_frame_length": L, "_dft_size": D, "_power": "bool", "_log": "bool", "_real": "bool",
        "_include_energy": "bool", "_nfilt": nf,
    }
    o = api.mk_obj(st, "self", "STFT", fields)
    window = api.mk_array(st, "window", L, owner="self._window")
    st.fields[("self", "_window")] = window
    b0 = api.uf("b0", I, I)
    tlen = api.uf("tlen", I, I)
    # the banks' postconditions (C06 contract): start bins and lengths of the truncated responses
    i = z3.Int("fi")
    st.assume(z3.ForAll([i], z3.Implies(z3.And(i >= 0, i < nf), z3.And(b0(i) >= 0, b0(i) < D, tlen(i) >= 0, tlen(i) <= D)),
                        patterns=[b0(i)]))
    st.assume(z3.ForAll([i], z3.Implies(z3.And(i >= 0, i < nf), z3.And(b0(i) >= 0, b0(i) < D, tlen(i) >= 0, tlen(i) <= D)),
                        patterns=[tlen(i)]))
    st.fields[("self", "_filt_start_idxs")] = SeqVal(nf, lambda j: b0(Z(j)))

    def filt(j):
        rid = "filt"
        # one heap root per symbolic filter index would need a family of roots; the taps are only
        # consumed through the reduction contract, so a root tagged with its index is enough
        a = Arr(("filt", simp(Z(j))), 0, 1, tlen(Z(j)))
        return a

    st.fields[("self", "_truncated_filts")] = SeqVal(nf, filt)
    frame = api.mk_array(st, "frame", api.sym("frame_len"), owner="param:frame", dtype="any-real")
    st.env["frame"] = frame
    e = st.fields[("self", "_include_energy")]
    coeffs = api.mk_array(st, "coeffs", api.sym("coeffs_len"), owner="param:coeffs")
    st.env["coeffs"] = coeffs
    for ax in ns_axioms():
        ex.axioms.append(ax)
    ex.ctx = dict(D=D, L=L, nf=nf, b0=b0, tlen=tlen)


class FiltHeap(dict):
    pass


def h_attr_num_coeffs(ex, st, o, node):
    return simp(Z(st.fields[("self", "_nfilt")]) + z3.If(st.fields[("self", "_include_energy")], 1, 0))


def h_attr_includes_energy(ex, st, o, node):
    return st.fields[("self", "_include_energy")]


def h_rfft(ex, st, args, kwargs, node, ev):
    (x,) = args
    n = kwargs.get("n")
    if not isinstance(x, Prod) or n is None:
        raise Outside("rfft form")
    ex.assumption_ids.add("A-FFT")
    ev.wd(Z(n) >= 1, "rfft_n", node)
    ev.wd(Z(x.n) <= Z(n), "rfft_no_truncation", node)  # rfft(x, n) with n < len(x) would silently crop
    # operand must be window * frame over the whole frame (that is what X denotes in the spec)
    roots = sorted(str(f.root) for f in x.factors)
    ok = roots == ["frame", "window"] and all(simp(Z(f.off) == 0) is True and f.step == 1 for f in x.factors)
    ex.oblige(st, ok, f"rfft_operand.L{node.lineno - ex.fx.lineno}", "spec", node.lineno)
    ex.oblige(st, Z(x.n) == Z(ex.ctx["L"]), f"rfft_whole_frame.L{node.lineno - ex.fx.lineno}", "spec", node.lineno)
    a = st.new_root(simp(Z(n) / 2 + 1), None, "complex128", "fresh", "half_spect")
    st.ghost["half_root"] = a.root
    return a


def h_nonlin(ex, st, o, args, kwargs, node, ev):
    """contract of the reduction (see module docstring)"""
    (p,) = args
    if not isinstance(p, Prod) or len(p.factors) != 2:
        raise Outside("nonlin_op operand")
    hs = [f for f in p.factors if f.root == st.ghost.get("half_root")]
    ft = [f for f in p.factors if isinstance(f.root, tuple) and f.root[0] == "filt"]
    if len(hs) != 1 or len(ft) != 1:
        raise Outside("nonlin_op operand is not half_spect_slice * filter_slice")
    hs, ft = hs[0], ft[0]
    if ft.step != 1 or ft.conj:
        raise Outside("filter slice reversed/conjugated")
    D, b0 = ex.ctx["D"], ex.ctx["b0"]
    h = D / 2 + 1
    fi = ft.root[1]
    a = Z(ft.off)
    n = Z(p.n)
    k = z3.Int("k!%d" % next(api.symex._fresh))
    bin_ = wrap(None, b0(Z(fi)) + a + k, D)
    want_idx = z3.If(bin_ < h, bin_, D - bin_)
    want_conj = bin_ >= h
    got_idx = Z(hs.off) + hs.step * k
    lbl = f"L{node.lineno - ex.fx.lineno}"
    ex.oblige(st, z3.ForAll([k], z3.Implies(z3.And(k >= 0, k < n), z3.And(got_idx == want_idx, want_conj == z3.BoolVal(hs.conj)))),
              f"touches_specbin.{lbl}", "spec", node.lineno)
    ex.oblige(st, z3.ForAll([k], z3.Implies(z3.And(k >= 0, k < n), z3.And(got_idx >= 0, got_idx < h))),
              f"touches_in_half.{lbl}", "spec", node.lineno)
    if not getattr(ex, "_canary_done", False) and hs.conj:
        ex._canary_done = True
        ex.canary(st, z3.ForAll([k], z3.Implies(z3.And(k >= 0, k < n), got_idx == want_idx + 1)), "touches_specbin_shifted", node.lineno)
    ex.assumption_ids.update(["A-FFT", "A-NP-RED"])
    return NS(Z(fi), a, a + n)


def h_arr_binop(ex, st, op, a, b, node, ev):
    raise Outside("array arithmetic outside products")


EXPECTED = ("ite(self._log, LN(max(ite(self._real, 2 * NS(i, 0, TLEN(i)), NS(i, 0, TLEN(i))), LOG_FLOOR_VALUE)), "
            "ite(self._real, 2 * NS(i, 0, TLEN(i)), NS(i, 0, TLEN(i))))")
ENERGY = "INNERF(frame) / self._frame_length"


def contract():
    from pyvc import extract
    cfg = extract.module_constants("config")
    consts = {
        "config.USE_FFTPACK": False,
        "config.LOG_FLOOR_VALUE": api.symex._frac(cfg["LOG_FLOOR_VALUE"]),
        "LOG_FLOOR_VALUE": api.symex._frac(cfg["LOG_FLOOR_VALUE"]),
        "np.complex128": Opaque("complex128", "dtype"),
        "NS": SpecFn(lambda ev, i, a, b: NS(Z(i), Z(a), Z(b))),
        "TLEN": SpecFn(lambda ev, i: ev.ex.ctx["tlen"](Z(i))),
        "B0": SpecFn(lambda ev, i: ev.ex.ctx["b0"](Z(i))),
        "WRAP": SpecFn(wrap),
        "LN": SpecFn(lambda ev, x: api.LN(to_real(x))),
        "SQRT": SpecFn(lambda ev, x: api.SQRT(to_real(x))),
        "INNERF": SpecFn(lambda ev, a: api.INNER(*api.arr_args(ev.st, a), *api.arr_args(ev.st, a), Z(a.n))),
    }
    c = Contract(
        target="compute:ShortTimeFourierTransformFrameComputer._compute_frame",
        uses=["A-REAL", "A-PYSEM", "A-FFT", "A-NP-RED"],
        requires=["len(frame) == self._frame_length", "len(coeffs) == self._nfilt + ite(self._include_energy, 1, 0)"],
        lets={"D": "self._dft_size", "h": "self._dft_size // 2 + 1"},
        consts=consts,
        handlers={
            "attr:num_coeffs": h_attr_num_coeffs,
            "attr:includes_energy": h_attr_includes_energy,
            "np.fft.rfft": h_rfft,
            "self._nonlin_op": h_nonlin,
            "arr_binop": h_arr_binop,
        },
        loops={
            0: LoopSpec(kind="for", var="filt_idx", invariant=[
                ("range", "0 <= filt_idx <= self._nfilt"),
                ("half_len", "half_len == self._dft_size // 2 + 1"),
                ("coeffs_len", "len(coeffs) == self._nfilt"),
                ("done", f"forall(i, 0, filt_idx, coeffs[i] == {EXPECTED})"),
                ("energy_kept", "implies(self._include_energy, old(coeffs)[0] == E0)"),
            ]),
            1: LoopSpec(kind="while", types={"val": "real"}, invariant=[
                ("consumed_range", "0 <= consumed <= trunc_len"),
                ("start_nonneg", "start_idx >= 0"),
                ("walk_bound", "ite(conjugate, half_len + start_idx <= D, start_idx < D)"),
                ("walk_pos", "implies(consumed < trunc_len, WRAP(ite(conjugate, half_len + start_idx, start_idx), D) == WRAP(B0(filt_idx) + consumed, D))"),
                ("val", "val == NS(filt_idx, 0, consumed)"),
            ]),
        },
        ensures=[
            ("filters", f"forall(i, 0, self._nfilt, old(coeffs)[i + ite(self._include_energy, 1, 0)] == {EXPECTED})"),
            ("energy", "implies(self._include_energy, old(coeffs)[0] == E0)"),
        ],
    )
    c.lets["E0"] = ("ite(self._log, LN(max(ite(self._power, " + ENERGY + ", SQRT(" + ENERGY + ")), LOG_FLOOR_VALUE)), "
                    "ite(self._power, " + ENERGY + ", SQRT(" + ENERGY + ")))")
    return c


def to_case(ob):
    """solver model -> concrete input for the C02 stand-in's frame-level replay: the DFT size from the model;
    the replay searches start bins / lengths for that size on the real _compute_frame"""
    from pyvc.solve import model_int
    D = model_int(ob.model, "D")
    L = model_int(ob.model, "L")
    cases = []
    if D is None or D < 1 or D > 4096:
        # no usable model (the DFT size does not occur in the query, or the obligation is undecided): the standard sizes only
        pairs = ((8, 5), (8, 8), (9, 9), (12, 7), (2, 2), (3, 3), (4, 3), (16, 16), (7, 4))
    else:
        pairs = ((D, L), (D, D), (D, max(1, D - 1)), (D + 1, D), (8, 5), (8, 8), (9, 9), (12, 7))
    for d, l in pairs:
        cases.append({"kind": "frame_walk", "D": d, "L": l if l and l <= d else d, "real": False, "power": bool(model_int(ob.model, "self._power", False)),
                      "log": False, "energy": True})
    return cases
    return {"kind": "frame_walk", "D": D, "real": bool(model_int(ob.model, "self._real", False)),
            "power": bool(model_int(ob.model, "self._power", False)), "log": bool(model_int(ob.model, "self._log", False)),
            "energy": bool(model_int(ob.model, "self._include_energy", False))}


# ------------------------------------------------------------------------------------------
# __init__, the statements that fix what _compute_frame / compute_chunk assume about the object (a statement slice; bank and
# window construction, flag copies and the default frame length are dropped here):
#   len(_buf) == len(_window) == _frame_length <= _dft_size; one (start bin, truncated filter) pair per filter, asked for width _dft_size
# ------------------------------------------------------------------------------------------
import ast  # noqa: E402


def sel_geometry(fn):
    out = []
    for s in fn.body:
        txt = ast.unparse(s)
        if isinstance(s, ast.Assign) and any(txt.startswith(p) for p in ("self._buf =", "self._window =", "self._truncated_filts =", "self._filt_start_idxs =")):
            out.append(s)
        elif isinstance(s, ast.If) and "pad_to_nearest_power_of_two" in ast.unparse(s.test):
            out.append(s)
        elif isinstance(s, ast.For) and "get_truncated_response" in txt:
            out.append(s)
    return out


def setup_geometry(ex, st):
    L, nf = api.sym("L"), api.sym("num_filts")
    st.assume(z3.And(L >= 1, nf >= 0))
    ex.ctx = dict(L=L, nf=nf)
    api.mk_obj(st, "self", "STFT", {"_frame_length": L})
    api.mk_obj(st, "bank", "Bank", {"num_filts": nf})
    api.mk_obj(st, "window_function", "Window", {})
    st.env["pad_to_nearest_power_of_two"] = api.sym("pad", "bool")
    st.ghost.update(asked=0, widths_ok=True)
    for ax in api.math_axioms():
        ex.axioms.append(ax)


def _h_window_ir(ex, st, o, args, kwargs, node, ev):
    # WindowFunction.get_impulse_response(width) returns exactly `width` samples (C20)
    (w,) = args
    ex.assumption_ids.add("C20-contract: a window function returns exactly `width` samples")
    return st.new_root(w, None, "float64", "self._window", "window")


def _h_truncated(ex, st, o, args, kwargs, node, ev):
    fi, width = args
    lbl = f"L{node.lineno - ex.fx.lineno}"
    ex.oblige(st, Z(fi) == Z(st.ghost["asked"]), f"filters_in_order.{lbl}", "spec", node.lineno)
    ex.oblige(st, z3.And(Z(fi) >= 0, Z(fi) < ex.ctx["nf"]), f"filter_index_in_range.{lbl}", "pre", node.lineno)
    st.ghost["widths_ok"] = simp(z3.And(Zb(st.ghost["widths_ok"]), Z(width) == Z(st.fields[("self", "_dft_size")])))
    st.ghost["asked"] = simp(Z(st.ghost["asked"]) + 1)
    return (Opaque(("start", simp(Z(fi))), "int"), Opaque(("taps", simp(Z(fi))), "arr"))


def contract_geometry():
    c = Contract(
        target="compute:ShortTimeFourierTransformFrameComputer.__init__",
        uses=["A-PYSEM", "A-MATH"],
        consts={"np.float64": Opaque("float64", "dtype"), "ISLIST": SpecFn(lambda ev, a: isinstance(a, (list, api.symex.SeqVal)))},
        handlers={"Window.get_impulse_response": _h_window_ir, "Bank.get_truncated_response": _h_truncated},
        loops={0: LoopSpec(kind="for", var="filt_idx", modifies_ghost=["asked", "widths_ok"], invariant=[
            ("range", "0 <= filt_idx <= bank.num_filts"), ("asked", "asked == filt_idx"), ("widths", "widths_ok"),
            ("lists", "ISLIST(self._truncated_filts) and ISLIST(self._filt_start_idxs)")])},
        ensures=[
            ("dft_covers_frame", "self._dft_size >= self._frame_length"),
            ("history_buffer_has_frame_length", "len(self._buf) == self._frame_length"),
            ("window_has_frame_length", "len(self._window) == self._frame_length"),
            ("every_filter_truncated_for_the_dft_size", "asked == bank.num_filts and widths_ok"),
        ],
    )
    c.canaries = [("dft_strictly_longer", "self._dft_size > self._frame_length")]
    return c


def generate_geometry(prop):
    from contracts.registry import run_contract
    from pyvc import extract
    from pyvc.check import UnitResult
    try:
        fx = extract.get_slice("compute", "ShortTimeFourierTransformFrameComputer.__init__", sel_geometry,
                               "geometry: _buf, _window, _dft_size (incl. power-of-two padding), truncated filters")
    except KeyError as e:
        u = UnitResult("stft_geometry")
        u.outside.append(("compute:ShortTimeFourierTransformFrameComputer.__init__", str(e)))
        return u
    return run_contract(prop, fx, contract_geometry(), [("", setup_geometry)], name="stft_geometry", fname="STFT.__init__#geometry")


def to_case_geometry(ob):
    """whole-computer cases of the C02 stand-in (the constructor's choices only show through compute_full): the model's frame
    length, then lengths that are not powers of two with and without padding, odd and even, several windows"""
    from pyvc.solve import model_int
    L0 = model_int(ob.model, "L")
    out = []
    for L in ([L0] if L0 and 2 <= L0 <= 400 else []) + [5, 12, 25, 100, 33, 64]:
        for pad in (True, False):
            for style, kaldi in (("centered", False), ("causal", False), ("centered", True)):
                for w in ("default", "hamming"):
                    out.append({"frame_length": L, "pad": pad, "frame_style": style, "kaldi_shift": kaldi, "window": w, "seed": 0})
    return out


# ------------------------------------------------------------------------------------------
# LinearFilterBankFrameComputer: the base class both computers build on - `num_coeffs` is the bank's filter count plus one iff the energy
# coefficient was asked for (C02: "num_filts (+1 with include_energy) coefficients"), the bank is alias_factory_subclass_from_arg of the
# bank family and of the constructor's argument, the flag is kept as a bool.
# ------------------------------------------------------------------------------------------
def unit_base_computer(prop="C02"):
    def unit(tier, known):
        from contracts.registry import run_contract

        def setup_nc(ex, st):
            nf = api.sym("num_filts")
            st.assume(nf >= 0)
            bank = api.mk_obj(st, "bank_obj", "Bank", {"num_filts": nf})
            api.mk_obj(st, "self", "LinearFilterBankFrameComputer", {"_bank": bank, "_include_energy": api.sym("include_energy", "bool")})
            ex.ctx = dict(nf=nf)

        c1 = Contract(target="compute:LinearFilterBankFrameComputer.num_coeffs", uses=["A-PYSEM"], consts={"NF": SpecFn(lambda ev: ev.ex.ctx["nf"])},
                      ensures=[("filters_plus_one_iff_energy", "result == NF() + (1 if self._include_energy else 0)")])
        u = run_contract(prop, ("compute", "LinearFilterBankFrameComputer.num_coeffs"), c1, [("", setup_nc)], name="base_computer", fname="LFBFC.num_coeffs",
                         to_case=to_case_geometry, replay_module="rtc.c02")

        def setup_init(ex, st):
            api.mk_obj(st, "self", "LinearFilterBankFrameComputer", {})
            st.env.update(bank=Opaque("BANK_ARG", "arg"), include_energy=api.sym("include_energy_arg", "bool"))
            ex.ctx = {}

        def h_factory(ex, st, args, kwargs, node, ev):
            ok = len(args) == 2 and isinstance(args[0], Opaque) and args[0].term == "LinearFilterBank" and args[1] is st.env["bank"] and not kwargs
            return Opaque(("bank_built", ok), "bank")

        def init_ok(ev):
            f = ev.st.fields
            b = f.get(("self", "_bank"))
            e = f.get(("self", "_include_energy"))
            return z3.And(z3.BoolVal(isinstance(b, Opaque) and b.term == ("bank_built", True)), Zb(e) == Zb(ev.st.env["include_energy"])) if e is not None else z3.BoolVal(False)

        c2 = Contract(target="compute:LinearFilterBankFrameComputer.__init__", uses=["A-PYSEM"],
                      consts={"LinearFilterBank": Opaque("LinearFilterBank", "class"), "INIT_OK": SpecFn(init_ok)},
                      handlers={"alias_factory_subclass_from_arg": h_factory},
                      ensures=[("bank_from_the_argument_flag_kept", "INIT_OK()")])
        u2 = run_contract(prop, ("compute", "LinearFilterBankFrameComputer.__init__"), c2, [("", setup_init)], name="base_computer", fname="LFBFC.__init__")
        u.obligations += u2.obligations
        u.outside += u2.outside
        u.functions += u2.functions
        u.assumptions |= u2.assumptions
        return u
    unit.__name__ = "base_computer"
    return unit


# ------------------------------------------------------------------------------------------
# The summand of the per-frame routine: `_compute_frame` is proved with `self._nonlin_op(v)` read as  sum_k |v_k|^p  (p = 2 iff
# self._power). That reading rests on three small facts, each an obligation here (AST level: the bodies are one expression each):
#   the constructor stores use_power as self._power and selects `_power` when it is set and `_mag` otherwise, by exactly one if / else;
#   `_power(x)` is  numpy.linalg.norm(x, ord=2) ** 2  (A-NP-RED: the 2-norm is the root of the sum of squared moduli);
#   `_mag(x)`   is  numpy.sum(numpy.abs(x)).
# ------------------------------------------------------------------------------------------
def unit_nonlin(prop="C02"):
    def unit(tier, known):
        from pyvc import extract
        from pyvc.check import UnitResult
        from pyvc.symex import Obligation
        u = UnitResult("nonlinearity")
        u.to_case, u.replay_module = to_case, "rtc.c02"
        u.assumptions |= {"A-PYSEM", "A-NP-RED"}

        def ob(label, ok, line=None):
            u.obligations.append(Obligation(f"{prop}.nonlinearity.{label}", [], z3.BoolVal(bool(ok)), "dataflow", line))
        for name, want in (("_power", ("np.linalg.norm(x, ord=2) ** 2", "np.linalg.norm(x, 2) ** 2", "np.linalg.norm(x) ** 2")),
                           ("_mag", ("np.sum(np.abs(x))", "np.abs(x).sum()"))):
            try:
                fx = extract.get_function("compute", name)
            except KeyError as e:
                u.outside.append((f"compute:{name}", str(e)))
                continue
            u.functions.append(fx.describe())
            body = [s for s in fx.node.body if not (isinstance(s, ast.Expr) and isinstance(s.value, ast.Constant))]
            params = [a.arg for a in fx.node.args.args]
            ok = len(body) == 1 and isinstance(body[0], ast.Return) and params == ["x"] and ast.unparse(body[0].value) in want
            ob(f"{name}_is_{'the_squared_2_norm' if name == '_power' else 'the_sum_of_moduli'}", ok, fx.lineno)
        try:
            init = extract.get_function("compute", "ShortTimeFourierTransformFrameComputer.__init__")
        except KeyError as e:
            u.outside.append(("compute:STFT.__init__", str(e)))
            return u
        d = init.describe()
        d["function"] += "#selection of the summand (AST level)"
        u.functions.append(d)
        stores = [s for s in ast.walk(init.node) if isinstance(s, ast.Assign) and any(ast.unparse(t) == "self._nonlin_op" for t in s.targets)]
        sel = [s for s in ast.walk(init.node) if isinstance(s, ast.If) and ast.unparse(s.test) == "self._power"
               and len(s.body) == 1 and len(s.orelse) == 1 and ast.unparse(s.body[0]) == "self._nonlin_op = _power" and ast.unparse(s.orelse[0]) == "self._nonlin_op = _mag"]
        ob("summand_is_power_iff_use_power_else_magnitude", len(sel) == 1 and len(stores) == 2, init.lineno)
        pw = [s for s in ast.walk(init.node) if isinstance(s, ast.Assign) and any(ast.unparse(t) == "self._power" for t in s.targets)]
        ob("power_flag_is_the_use_power_argument", len(pw) == 1 and ast.unparse(pw[0].value) in ("use_power", "bool(use_power)"), init.lineno)
        # ... and the flag is stored before the selection reads it
        if len(pw) == 1 and len(sel) == 1:
            ob("flag_stored_before_the_selection", pw[0].lineno < sel[0].lineno, init.lineno)
        return u
    unit.__name__ = "nonlinearity"
    return unit

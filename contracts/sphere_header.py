"""Sidecar contract for the PARSING part of _sphere.read_header (properties C12, C11): from the first read to the `end_head` test.
(The validation of the parsed fields that follows is under contract in contracts/sphere.py.)

Abstraction.  The file is a ghost byte stream; a well-formed NIST header of `hdrsize` bytes (1024-aligned or not, `hdrsize >= 1024`) is,
by definition of the format, the text  "NIST_1A\\n<hdrsize>\\n" field lines ... "end_head\\n" padding.  Splitting EXACTLY the bytes
[0, hdrsize) at newlines gives the canonical line sequence LINE(0), LINE(1), ...; line k >= 2 is either `end_head` or a field line with a
key, a type tag, and a value (text, with an integer reading when the tag is -i).  Splitting the first 1024 bytes alone still gives
lines 0 and 1 (they occupy the first 16 bytes); splitting any other byte range gives an UNKNOWN sequence (a line may be cut in two at
the range's end), so code that parses the two reads separately cannot be shown correct - as it is not, for headers whose fields extend
past the first block.
Proved, for every header size >= 1024, every number and order of field lines, every position of `end_head`:
    reads         exactly two reads: 1024 bytes, then hdrsize - 1024: the stream is left at the first byte of the data section
    IOError       raised iff fewer than 1024 bytes could be read, the magic is not NIST_1A, the size field is below 1024, or no
                  `end_head` line is found;  nothing else raises
    fields        for each of channel_count, sample_count, sample_rate, sample_n_bytes, sample_byte_format, sample_coding that occurs at
                  most once before `end_head` (well-formed headers: exactly once or never): the variable holds that line's value
                  (integer reading for -i lines, the coding's prefix among alaw / ulaw / pcm for sample_coding), and None if it does
                  not occur;  lines after `end_head` are not looked at
Assumed (well-formedness, A-SPHERE-HEADER): field lines have at least three tokens, sample_coding is not tagged -i, the three coding
prefixes are mutually exclusive (so the order in which the set {"alaw", "ulaw", "pcm"} is walked does not matter), bytes -> str
decoding succeeds.
"""
import ast

import z3

from pyvc import api, extract, symex
from pyvc.api import SpecFn, Opaque, SeqVal, Z, Zb, simp, Outside
from pyvc.symex import Contract, LoopSpec

I, B = z3.IntSort(), z3.BoolSort()
IS_END = z3.Function("line_is_end_head", I, B)
KEY = z3.Function("line_key", I, I)
TAG_IS_INT = z3.Function("line_tag_is_minus_i", I, B)
INTVAL = z3.Function("line_value_as_int", I, I)
TXTVAL = z3.Function("line_value_text", I, I)        # identifier of the value text
TXTLEN = z3.Function("line_value_text_length", I, I)
CODING = z3.Function("line_coding_prefix", I, I)     # 0: none of the three, 1 alaw, 2 ulaw, 3 pcm

KEYS = {"channel_count": 1, "sample_count": 2, "sample_rate": 3, "sample_n_bytes": 4, "sample_byte_format": 5, "sample_coding": 6}
VARS = {"chancount": 1, "sampcount": 2, "samprate": 3, "sampsize": 4, "inporder": 5, "samptype": 6}
PREFIX = {"alaw": 1, "ulaw": 2, "pcm": 3}
_other_keys = {}


def _keycode(s):
    if s in KEYS:
        return KEYS[s]
    return _other_keys.setdefault(s, 100 + len(_other_keys))


class Buf:
    """bytes [lo, lo+n) of the ghost stream (concatenations of adjacent reads stay a range)"""
    def __init__(self, lo, n):
        self.lo, self.n = simp(Z(lo)), simp(Z(n))

    def sym_len(self):
        return self.n

    def sym_getitem(self, sl, ev, node):
        if isinstance(sl, ast.Slice) and sl.lower is None and sl.step is None and isinstance(ev.eval(sl.upper), int):
            return ("prefix", self, ev.eval(sl.upper))
        raise Outside("header buffer subscript form")

    def sym_getattr(self, attr, ev, node):
        if attr == "split":
            def split(ev2, a, kw, n2):
                if len(a) != 1 or kw or a[0] != b"\n":
                    raise Outside("split form")
                c = ev2.ex.ctx
                whole = ev2.ex.decide(ev2.st, z3.And(self.lo == 0, self.n == c["hdrsize"]))
                first = ev2.ex.decide(ev2.st, z3.And(self.lo == 0, self.n == 1024))
                if first is True and whole is not True and len(ev2.st.ghost["reads"]) >= 2:
                    first = None           # (hdrsize == 1024 is decided by the path: both readings apply; the whole header is the stronger one)
                if whole is True:
                    return SeqVal(c["nlines"], lambda k: Line(simp(Z(k))))
                if first is True:
                    # the first block alone: lines 0 and 1 are complete (they end within the first 16 bytes); what follows is not relied on
                    nl = symex.fresh("nlines_first_block")
                    ev2.st.assume(nl >= 3)
                    unk = z3.Function(f"first_block_line!{next(symex._fresh)}", I, I)
                    return SeqVal(nl, lambda k: Line(simp(Z(k))) if simp(Z(k) <= 1) is True else Line(unk(Z(k)), unknown=True))
                nl = symex.fresh("nlines_other_range")
                ev2.st.assume(nl >= 1)
                unk = z3.Function(f"other_range_line!{next(symex._fresh)}", I, I)
                return SeqVal(nl, lambda k: Line(unk(Z(k)), unknown=True))
            return symex.PyCallable(split)
        raise Outside(f"header buffer attribute .{attr}")


class Line:
    def __init__(self, k, unknown=False):
        self.k, self.unknown = k, unknown

    def sym_getattr(self, attr, ev, node):
        if attr == "decode":
            return symex.PyCallable(lambda ev2, a, kw, n2: LineText(self.k))
        raise Outside(f"line attribute .{attr}")


class LineText:
    def __init__(self, k):
        self.k = k

    def sym_getattr(self, attr, ev, node):
        if attr == "split":
            return symex.PyCallable(lambda ev2, a, kw, n2: Tokens(self.k) if not a and not kw else (_ for _ in ()).throw(Outside("split form")))
        raise Outside(f"line text attribute .{attr}")


class Tokens:
    def __init__(self, k):
        self.k = k

    def sym_getitem(self, sl, ev, node):
        if isinstance(sl, ast.Slice) and sl.step is None:
            lo = None if sl.lower is None else ev.eval(sl.lower)
            hi = None if sl.upper is None else ev.eval(sl.upper)
            if (lo, hi) == (None, 2):
                return (KEY(Z(self.k)), Tag(self.k))
            if (lo, hi) == (2, None):
                return ValueTokens(self.k)
        raise Outside("token list subscript form")


class Tag:
    def __init__(self, k):
        self.k = k


class ValueTokens:
    def __init__(self, k):
        self.k = k


class ValueText:
    def __init__(self, k):
        self.k = k

    def sym_getattr(self, attr, ev, node):
        if attr == "startswith":
            def sw(ev2, a, kw, n2):
                if len(a) != 1 or kw or a[0] not in PREFIX:
                    raise Outside("startswith form")
                return CODING(Z(self.k)) == PREFIX[a[0]]
            return symex.PyCallable(sw)
        raise Outside(f"value text attribute .{attr}")

    def sym_len(self):
        return TXTLEN(Z(self.k))


class Opt:
    """a variable that is None or a value (loop-head form of the six result variables): kind 'int' (z3 Int), 'text' (value text id) or
    'coding' (prefix code 1..3)"""
    def __init__(self, has, val, kind):
        self.has, self.val, self.kind = has, val, kind


def h_read(ex, st, o, args, kwargs, node, ev):
    (k,) = args
    ev.wd(Z(k) >= 0, "read_size", node)
    pos, end = Z(st.ghost["pos"]), ex.ctx["flen"]
    got = simp(z3.If(end - pos < Z(k), end - pos, Z(k)))
    st.ghost["pos"] = simp(pos + got)
    st.ghost["reads"] = st.ghost["reads"] + [simp(Z(k))]
    return Buf(pos, got)


def h_binop(ex, st, op, a, b, n):
    if isinstance(op, ast.Add) and isinstance(a, Buf) and isinstance(b, Buf):
        ex.oblige(st, b.lo == a.lo + a.n, f"second_read_continues_the_first.L{n.lineno - ex.fx.lineno}", "trace", n.lineno)
        return Buf(a.lo, a.n + b.n)
    return NotImplemented


def h_compare(ex, st, op, a, b, n, ev):
    neg = isinstance(op, ast.NotEq)
    if not isinstance(op, (ast.Eq, ast.NotEq)):
        return NotImplemented

    def out(r):
        return simp(z3.Not(Zb(r))) if neg else r
    if isinstance(a, tuple) and len(a) == 3 and a[0] == "prefix" and isinstance(b, bytes):
        ok = a[2] == 7 and b == b"NIST_1A" and simp(a[1].lo == 0) is True
        ex.oblige(st, ok, f"magic_is_the_first_seven_bytes.L{n.lineno - ex.fx.lineno}", "trace", n.lineno)
        return out(ex.ctx["magic_ok"])
    if isinstance(a, Line) and isinstance(b, bytes):
        if b != b"end_head":
            raise Outside("line compared with an unexpected literal")
        return out(z3.BoolVal(False) if a.unknown and False else IS_END(Z(a.k)))
    if isinstance(a, (Tokens, type(None))) and isinstance(b, bytes):
        return out(False)                 # a token list (or None) never equals a bytes object
    if symex.is_z3(a) and z3.is_int(a) and isinstance(b, str):
        return out(a == _keycode(b))
    if isinstance(a, Tag) and isinstance(b, str):
        if b != "-i":
            raise Outside("type tag compared with an unexpected literal")
        return out(TAG_IS_INT(Z(a.k)))
    return NotImplemented


def h_attr_any(ex, st, o, attr, node, ev):
    if attr == "startswith" and symex.is_z3(o) and z3.is_int(o):
        # an INTEGER value reaching .startswith (a sample_coding line tagged -i) would be an AttributeError: shown unreachable
        def sw(ev2, a, kw, n2):
            ev2.ex.oblige(ev2.st, False, f"coding_value_is_text_when_its_prefix_is_tested.L{n2.lineno - ev2.ex.fx.lineno}", "wd", n2.lineno)
            return symex.fresh("unreachable_startswith", "bool")
        return symex.PyCallable(sw)
    return NotImplemented


def h_join(ex, st, sep, args, kwargs, node, ev):
    if sep == " " and len(args) == 1 and isinstance(args[0], ValueTokens):
        return ValueText(args[0].k)
    raise Outside("join form")


def h_int(ex, st, args, kwargs, node, ev):
    if len(args) == 1 and isinstance(args[0], Line):
        if simp(Z(args[0].k) == 1) is True and not args[0].unknown:
            return ex.ctx["hdrsize_field"]
        raise Outside("int() of an unexpected line")
    if len(args) == 1 and isinstance(args[0], ValueText):
        return INTVAL(Z(args[0].k))
    raise Outside("int() form")


def h_truthiness(ex, st, v):
    if isinstance(v, Opt):
        if v.kind == "int":
            return z3.And(v.has, v.val != 0)
        return v.has
    if isinstance(v, ValueText):
        return TXTLEN(Z(v.k)) > 0
    return NotImplemented


def _norm(v, var):
    """(has, val) of a result variable in any of its forms"""
    kind = "coding" if var == "samptype" else None
    if v is None:
        return z3.BoolVal(False), z3.IntVal(0)
    if isinstance(v, Opt):
        return v.has, v.val
    if isinstance(v, str) and var == "samptype":
        return z3.BoolVal(True), z3.IntVal(PREFIX[v])
    if isinstance(v, ValueText):
        return z3.BoolVal(True), TXTVAL(Z(v.k))
    if symex.is_z3(v) and z3.is_int(v):
        return z3.BoolVal(True), v
    raise Outside(f"result variable {var} holds {type(v).__name__}")


def _spec_var(c, var, upto):
    """(has, val) the variable must hold after the field lines [2, upto): the value of THE line with that key (at most one exists)"""
    kc = VARS[var]
    k = z3.Int(f"sk_{var}")
    inrange = lambda kk: z3.And(kk >= 2, kk < upto)
    if var == "samptype":
        # only a coding with one of the three prefixes sets the variable
        hit = lambda kk: z3.And(inrange(kk), KEY(kk) == kc, CODING(kk) >= 1)
        val = lambda kk: CODING(kk)
    else:
        hit = lambda kk: z3.And(inrange(kk), KEY(kk) == kc)
        val = lambda kk: z3.If(TAG_IS_INT(kk), INTVAL(kk), TXTVAL(kk))
    return hit, val


def _vars_ok(ev, upto):
    st, c = ev.st, ev.ex.ctx
    out = []
    for var in VARS:
        has, v = _norm(st.env.get(var), var)
        hit, val = _spec_var(c, var, Z(upto))
        k = z3.Int(f"q_{var}")
        out.append(has == z3.Exists([k], hit(k)))
        out.append(z3.ForAll([k], z3.Implies(hit(k), v == val(k))))
    return z3.And(*out)


def setup(ex, st):
    flen, hdr, nlines, endk = api.sym("file_length"), api.sym("hdrsize_field"), api.sym("nlines"), api.sym("end_head_line")
    magic_ok = api.sym("magic_ok", "bool")
    st.assume(z3.And(flen >= 0, nlines >= 2))
    st.assume(z3.Implies(hdr >= 1024, flen >= hdr))          # well-formed: the header the size field announces is there in full
    api.mk_obj(st, "file_", "File", {})
    st.env["error"] = Opaque("IOError", "exc")
    st.ghost.update(pos=0, reads=[])
    k, k2 = z3.Ints("lk lk2")
    # well-formedness of the canonical lines: each of the six keys at most once (among the lines before the first end_head)
    st.assume(z3.ForAll([k, k2], z3.Implies(z3.And(k >= 2, k2 >= 2, KEY(k) == KEY(k2), KEY(k) >= 1, KEY(k) <= 6, z3.Not(IS_END(k)), z3.Not(IS_END(k2))), k == k2)))
    st.assume(z3.ForAll([k], z3.And(CODING(k) >= 0, CODING(k) <= 3)))
    st.assume(z3.ForAll([k], z3.Implies(KEY(k) == 6, z3.Not(TAG_IS_INT(k)))))
    st.assume(z3.ForAll([k], TXTLEN(k) >= 1))
    ex.ctx = dict(flen=flen, hdrsize_field=hdr, hdrsize=hdr, nlines=nlines, magic_ok=magic_ok)


def sel_parse(fn):
    out = []
    for s in fn.body:
        out.append(s)
        if isinstance(s, ast.If) and "end_head" in ast.unparse(s.test) and isinstance(s.body[0], ast.Raise):
            return out
    return []


def contract():
    def first_end(ev, upto=None):
        """there is no end_head line among [2, upto)"""
        c = ev.ex.ctx
        k = z3.Int("ek")
        hi = c["nlines"] if upto is None else Z(upto)
        return z3.Not(z3.Exists([k], z3.And(k >= 2, k < hi, IS_END(k))))

    def inv(ev):
        st, c = ev.st, ev.ex.ctx
        zi = Z(st.env["__zi"])
        # __zi counts lines from index 2 (the slice [2:])
        upto = zi + 2
        fieldv = st.env.get("field")
        return z3.And(zi >= 0, zi <= c["nlines"] - 2, first_end(ev, upto), _vars_ok(ev, upto))

    def must_raise(ev):
        c = ev.ex.ctx
        too_short = c["flen"] < 1024
        return z3.Or(too_short, z3.Not(c["magic_ok"]), c["hdrsize"] < 1024, first_end(ev))

    def final(ev):
        st, c = ev.st, ev.ex.ctx
        k = z3.Int("fk")
        # the variables reflect the field lines before the FIRST end_head
        e = z3.Int("first_end")
        return z3.Exists([e], z3.And(e >= 2, e < c["nlines"], IS_END(e), z3.ForAll([k], z3.Implies(z3.And(k >= 2, k < e), z3.Not(IS_END(k)))), _vars_ok(ev, e)))

    def reads_ok(ev):
        st, c = ev.st, ev.ex.ctx
        r = st.ghost["reads"]
        if len(r) != 2:
            return z3.BoolVal(False)
        return z3.And(r[0] == 1024, r[1] == c["hdrsize"] - 1024, Z(st.ghost["pos"]) == z3.If(c["flen"] < c["hdrsize"], c["flen"], c["hdrsize"]))

    c = Contract(
        target="_sphere:read_header", uses=["A-PYSEM", "A-IO-STREAM", "A-SPHERE-HEADER"],
        consts={"INV": SpecFn(inv), "MUST_RAISE": SpecFn(must_raise), "FINAL": SpecFn(final), "READS_OK": SpecFn(reads_ok)},
        handlers={"File.read": h_read, "binop": h_binop, "compare": h_compare, "str.join": h_join, "int": h_int, "truthiness": h_truthiness, "attr_any": h_attr_any},
        loops={0: LoopSpec(kind="for", types={v: _retype(v) for v in VARS}, invariant=[("fields_of_the_lines_so_far_no_end_head_yet", "INV()")])},
        ensures=[("fields_are_those_of_the_lines_before_end_head", "FINAL()"),
                 ("two_reads_leave_the_stream_at_the_data_section", "READS_OK()")],
    )
    c.raises_now = {"IOError": "MUST_RAISE()"}
    return c


def _retype(var):
    kind = {"samptype": "coding", "inporder": "text"}.get(var, "int")

    def f(hst, v):
        return Opt(symex.fresh(var + "_set", "bool"), symex.fresh(var + "_val"), kind)
    return f


def unit_parse(prop):
    def unit(tier, known):
        from contracts.registry import run_contract
        from pyvc.check import UnitResult
        try:
            fx = extract.get_slice("_sphere", "read_header", sel_parse, "reading and parsing of the header lines (the validation that follows: contracts/sphere.py)")
        except KeyError as e:
            u = UnitResult("read_header_parse")
            u.outside.append(("_sphere:read_header", str(e)))
            return u
        from contracts import sphere as S

        def tc(ob):
            cs = list(S.to_case_header(ob) or [])
            try:
                # headers longer than one block, with every field line in turn crossing byte 1024 (and the malformed-header cases)
                import itertools
                from rtc import c12
                gen = getattr(c12, "enumerate_cases", None) or getattr(c12, "_enumerate")
                allc = list(itertools.islice(gen("quick", 0), 6000))
                extra = [c for c in allc if c.get("kind") == "bad_header"] + [c for c in allc if c.get("kind") == "longhdr"][:400]
            except Exception:
                extra = []
            return extra + cs
        return run_contract(prop, fx, contract(), [("", setup)], name="read_header_parse", fname="read_header#parse", to_case=tc, replay_module="rtc.c12")
    unit.__name__ = "read_header_parse"
    return unit


# ------------------------------------------------------------------------------------------------------------- sphere_read_signal
# The entry point read_signal dispatches to for SPHERE files: a path is opened once in binary mode and the open file handed to the same
# function (callee contract = this contract); on a stream, read_header and then copy_samples are called once each, in that order, on THE
# stream, copy_samples with exactly the header read_header returned and the caller's dtype (a 1-byte dtype means "raw codes", C12), both with
# an IOError to raise on malformed input; what copy_samples returns is returned as it is (no cast, no reshape, warnings untouched).
class _Stream:
    def __init__(self, named):
        self.named = named

    def sym_getattr(self, attr, ev, node):
        if attr == "name" and self.named:
            return Opaque("STREAM_NAME", "str")
        raise Outside(f"stream attribute .{attr}")


def _srs_setup(kind):
    def setup(ex, st):
        rf = Opaque("PATH", "path") if kind == "path" else _Stream(kind == "named_stream")
        st.env.update(rfilename=rf, dtype=Opaque("DTYPE", "dtype"), key=Opaque("KEY", "key"))
        st.ghost.update(trace=[])
        ex.ctx = dict(kind=kind, rf=rf)
    return setup


def contract_sphere_read_signal():
    def tr(st, e):
        st.ghost["trace"] = st.ghost["trace"] + [e]

    def h_isinstance(ex, st, args, kwargs, node, ev):
        obj, cls = args
        if isinstance(cls, Opaque) and cls.term == "str":
            return isinstance(obj, Opaque) and obj.kind == "path"
        raise Outside("isinstance form")

    def h_hasattr(ex, st, args, kwargs, node, ev):
        obj, name = args
        if name == "name" and isinstance(obj, _Stream):
            return obj.named
        raise Outside("hasattr form")

    def h_open(ex, st, args, kwargs, node, ev):
        ok = len(args) == 2 and args[0] is ex.ctx["rf"] and args[1] == "rb" and not kwargs
        tr(st, ("open", ok))
        return Opaque("OPENED_FILE", "file")

    def h_self(ex, st, args, kwargs, node, ev):
        tr(st, ("recurse", tuple(a.term if isinstance(a, Opaque) else a for a in args), tuple(sorted(kwargs))))
        return Opaque("RESULT_OF_THE_CALL_ON_THE_OPEN_FILE", "array")

    def h_ioerror(ex, st, args, kwargs, node, ev):
        return Opaque(("IOError",), "exc")

    def h_read_header(ex, st, args, kwargs, node, ev):
        ok = len(args) == 2 and args[0] is ex.ctx["rf"] and isinstance(args[1], Opaque) and args[1].kind == "exc" and not kwargs
        tr(st, ("read_header", ok))
        return Opaque("HEADER", "header")

    def h_copy_samples(ex, st, args, kwargs, node, ev):
        ok = (len(args) == 4 and args[0] is ex.ctx["rf"] and isinstance(args[1], Opaque) and args[1].term == "HEADER" and args[2] is st.env["dtype"]
              and isinstance(args[3], Opaque) and args[3].kind == "exc" and not kwargs)
        tr(st, ("copy_samples", ok))
        return Opaque("DATA", "array")

    def ok(ev, res):
        st, c = ev.st, ev.ex.ctx
        t = st.ghost["trace"]
        if c["kind"] == "path":
            return t == [("open", True), ("recurse", ("OPENED_FILE", "DTYPE", "KEY"), ())] and isinstance(res, Opaque) and res.term == "RESULT_OF_THE_CALL_ON_THE_OPEN_FILE"
        return t == [("read_header", True), ("copy_samples", True)] and isinstance(res, Opaque) and res.term == "DATA"

    return Contract(
        target="_sphere:sphere_read_signal", uses=["A-PYSEM", "A-IO-STREAM"],
        consts={"OK": SpecFn(ok), "str": Opaque("str", "class")},
        handlers={"isinstance": h_isinstance, "hasattr": h_hasattr, "open": h_open, "sphere_read_signal": h_self, "IOError": h_ioerror,
                  "read_header": h_read_header, "copy_samples": h_copy_samples},
        ensures=[("header_then_samples_on_the_same_stream_with_the_callers_dtype", "OK(result)")],
    )


def unit_sphere_read_signal(prop):
    def unit(tier, known):
        from contracts.registry import run_contract
        from contracts import sphere as S

        def tc(ob):
            cs = list(S.to_case_header(ob) or [])
            try:
                import itertools
                from rtc import c12
                allc = list(itertools.islice(c12.enumerate_cases("quick", 0), 6000))
                cs = [c for c in allc if c.get("kind") in ("dtype", "trunc")][:300] + cs
            except Exception:
                pass
            return cs
        return run_contract(prop, ("_sphere", "sphere_read_signal"), contract_sphere_read_signal(),
                            [(k, _srs_setup(k)) for k in ("path", "named_stream", "anonymous_stream")], name="sphere_read_signal", to_case=tc, replay_module="rtc.c12")
    unit.__name__ = "sphere_read_signal"
    return unit

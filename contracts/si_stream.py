"""Sidecar contracts: compute.py ShortIntegrationFrameComputer - the overlap-save bookkeeping of compute_chunk and its helpers
(properties C01, C03, C04).

Geometry (fixed at construction): s = _frame_shift >= 1, M = _max_support >= 1, D = _dft_size >= M + s - 1 (= frame_length),
v = D - M + 1 (valid outputs of one D-point circular convolution with an M-tap filter), NB = number of accumulator blocks with
NB * s >= D - M + 2s, tr = _translation >= 0.

Ghost state of one utterance:
  W   : Int -> Real   every sample pushed into the raw ring buffer, in order (virtual zeros of the centered style included)
  Q                    how many of them have been pushed
  YB                   position in W of the first filtered sample that counts (= the initial skip)
  YP                   filtered samples produced (accumulated into the blocks) so far: positions YB .. YB+YP-1 of W
  FR                   frames emitted so far
Data invariant Inv(self; W, Q, YB, YP, FR):
  _skip >= 0, 0 <= _x_rem <= v, 0 <= _y_rem < 2s, YP >= 0, FR >= 0
  Q + _skip == YB + YP + _x_rem                 (pending raw samples are exactly the ones not yet filtered)
  _skip > 0  =>  YP == 0 and _x_rem == 0 and _y_rem == 0
  YP == FR * s + _y_rem  and  (FR > 0 => _y_rem >= s)        (greedy emission: FR == max(0, YP // s - 1))
  YB == initial skip of the style, Q >= virtual zeros of the style (so Q - X0 real samples have been fed)
  FR == max(0, (Q + _skip - YB) // s - 1)                     (eager: the frame count depends on the samples pushed only)
  _x_buf[k] == W[Q - D + k]  for 0 <= k < D                   (the ring buffer holds the last D samples pushed)
Callee contracts used at the call sites of compute_chunk (each callee is verified against the same clauses as its own unit
where it is within the subset, otherwise listed as assumed):
  _compute_dft(buf)           -> a transform that remembers WHICH samples it was taken of (a snapshot of buf)
  _fill_y_buf(X, y_keep)      needs 1 <= y_keep <= v, len(window) == D, and the window to END exactly y_keep samples after the
                              last filtered sample: snapshot[k] == W[YB + YP + y_keep - D + k]; room for y_keep more samples in
                              the blocks; then YP += y_keep, _y_rem += y_keep
  _compute_frame(row)         needs _y_rem >= 2s, the next free row of the result; then _y_rem -= s, FR += 1
So every filtered sample is produced exactly once, in order, from a window that really ends where the overlap-save scheme
says, whatever the chunking - which is what makes the chunked result a function of the concatenated stream alone.
"""
import z3

from pyvc import api, symex
from pyvc.api import I, R, SpecFn, Z, Zb, Arr, Mat, Row, Opaque, simp, Outside
from pyvc.symex import Contract, LoopSpec, Root, fresh

CLS = "ShortIntegrationFrameComputer"


def geometry(st, ex):
    s, M, D, tr, NB, nc = (api.sym(x) for x in ("s", "M", "D", "tr", "NB", "ncoef"))
    st.assume(z3.And(s >= 1, M >= 1, D >= M + s - 1, tr >= 0, NB >= 1, NB * s >= D - M + 2 * s, nc >= 0))
    ex.ctx = dict(s=s, M=M, D=D, tr=tr, NB=NB, nc=nc, v=D - M + 1)
    ex.positive = {str(s)}
    return s, M, D, tr, NB, nc


def origin(ex):
    """(initial skip, virtual zeros the utterance starts with) of the frame style, as _compute_preamble sets them"""
    s, tr = ex.ctx["s"], ex.ctx["tr"]
    if ex.ctx["style"] == "centered":
        return z3.If(tr - s < 0, 0, tr - s), z3.If(tr - s < 0, s - tr, 0)
    return tr, z3.IntVal(0)


def base_setup(ex, st, style="causal"):
    s, M, D, tr, NB, nc = geometry(st, ex)
    ex.ctx["style"] = style
    if style == "centered":
        st.assume(tr == M / 2)  # __init__: _translation = _max_support // 2
    fields = {
        "_frame_shift": s, "_max_support": M, "_dft_size": D, "_translation": tr, "_frame_style": style, "_frame_length": M + s - 1,
        "_x_rem": "int", "_y_rem": "int", "_skip": "int", "_started": "bool", "_ncoef": nc, "_nblocks": NB,
        "_ret_dtype": Opaque("ret_dtype0", "dtype"),
    }
    api.mk_obj(st, "self", CLS, fields)
    xb = api.mk_array(st, "xbuf", D, owner="self._x_buf")
    st.fields[("self", "_x_buf")] = xb
    W = z3.Array("W", I, R)
    st.ghost.update(W=W, Q=api.sym("Q"), YB=api.sym("YB"), YP=api.sym("YP"), FR=api.sym("FR"), rows=0)


def consts():
    return {
        "WS": SpecFn(lambda ev, i: z3.Select(ev.st.ghost["W"], Z(i))),
        "V": SpecFn(lambda ev: ev.ex.ctx["v"]),
        "NCH": SpecFn(lambda ev: ev.ex.ctx["n"]),
        "SKIP0": SpecFn(lambda ev: origin(ev.ex)[0]),
        "X0": SpecFn(lambda ev: origin(ev.ex)[1]),
        "NREAL": SpecFn(lambda ev: Z(ev.st.ghost["Q"]) - origin(ev.ex)[1]),
        "np.float64": Opaque("float64", "dtype"),
    }


INV = [
    ("ranges", "self._skip >= 0 and 0 <= self._x_rem <= V() and 0 <= self._y_rem < 2 * self._frame_shift and YP >= 0 and FR >= 0"),
    ("position", "Q + self._skip == YB + YP + self._x_rem"),
    ("skip_phase", "implies(self._skip > 0, YP == 0 and self._x_rem == 0 and self._y_rem == 0)"),
    ("frames", "YP == FR * self._frame_shift + self._y_rem"),
    ("greedy", "implies(FR > 0, self._y_rem >= self._frame_shift)"),
    ("origin", "YB == SKIP0() and Q >= X0()"),
    ("eager", "FR == max(0, (Q + self._skip - YB) // self._frame_shift - 1)"),
    ("ring", "forall(k, 0, self._dft_size, self._x_buf[k] == WS(Q - self._dft_size + k))"),
]


# ------------------------------------------------------------------------------------------
# callee contracts, caller side
# ------------------------------------------------------------------------------------------


def _lbl(ex, node):
    return f"L{node.lineno - ex.fx.lineno}"


def h_num_coeffs(ex, st, o, node):
    return st.fields[("self", "_ncoef")]


def h_preamble_started(ex, st, o, args, kwargs, node, ev):
    """started: the callee only checks the dtype (precondition of this setup: the chunk has the utterance's dtype)"""
    return None


def make_h_preamble_fresh(style):
    def h(ex, st, o, args, kwargs, node, ev):
        """not started: the callee's postcondition (unit si_preamble): counters of an empty utterance, zeroed buffers"""
        skip, xrem = origin(ex)
        st.fields[("self", "_skip")] = simp(skip)
        st.fields[("self", "_x_rem")] = simp(xrem)
        st.fields[("self", "_y_rem")] = 0
        st.fields[("self", "_started")] = True
        xb = st.fields[("self", "_x_buf")]
        r = st.heap[xb.root]
        st.heap[xb.root] = Root(r.length, z3.K(I, z3.RealVal(0)), r.dtype, r.owner)
        st.writes.append(("self._x_buf", "fill(0) in _compute_preamble"))
        return None
    return h


def h_handle_skip(ex, st, o, args, kwargs, node, ev):
    (chunk,) = args
    if not isinstance(chunk, Arr) or chunk.step != 1:
        raise Outside("_handle_skip argument")
    lbl = _lbl(ex, node)
    skip, xrem = Z(st.fields[("self", "_skip")]), Z(st.fields[("self", "_x_rem")])
    D, Q, W = ex.ctx["D"], Z(st.ghost["Q"]), st.ghost["W"]
    ex.oblige(st, z3.Implies(skip != 0, xrem == 0), f"callee_pre.handle_skip.no_pending_raw_samples.{lbl}", "pre", node.lineno)
    ex.oblige(st, skip >= 0, f"callee_pre.handle_skip.skip_nonneg.{lbl}", "pre", node.lineno)
    k = z3.Int("hk!%d" % next(symex._fresh))
    xb = st.fields[("self", "_x_buf")]
    ex.oblige(st, z3.ForAll([k], z3.Implies(z3.And(k >= 0, k < D), st.select(xb, k) == z3.Select(W, Q - D + k))),
              f"callee_pre.handle_skip.ring.{lbl}", "pre", node.lineno)
    n = Z(chunk.n)
    consumed = z3.If(skip < n, skip, n)
    # callee post (unit si_handle_skip): the ring buffer holds the last D samples of W[: Q + consumed]
    r = st.heap[xb.root]
    new = fresh("xbuf_after_skip", "arr")
    st.heap[xb.root] = Root(r.length, new, r.dtype, r.owner)
    st.writes.append(("self._x_buf", "_handle_skip"))
    k2 = z3.Int("hk!%d" % next(symex._fresh))
    st.assume(z3.ForAll([k2], z3.Implies(z3.And(k2 >= 0, k2 < D), z3.Select(new, Z(xb.off) + k2) == z3.Select(W, Q + consumed - D + k2))))
    st.ghost["Q"] = simp(Q + consumed)
    st.fields[("self", "_skip")] = simp(skip - consumed)
    return Arr(chunk.root, simp(Z(chunk.off) + consumed), 1, simp(n - consumed))


def h_compute_dft(ex, st, o, args, kwargs, node, ev):
    (buf,) = args
    if not isinstance(buf, Arr) or buf.step != 1:
        raise Outside("_compute_dft argument")
    lbl = _lbl(ex, node)
    ex.oblige(st, Z(buf.n) <= ex.ctx["D"], f"callee_pre.compute_dft.len_le_dft_size.{lbl}", "pre", node.lineno)
    op = Opaque(("dft", next(symex._fresh)), "spectrum")
    op.snap = (st.heap[buf.root].content, buf.off, buf.n)
    return op


def h_fill_y_buf(ex, st, o, args, kwargs, node, ev):
    X, y_keep = args
    if not isinstance(X, Opaque) or not hasattr(X, "snap"):
        raise Outside("_fill_y_buf argument is not a transform returned by _compute_dft")
    lbl = _lbl(ex, node)
    content, off, n = X.snap
    D, v, s, NB = ex.ctx["D"], ex.ctx["v"], ex.ctx["s"], ex.ctx["NB"]
    yk = Z(y_keep)
    YB, YP, W = Z(st.ghost["YB"]), Z(st.ghost["YP"]), st.ghost["W"]
    yrem = Z(st.fields[("self", "_y_rem")])
    ex.oblige(st, z3.And(yk >= 1, yk <= v), f"callee_pre.fill_y_buf.y_keep_within_valid_region.{lbl}", "pre", node.lineno)
    ex.oblige(st, Z(n) == D, f"callee_pre.fill_y_buf.window_has_dft_size.{lbl}", "pre", node.lineno)
    k = z3.Int("fk!%d" % next(symex._fresh))
    ex.oblige(st, z3.ForAll([k], z3.Implies(z3.And(k >= 0, k < D), z3.Select(content, Z(off) + k) == z3.Select(W, YB + YP + yk - D + k))),
              f"callee_pre.fill_y_buf.window_ends_at_next_filtered_samples.{lbl}", "spec", node.lineno)
    ex.oblige(st, yrem + yk <= NB * s, f"callee_pre.fill_y_buf.blocks_have_room.{lbl}", "pre", node.lineno)
    ex.oblige(st, Z(st.fields[("self", "_skip")]) == 0, f"callee_pre.fill_y_buf.skip_finished.{lbl}", "spec", node.lineno)
    st.ghost["YP"] = simp(YP + yk)
    st.fields[("self", "_y_rem")] = simp(yrem + yk)
    return None


def h_compute_frame(ex, st, o, args, kwargs, node, ev):
    (row,) = args
    if not isinstance(row, Row):
        raise Outside("_compute_frame argument")
    lbl = _lbl(ex, node)
    s = ex.ctx["s"]
    yrem = Z(st.fields[("self", "_y_rem")])
    ex.oblige(st, yrem >= 2 * s, f"callee_pre.compute_frame.two_blocks_ready.{lbl}", "pre", node.lineno)
    ex.oblige(st, Z(row.mat.cols) == Z(st.fields[("self", "_ncoef")]), f"callee_pre.compute_frame.row_len.{lbl}", "pre", node.lineno)
    ex.oblige(st, Z(row.index) == Z(st.ghost["rows"]), f"rows_in_order.{lbl}", "spec", node.lineno)
    if st.ghost.get("mat") not in (None, row.mat.name):
        raise Outside("rows written into two different matrices")
    st.ghost["mat"] = row.mat.name
    st.ghost["rows"] = simp(Z(st.ghost["rows"]) + 1)
    st.ghost["FR"] = simp(Z(st.ghost["FR"]) + 1)
    st.fields[("self", "_y_rem")] = simp(yrem - s)
    return None


# ------------------------------------------------------------------------------------------
# compute_chunk
# ------------------------------------------------------------------------------------------


def setup_chunk(which):
    """which: 'started-<style>' (any state satisfying Inv) | 'fresh-<style>' (first chunk of an utterance)"""
    def setup(ex, st):
        style = "centered" if which.endswith("centered") else "causal"
        base_setup(ex, st, style)
        n = api.sym("n")
        st.assume(n >= 0)
        chunk = api.mk_array(st, "chunk", n, owner="param:chunk", dtype="chunkdtype")
        st.env["chunk"] = chunk
        ex.ctx["n"] = n
        if which.startswith("started"):
            st.fields[("self", "_started")] = True
        else:
            st.fields[("self", "_started")] = False
            # ghost of an empty utterance: nothing pushed but the virtual zeros the centered style starts with
            skip0, x0 = origin(ex)
            st.ghost.update(W=z3.K(I, z3.RealVal(0)), Q=simp(x0), YB=simp(skip0), YP=0, FR=0)
    return setup


def _after_requires_chunk(ex, st):
    """the chunk is the continuation of the ghost stream: W1 = W0[:Q] ++ chunk"""
    W0, Q = st.ghost["W"], Z(st.ghost["Q"])
    C = st.heap["chunk"].content
    k = z3.Int("wk")
    st.ghost["W"] = z3.Lambda([k], z3.If(k < Q, z3.Select(W0, k), z3.Select(C, k - Q)))
    st.ghost["QE"], st.ghost["YP0"], st.ghost["FR0"] = Q, Z(st.ghost["YP"]), Z(st.ghost["FR"])


FRAMES_W = "YP == (FR0 + cur_frame) * self._frame_shift + self._y_rem and FR == FR0 + cur_frame and rows == cur_frame " \
           "and self._y_rem >= 0 and cur_frame >= 0 and implies(FR > 0, self._y_rem >= self._frame_shift)"

DFT_LOOP_INV = [
    ("range", "0 <= dft_idx <= num_dfts"),
    ("skip_done", "self._skip == 0 or num_dfts == 0"),
    ("copied", "0 <= chunk_copied <= chunk_len and chunk_copied <= ite(dft_idx == 0, 0, min(dft_idx * valid_samples_per_dft - self._x_rem, chunk_len))"),
    ("ring", "forall(k, 0, self._dft_size, self._x_buf[k] == WS(Q + chunk_copied - self._dft_size + k))"),
    ("produced", "YP == YP0 + min(dft_idx * valid_samples_per_dft, num_raw)"),
    ("frames", FRAMES_W + " and self._y_rem < 2 * self._frame_shift"),
]


def contract_chunk(which):
    style = "centered" if which.endswith("centered") else "causal"
    started = which.startswith("started")
    c = Contract(
        target=f"compute:{CLS}.compute_chunk",
        uses=["A-PYSEM", "A-NP-SLICE", "A-SI-CALLEES"],
        consts=consts(),
        requires=[e for _, e in INV] if started else [],
        handlers={
            "attr:num_coeffs": h_num_coeffs,
            "self._compute_preamble": h_preamble_started if started else make_h_preamble_fresh(style),
            "self._handle_skip": h_handle_skip,
            "self._compute_dft": h_compute_dft,
            "self._fill_y_buf": h_fill_y_buf,
            "self._compute_frame": h_compute_frame,
        },
        loops={
            0: LoopSpec(kind="for", var="dft_idx", modifies_fields=["_y_rem"], modifies_ghost=["YP", "FR", "rows"], invariant=DFT_LOOP_INV),
            1: LoopSpec(kind="while", modifies_fields=["_y_rem"], modifies_ghost=["FR", "rows"], invariant=[("frames", FRAMES_W)]),
        },
        ensures=[("inv." + lab, e) for lab, e in INV] + [
            ("whole_chunk_pushed", "Q == QE + NCH()"),
            ("rows_returned", "result.shape[0] == rows and rows == FR - FR0"),
            ("columns", "result.shape[1] == self._ncoef"),
            ("started", "self._started"),
        ],
    )
    c.after_requires = _after_requires_chunk
    c.ghost_at_exit = {"Q": "Q + len(chunk)"}
    c.no_param_writes = True
    c.canaries = [("emits_one_frame_more", "result.shape[0] == rows + 1"), ("x_rem_off_by_one", "Q + self._skip == YB + YP + self._x_rem + 1")]
    return c


# ------------------------------------------------------------------------------------------
# _handle_skip (the callee contract used above, proved on its own body)
# ------------------------------------------------------------------------------------------


def setup_handle_skip(ex, st):
    base_setup(ex, st)
    n = api.sym("n")
    st.assume(n >= 0)
    chunk = api.mk_array(st, "chunk", n, owner="param:chunk", dtype="chunkdtype")
    st.env["chunk"] = chunk
    ex.ctx["n"] = n


def contract_handle_skip():
    c = Contract(
        target=f"compute:{CLS}._handle_skip",
        uses=["A-PYSEM", "A-NP-SLICE"],
        consts=dict(consts(), OFF=SpecFn(lambda ev, a: Z(a.off)), CONSUMED=SpecFn(
            lambda ev: z3.If(Z(ev.old.fields[("self", "_skip")]) < ev.ex.ctx["n"], Z(ev.old.fields[("self", "_skip")]), ev.ex.ctx["n"]))),
        requires=["self._skip >= 0", "implies(self._skip != 0, self._x_rem == 0)", INV[-1][1]],
        ensures=[
            ("returns_rest_of_chunk", "OFF(result) == CONSUMED() and len(result) == NCH() - CONSUMED()"),
            ("skip_reduced", "self._skip == old(self._skip) - CONSUMED()"),
            ("ring", "forall(k, 0, self._dft_size, self._x_buf[k] == WS(QE + CONSUMED() - self._dft_size + k))"),
            ("nothing_else", "self._x_rem == old(self._x_rem) and self._y_rem == old(self._y_rem) and self._started == old(self._started)"),
        ],
    )
    c.after_requires = _after_requires_chunk
    c.no_param_writes = True
    c.canaries = [("skip_reduced_by_one_more", "self._skip == old(self._skip) - CONSUMED() - 1")]
    return c


# ------------------------------------------------------------------------------------------
# _compute_preamble (C04: what the first chunk after finalize / construction resets; dtype checks)
# ------------------------------------------------------------------------------------------

IS_FLOATING = z3.Function("IsFloatingDtype", z3.StringSort(), z3.BoolSort())


def setup_preamble(style):
    def setup(ex, st):
        base_setup(ex, st, style)
        n = api.sym("n")
        st.assume(n >= 0)
        chunk = api.mk_array(st, "chunk", n, owner="param:chunk")
        st.heap["chunk"].dtype = z3.String("chunk_dtype")
        st.env["chunk"] = chunk
        st.fields[("self", "_ret_dtype")] = Opaque(z3.String("ret_dtype0"), "dtype")
        st.fields[("self", "_y_buf")] = Opaque("ybuf", "ybuf")
        st.ghost["y_zero"] = api.sym("y_zero0", "bool")
        ex.ctx["n"] = n
    return setup


def _h_issubdtype(ex, st, args, kwargs, node, ev):
    a, b = args
    if not (isinstance(a, Opaque) and isinstance(b, Opaque) and b.term == "np.floating"):
        raise Outside("np.issubdtype arguments")
    return IS_FLOATING(Z(a.term))


def _h_xbuf_fill(ex, st, o, args, kwargs, node, ev):
    if not isinstance(o, Arr) or st.heap[o.root].owner != "self._x_buf":
        raise Outside("fill on an array other than self._x_buf")
    (val,) = args
    r = st.heap[o.root]
    st.heap[o.root] = Root(r.length, z3.K(I, symex.to_real(val)), r.dtype, r.owner)
    st.writes.append((r.owner, "fill"))
    return None


def _h_ybuf_fill(ex, st, o, args, kwargs, node, ev):
    (val,) = args
    st.ghost["y_zero"] = simp(Z(val) == 0) if symex.is_z3(val) else (val == 0)
    return None


def contract_preamble(style):
    s_, tr_ = "self._frame_shift", "self._translation"
    if style == "centered":
        fresh_counters = f"self._skip == max({tr_} - {s_}, 0) and self._x_rem == max({s_} - {tr_}, 0)"
    else:
        fresh_counters = f"self._skip == {tr_} and self._x_rem == 0"
    c = Contract(
        target=f"compute:{CLS}._compute_preamble",
        uses=["A-PYSEM", "A-NP-DTYPE"],
        consts=dict(consts(), **{"np.floating": Opaque("np.floating", "dtypeclass"), "ISFLOAT": SpecFn(lambda ev, d: IS_FLOATING(Z(d.term))),
                                 "YZERO": SpecFn(lambda ev: ev.st.ghost["y_zero"])}),
        handlers={"np.issubdtype": _h_issubdtype, "arr.fill": _h_xbuf_fill, "opaque.fill": _h_ybuf_fill},
        raises={"ValueError": "(self._started and chunk.dtype != self._ret_dtype) or (not self._started and not ISFLOAT(chunk.dtype))"},
        ensures=[
            ("started", "self._started"),
            ("mid_utterance_untouched", "implies(old(self._started), self._x_rem == old(self._x_rem) and self._y_rem == old(self._y_rem) "
                                        "and self._skip == old(self._skip) and self._ret_dtype == old(self._ret_dtype) and YZERO() == old(YZERO()) "
                                        "and forall(k, 0, self._dft_size, self._x_buf[k] == old(self._x_buf[k])))"),
            ("fresh_counters", f"implies(not old(self._started), {fresh_counters} and self._y_rem == 0 and self._skip >= 0)"),
            ("fresh_buffers", "implies(not old(self._started), YZERO() and forall(k, 0, self._dft_size, self._x_buf[k] == 0))"),
            ("fresh_dtype", "implies(not old(self._started), self._ret_dtype == chunk.dtype)"),
        ],
    )
    c.frame_empty_on_raise = True
    c.no_param_writes = True
    c.canaries = [("fresh_skip_off_by_one", f"implies(not old(self._started), self._skip == {tr_} + 1)")]
    return c


# ------------------------------------------------------------------------------------------
# generation entry point (one (function, setup) pair per worker process, see registry.run_parallel)
# ------------------------------------------------------------------------------------------

STYLES = ("causal", "centered")
LABELS = {
    "chunk": ["started-causal", "started-centered", "fresh-causal", "fresh-centered"],
    "handle_skip": [""],
    "preamble": list(STYLES),
    "finalize": list(STYLES) + ["idle"],
    "full": list(STYLES),
    "geometry": [""],
    "supports": list(STYLES),
}


def generate(prop, which, label):
    from contracts.registry import run_contract
    if which == "chunk":
        return run_contract(prop, ("compute", f"{CLS}.compute_chunk"), contract_chunk(label), [(label, setup_chunk(label))], name="si_chunk")
    if which == "handle_skip":
        return run_contract(prop, ("compute", f"{CLS}._handle_skip"), contract_handle_skip(), [("", setup_handle_skip)], name="si_handle_skip")
    if which == "preamble":
        return run_contract(prop, ("compute", f"{CLS}._compute_preamble"), contract_preamble(label), [(label, setup_preamble(label))], name="si_preamble")
    if which == "finalize":
        return run_contract(prop, ("compute", f"{CLS}.finalize"), contract_finalize(label), [(label, setup_finalize(label))], name="si_finalize")
    if which == "supports":
        from pyvc import extract
        from pyvc.check import UnitResult
        try:
            fx = extract.get_slice("compute", f"{CLS}.__init__", sel_supports, "supports: _translation and _max_support from bank.supports")
        except KeyError as e:
            u = UnitResult("si_supports")
            u.outside.append((f"compute:{CLS}.__init__", str(e)))
            return u
        return run_contract(prop, fx, contract_supports(label), [(label, setup_supports(label))], name="si_supports", fname="SI.__init__#supports")
    if which == "geometry":
        from pyvc import extract
        from pyvc.check import UnitResult
        try:
            fx = extract.get_slice("compute", f"{CLS}.__init__", sel_geometry, "geometry: _frame_length, _dft_size (incl. power-of-two padding), _x_buf, y_blocks, _y_buf")
        except KeyError as e:
            u = UnitResult("si_geometry")
            u.outside.append((f"compute:{CLS}.__init__", str(e)))
            return u
        return run_contract(prop, fx, contract_geometry(), [("", setup_geometry)], name="si_geometry", fname="SI.__init__#geometry")
    if which == "full":
        return run_contract(prop, ("compute", f"{CLS}.compute_full"), contract_full(label), [(label, setup_full(label))], name="si_full")
    raise KeyError(which)


# ------------------------------------------------------------------------------------------
# finalize / compute_full: frame count of the whole utterance (C03), reset (C04), through compute_chunk's CONTRACT
# ------------------------------------------------------------------------------------------


def h_callee_compute_chunk(ex, st, o, args, kwargs, node, ev):
    """caller-side view of compute_chunk's contract (units si_chunk): needs Inv when started (establishes the fresh state itself
    otherwise), pushes the whole chunk, re-establishes Inv, returns the FR' - FR frames that became complete"""
    (chunk,) = args
    if not isinstance(chunk, Arr) or chunk.step != 1:
        raise Outside("compute_chunk argument")
    lbl = _lbl(ex, node)
    started = ex.decide(st, Zb(st.fields[("self", "_started")]))
    if started is True:
        for lab, e in INV:
            ex.oblige(st, ex.spec(st, e), f"callee_pre.compute_chunk.inv.{lab}.{lbl}", "pre", node.lineno)
    elif started is False:
        skip0, x0 = origin(ex)
        st.ghost.update(W=z3.K(I, z3.RealVal(0)), Q=simp(x0), YB=simp(skip0), YP=0, FR=0)
        st.fields[("self", "_ret_dtype")] = Opaque(st.heap[chunk.root].dtype, "dtype")
    else:
        raise Outside("compute_chunk called in a state where `started` is not decided")
    W0, Q0, FR0 = st.ghost["W"], Z(st.ghost["Q"]), Z(st.ghost["FR"])
    C = st.heap[chunk.root].content
    k = z3.Int("ck!%d" % next(symex._fresh))
    st.ghost["W"] = z3.Lambda([k], z3.If(k < Q0, z3.Select(W0, k), z3.Select(C, Z(chunk.off) + k - Q0)))
    st.ghost["Q"] = simp(Q0 + Z(chunk.n))
    for g in ("YP", "FR"):
        st.ghost[g] = fresh(g, "int")
    for f in ("_x_rem", "_y_rem", "_skip"):
        st.fields[("self", f)] = fresh(f, "int")
    st.fields[("self", "_started")] = True
    xb = st.fields[("self", "_x_buf")]
    r = st.heap[xb.root]
    st.heap[xb.root] = Root(r.length, fresh("xbuf_after_chunk", "arr"), r.dtype, r.owner)
    st.writes.append(("self._x_buf", "compute_chunk"))
    for lab, e in INV:
        st.assume(ex.spec(st, e))
    m = Mat("chunk_feats%d" % next(symex._fresh), simp(Z(st.ghost["FR"]) - FR0), st.fields[("self", "_ncoef")], None)
    st.ghost["chunk_calls"] = st.ghost.get("chunk_calls", 0) + 1
    return m


def setup_finalize(which):
    """which: '<style>' (mid-utterance: Inv holds) | 'idle' (not started)"""
    def setup(ex, st):
        style = "centered" if which == "centered" else "causal"
        base_setup(ex, st, style)
        if which == "idle":
            st.fields[("self", "_started")] = False
        else:
            st.fields[("self", "_started")] = True
            # the property's hypothesis: the frame shift is shorter than the longest filter's one-sided support
            st.assume(ex.ctx["s"] < ex.ctx["M"] - ex.ctx["tr"])
    return setup


def contract_finalize(which):
    idle = which == "idle"
    c = Contract(
        target=f"compute:{CLS}.finalize",
        uses=["A-PYSEM", "A-NP-SLICE", "A-SI-CALLEES"],
        consts=consts(),
        requires=[] if idle else [e for _, e in INV],
        handlers={"attr:num_coeffs": h_num_coeffs, "self.compute_chunk": h_callee_compute_chunk},
        ensures=[
            ("reset", "not self._started and self._ret_dtype == np.float64"),
            ("columns", "result.shape[1] == self._ncoef"),
        ] + ([("idle_no_frames", "result.shape[0] == 0"),
              ("idle_state_untouched", "self._x_rem == old(self._x_rem) and self._y_rem == old(self._y_rem) and self._skip == old(self._skip)")]
             if idle else
             [("total_count", "old(FR) + result.shape[0] == (old(NREAL()) + self._frame_shift // 2) // self._frame_shift")]),
    )
    c.no_param_writes = True
    if not idle:
        c.canaries = [("total_count_plus_one", "old(FR) + result.shape[0] == (old(NREAL()) + self._frame_shift // 2) // self._frame_shift + 1")]
    return c


def setup_full(style):
    def setup(ex, st):
        base_setup(ex, st, style)
        st.assume(ex.ctx["s"] < ex.ctx["M"] - ex.ctx["tr"])
        n = api.sym("n")
        st.assume(n >= 0)
        sig = api.mk_array(st, "signal", n, owner="param:signal", dtype="sigdtype")
        st.env["signal"] = sig
        ex.ctx["n"] = n
    return setup


def h_callee_finalize(ex, st, o, args, kwargs, node, ev):
    """caller-side view of finalize's contract (unit si_finalize, mid-utterance case)"""
    lbl = _lbl(ex, node)
    ex.oblige(st, st.fields[("self", "_started")], f"callee_pre.finalize.started.{lbl}", "pre", node.lineno)
    for lab, e in INV:
        ex.oblige(st, ex.spec(st, e), f"callee_pre.finalize.inv.{lab}.{lbl}", "pre", node.lineno)
    s = ex.ctx["s"]
    nreal = Z(st.ghost["Q"]) - origin(ex)[1]
    rows = simp((nreal + s / 2) / s - Z(st.ghost["FR"]))
    st.fields[("self", "_started")] = False
    st.fields[("self", "_ret_dtype")] = Opaque("float64", "dtype")
    for f in ("_x_rem", "_y_rem", "_skip"):
        st.fields[("self", f)] = fresh(f, "int")
    st.ghost["finalize_calls"] = st.ghost.get("finalize_calls", 0) + 1
    return Mat("final_feats%d" % next(symex._fresh), rows, st.fields[("self", "_ncoef")], None)


def _h_concat_mats(ex, st, args, kwargs, node, ev):
    parts = args[0]
    if not isinstance(parts, (list, tuple)) or not all(isinstance(p, Mat) for p in parts):
        raise Outside("np.concatenate of something other than feature matrices")
    rows = simp(sum(Z(p.rows) for p in parts))
    for p in parts[1:]:
        ex.oblige(st, Z(p.cols) == Z(parts[0].cols), "concatenate.same_columns", "pre", node.lineno)
    return Mat("cat%d" % next(symex._fresh), rows, parts[0].cols, None)


def contract_full(style):
    c = Contract(
        target=f"compute:{CLS}.compute_full",
        uses=["A-PYSEM", "A-NP-CAT", "A-SI-CALLEES"],
        consts=consts(),
        handlers={"attr:num_coeffs": h_num_coeffs, "self.compute_chunk": h_callee_compute_chunk, "self.finalize": h_callee_finalize,
                  "np.concatenate": _h_concat_mats},
        raises={"ValueError": "self._started"},
        ensures=[
            ("frame_count", "result.shape[0] == (NCH() + self._frame_shift // 2) // self._frame_shift"),
            ("columns", "result.shape[1] == self._ncoef"),
            ("left_idle", "not self._started"),
        ],
    )
    c.frame_empty_on_raise = True
    c.no_param_writes = True
    c.canaries = [("frame_count_plus_one", "result.shape[0] == (NCH() + self._frame_shift // 2) // self._frame_shift + 1")]
    return c


# ------------------------------------------------------------------------------------------
# solver model -> inputs for the stand-ins' replay on the real code. The geometry (M, D, tr) of a real computer is fixed by its
# bank, so a model's (s, n) is kept where a real computer can realise it and a neighbourhood is tried: small banks x both
# styles x padded/unpadded DFT x shifts around the model's x every short utterance x whole / sample-by-sample / two-part chunkings.
# ------------------------------------------------------------------------------------------


def _shifts(ob):
    from pyvc.solve import model_int
    s = model_int(ob.model, "s")
    out = [s] if s is not None and 1 <= s <= 12 else []
    return out + [x for x in (3, 4, 5, 2, 7, 1) if x not in out]


def _style_of(ob):
    return "centered" if "centered" in ob.id else ("causal" if "causal" in ob.id else None)


def to_case_c01(ob):
    from pyvc.solve import model_int
    styles = [_style_of(ob)] if _style_of(ob) else ["causal", "centered"]
    n = model_int(ob.model, "n")
    cases = []
    for style in styles:
        for bank in (("gamma3",) if style == "causal" else ("gabor3",)):
            for pad in (True, False):
                for s in _shifts(ob)[:4]:
                    base = dict(computer="si", frame_style=style, kaldi_shift=False, frame_shift=s, sampling_rate=1000, bank=bank, seed=0,
                                pad_to_nearest_power_of_two=pad)
                    lens = list(range(0, 4 * s + 3)) + [40, 97, 130, 257]
                    if n is not None and 0 <= n <= 400 and n not in lens:
                        lens.insert(0, n)
                    for N in lens:
                        cases.append(dict(base, N=N, chunks=[N]))
                        if 0 < N <= 60:
                            cases.append(dict(base, N=N, chunks=[1] * N))
                        for c in sorted({1, s, N // 2, N - 1} - {0, N}):
                            if 0 < c < N:
                                cases.append(dict(base, N=N, chunks=[c, N - c]))
                                cases.append(dict(base, N=N, chunks=[c, 0, N - c]))
    return cases[:3000]


def to_case_c03(ob):
    from pyvc.solve import model_int
    from rtc import c03
    styles = [_style_of(ob)] if _style_of(ob) else ["causal", "centered"]
    n = model_int(ob.model, "n")
    cases = []
    for bank in c03.BANKS_QUICK[:4]:
        for style in styles:
            for pad in (True, False):
                for s in _shifts(ob)[:4]:
                    lens = list(range(0, 3 * s + 2)) + [40, 97, 130, 257]
                    if n is not None and 0 <= n <= 400 and n not in lens:
                        lens.insert(0, n)
                    for N in lens:
                        cases.append({"bank": bank, "frame_style": style, "pad": pad, "frame_shift": s, "N": N, "seed": 0})
    return cases[:2500]


def to_case_c04(ob):
    styles = [_style_of(ob)] if _style_of(ob) else ["causal", "centered"]
    cases = []
    for style in styles:
        bank = "gamma3" if style == "causal" else "gabor3"
        for s in _shifts(ob)[:3]:
            b = dict(computer="si", frame_style=style, frame_shift=s, sampling_rate=1000, bank=bank, seed=0)
            for T in list(range(0, 3 * s + 2)) + [40, 130]:
                cases.append(dict(b, ops=[["chunk", T, 1, "f8"], ["finalize"], ["chunk", 5 * s + 1, 2, "f8"], ["finalize"]]))
                cases.append(dict(b, ops=[["chunk", T, 1, "f8"], ["full", 3, 5, "f8"], ["finalize"], ["fbf", 5 * s + 1, 2, "f8", 3]]))
                cases.append(dict(b, ops=[["chunk", T, 1, "f4"], ["finalize"], ["finalize"], ["full", 4 * s + 3, 2, "f8"]]))
                for short in (0, 1, 2):
                    # a mid-utterance compute_full on an empty / very short signal must be refused like any other
                    cases.append(dict(b, ops=[["chunk", T, 1, "f8"], ["full", short, 5, "f8"], ["chunk", 2 * s, 3, "f8"], ["finalize"]]))
    return cases[:3000]


# ------------------------------------------------------------------------------------------
# __init__, the statements that fix the geometry (a statement slice; everything else of the constructor - bank and window
# construction, filter preparation - is dropped here): establishes the class invariant every unit above assumes
# ------------------------------------------------------------------------------------------


def sel_geometry(fn):
    out = []
    for s in fn.body:
        txt = ast.unparse(s)
        if isinstance(s, ast.Assign) and any(txt.startswith(p) for p in ("self._frame_length =", "self._dft_size =", "self._x_buf =", "y_blocks =", "self._y_buf =")):
            out.append(s)
        elif isinstance(s, ast.If) and "pad_to_nearest_power_of_two" in ast.unparse(s.test):
            out.append(s)
    return out


def setup_geometry(ex, st):
    s, M = api.sym("s"), api.sym("M")
    rate, msh = api.sym("rate", "real"), api.sym("min_support_hz", "real")
    nf = api.sym("nfilts")
    st.assume(z3.And(s >= 1, M >= 1, rate > 0, msh > 0, nf >= 0))
    ex.ctx = dict(s=s, M=M)
    ex.positive = {str(s)}
    api.mk_obj(st, "self", CLS, {"_frame_shift": s, "_max_support": M, "_rate": rate, "_filts": symex.SeqVal(nf, lambda i: Opaque(("filt", i), "spectrum"))})
    st.env["min_support_hz"] = msh
    st.env["pad_to_nearest_power_of_two"] = api.sym("pad", "bool")
    for ax in api.math_axioms():
        ex.axioms.append(ax)


def _h_empty_geometry(ex, st, args, kwargs, node, ev):
    shape = args[0]
    if isinstance(shape, (tuple, list)) and len(shape) == 3:
        ev.wd(z3.And(*[Z(x) >= 0 for x in shape]), "shape_nonneg", node)
        st.ghost["NB"], st.ghost["halves"] = shape[0], shape[1]
        return Opaque("y_buf", "ybuf")
    return api.symex.LIB["np.empty"](ex, st, args, kwargs, node, ev)


def contract_geometry():
    c = Contract(
        target=f"compute:{CLS}.__init__",
        uses=["A-PYSEM", "A-MATH"],
        consts={"np.float64": Opaque("float64", "dtype")},
        handlers={"np.empty": _h_empty_geometry},
        ensures=[
            ("frame_length", "self._frame_length == self._max_support + self._frame_shift - 1"),
            ("dft_covers_frame", "self._dft_size >= self._max_support + self._frame_shift - 1"),
            ("ring_buffer_has_dft_size", "len(self._x_buf) == self._dft_size"),
            ("blocks_cover_one_dft_of_output_plus_a_frame", "NB >= 1 and NB * self._frame_shift >= self._dft_size - self._max_support + 2 * self._frame_shift"),
            ("two_window_halves", "halves == 2"),
        ],
    )
    c.canaries = [("dft_strictly_longer_than_frame", "self._dft_size > self._max_support + self._frame_shift - 1")]
    return c


import ast  # noqa: E402  (sel_geometry)


# ------------------------------------------------------------------------------------------
# __init__, the statement that fixes translation and longest support from the bank's supports (second geometry slice):
# establishes  tr >= 0, M >= 1, every filter's support shifted by tr lies in [0, M]  (causal)  /  tr == M // 2, M == longest support (centered)
# Assumed of the bank (its `supports` property): at least one filter, integer pairs with left < right.
# ------------------------------------------------------------------------------------------

LEFT = z3.Function("support_left", I, I)
RIGHT = z3.Function("support_right", I, I)


def sel_supports(fn):
    return [s for s in fn.body if isinstance(s, ast.If) and ast.unparse(s.test).startswith("frame_style ==") and "_max_support" in ast.unparse(s)]


def setup_supports(style):
    def setup(ex, st):
        n = api.sym("num_filts")
        j = z3.Int("sj")
        st.assume(n >= 1)
        st.assume(z3.ForAll([j], z3.Implies(z3.And(j >= 0, j < n), LEFT(j) < RIGHT(j)), patterns=[LEFT(j)]))
        st.assume(z3.ForAll([j], z3.Implies(z3.And(j >= 0, j < n), LEFT(j) < RIGHT(j)), patterns=[RIGHT(j)]))
        api.mk_obj(st, "self", CLS, {})
        api.mk_obj(st, "bank", "Bank", {"supports": symex.SeqVal(n, lambda i: (LEFT(Z(i)), RIGHT(Z(i))))})
        st.env["frame_style"] = style
        ex.ctx = dict(n=n, style=style)
    return setup


def contract_supports(style):
    consts = {"LEFT": SpecFn(lambda ev, j: LEFT(Z(j))), "RIGHT": SpecFn(lambda ev, j: RIGHT(Z(j))), "NF": SpecFn(lambda ev: ev.ex.ctx["n"])}
    if style == "centered":
        ens = [("longest_support", "forall(j, 0, NF(), RIGHT(j) - LEFT(j) <= self._max_support) and exists(j, 0, NF(), RIGHT(j) - LEFT(j) == self._max_support)"),
               ("translation_is_half_of_it", "self._translation == self._max_support // 2"),
               ("at_least_one_sample", "self._max_support >= 1 and self._translation >= 0")]
        loops = {}
    else:
        ens = [("translation_moves_every_support_to_nonnegative_samples", "self._translation >= 0 and forall(j, 0, NF(), LEFT(j) + self._translation >= 0)"),
               ("support_bound_covers_every_shifted_filter", "forall(j, 0, NF(), RIGHT(j) + self._translation <= self._max_support)"),
               ("at_least_one_sample", "self._max_support >= 1")]
        loops = {0: LoopSpec(kind="for", modifies_fields=["_translation", "_max_support"], invariant=[
            ("range", "0 <= __zi <= NF()"),
            ("bounds_so_far", "self._translation >= 0 and self._max_support >= 0 and forall(j, 0, __zi, LEFT(j) + self._translation >= 0 and RIGHT(j) <= self._max_support)")])}
    c = Contract(target=f"compute:{CLS}.__init__", uses=["A-PYSEM"], consts=consts, loops=loops, ensures=ens)
    c.canaries = [("longer_than_needed", "self._max_support >= 2")]
    return c


# ------------------------------------------------------------------------------------------
# __init__, the statements that build self._filts (a statement slice): the frequency-domain filters the overlap-save loop multiplies with.
# Term level (impulse responses, np.roll, the FFT and _compute_dft are uninterpreted):
#   with include_energy the FIRST filter is the transform (rfft for a real bank, fft otherwise) of a unit impulse at sample `_translation` of
#   a zero vector of _dft_size samples - so that the energy channel sees the signal with the same delay as every other channel;
#   filter i of the bank follows, in bank order: _compute_dft( roll(impulse_response(i, _dft_size), shift_i)[:_max_support] ) with
#   shift_i = _translation - (left_i + right_i) // 2 (centered: every filter centred on the same sample) or _translation (causal);
#   nothing else is appended.
# ------------------------------------------------------------------------------------------
def sel_filters(fn):
    out = []
    for s in fn.body:
        txt = ast.unparse(s)
        if isinstance(s, ast.Assign) and txt.startswith("self._filts ="):
            out.append(s)
        elif isinstance(s, ast.If) and txt.startswith("if include_energy") and "dirac" in txt:
            out.append(s)
        elif isinstance(s, ast.For) and "get_impulse_response" in txt and "_filts" in txt:
            out.append(s)
    return out if len(out) == 3 else []


class _TermVec:
    """a vector known only as a term: ('zeros', n) / ('impulse', n, k) / ('ir', i, n) / ('roll', t, k) / ('clamp', t, m) / ('fft'|'rfft'|'dft', t)"""
    def __init__(self, term):
        self.term = term

    def sym_setitem(self, sl, v, ev, node):
        k = ev.eval(sl)
        if self.term[0] != "zeros" or not (v == 1 or (symex.is_z3(v) and simp(Z(v) == 1) is True)):
            raise Outside("store into a filter vector")
        # the name keeps denoting the same array: rebind every local that holds it
        new = _TermVec(("impulse", self.term[1], simp(Z(k))))
        ev.wd(z3.And(Z(k) >= 0, Z(k) < Z(self.term[1])), "impulse_position_in_range", node)
        for k2, v2 in list(ev.st.env.items()):
            if v2 is self:
                ev.st.env[k2] = new

    def sym_getitem(self, sl, ev, node):
        if isinstance(sl, ast.Slice) and sl.lower is None and sl.step is None and sl.upper is not None:
            return _TermVec(("clamp", self.term, simp(Z(ev.eval(sl.upper)))))
        raise Outside("filter vector subscript form")


def _tv_eq(a, b):
    """z3 formula: two vector terms are equal"""
    if isinstance(a, tuple) and isinstance(b, tuple):
        if len(a) != len(b) or a[0] != b[0]:
            return z3.BoolVal(False)
        return z3.And(*[_tv_eq(x, y) for x, y in zip(a[1:], b[1:])]) if len(a) > 1 else z3.BoolVal(True)
    if isinstance(a, str) or isinstance(b, str):
        return z3.BoolVal(a == b)
    return Z(a) == Z(b)


def setup_filters(style, energy, real):
    def setup(ex, st):
        n, D, M, tr = api.sym("num_filts"), api.sym("dft_size"), api.sym("max_support"), api.sym("translation")
        st.assume(z3.And(n >= 1, D >= 1, M >= 1, M <= D, tr >= 0, tr < D))
        api.mk_obj(st, "self", CLS, {"_dft_size": D, "_max_support": M, "_translation": tr, "_real": real})
        api.mk_obj(st, "bank", "Bank", {"num_filts": n, "supports": symex.SeqVal(n, lambda i: (LEFT(Z(i)), RIGHT(Z(i))))})
        st.env.update(frame_style=style, include_energy=energy)
        st.ghost.update(appended=0)
        ex.ctx = dict(n=n, D=D, M=M, tr=tr, style=style, energy=energy, real=real)
    return setup


def contract_filters(style, energy, real):
    def h_zeros(ex, st, args, kwargs, node, ev):
        return _TermVec(("zeros", simp(Z(args[0]))))

    def h_fft(kind):
        def h(ex, st, args, kwargs, node, ev):
            if len(args) != 1 or kwargs or not isinstance(args[0], _TermVec):
                raise Outside("fft form")
            return _TermVec((kind, args[0].term))
        return h

    def h_ir(ex, st, o, args, kwargs, node, ev):
        if len(args) != 2 or kwargs:
            raise Outside("get_impulse_response form")
        return _TermVec(("ir", simp(Z(args[0])), simp(Z(args[1]))))

    def h_roll(ex, st, args, kwargs, node, ev):
        if len(args) != 2 or kwargs or not isinstance(args[0], _TermVec):
            raise Outside("np.roll form")
        return _TermVec(("roll", args[0].term, simp(Z(args[1]))))

    def h_cdft(ex, st, o, args, kwargs, node, ev):
        if len(args) != 1 or kwargs or not isinstance(args[0], _TermVec):
            raise Outside("_compute_dft form")
        return _TermVec(("dft", args[0].term))

    def h_append(ex, st, lst, v, node):
        c = ex.ctx
        lbl = f"L{node.lineno - ex.fx.lineno}"
        k = Z(st.ghost["appended"])
        if not isinstance(v, _TermVec):
            ex.oblige(st, False, f"appended_value_is_a_filter.{lbl}", "trace", node.lineno)
            return
        e = 1 if c["energy"] else 0
        i = k - e
        shift = c["tr"] - (LEFT(i) + RIGHT(i)) / 2 if c["style"] == "centered" else c["tr"]
        want_filter = ("dft", ("clamp", ("roll", ("ir", i, c["D"]), shift), c["M"]))
        want_energy = ("rfft" if c["real"] else "fft", ("impulse", c["D"], c["tr"]))
        if c["energy"]:
            ok = z3.If(k == 0, _tv_eq(v.term, want_energy), _tv_eq(v.term, want_filter))
        else:
            ok = _tv_eq(v.term, want_filter)
        ex.oblige(st, ok, f"appended_filter_is_the_documented_one.{lbl}", "trace", node.lineno)
        st.ghost["appended"] = simp(k + 1)

    e = 1 if energy else 0
    c = Contract(
        target=f"compute:{CLS}.__init__", uses=["A-PYSEM", "A-FFT"],
        consts={"NF": SpecFn(lambda ev: ev.ex.ctx["n"]), "np.float64": Opaque("float64", "dtype")},
        handlers={"np.zeros": h_zeros, "np.fft.rfft": h_fft("rfft"), "np.fft.fft": h_fft("fft"), "Bank.get_impulse_response": h_ir, "np.roll": h_roll,
                  f"{CLS}._compute_dft": h_cdft, "self._compute_dft": h_cdft, "list.append": h_append},
        loops={0: LoopSpec(kind="for", var="filt_idx", modifies_ghost=["appended"], types={},
                           invariant=[("one_filter_per_bank_filter_so_far", f"appended == filt_idx + {e} and 0 <= filt_idx <= NF()")])},
        ensures=[("energy_filter_first_then_one_per_bank_filter", f"appended == NF() + {e}")],
    )
    return c


FILTER_LABELS = [f"{st}|{'energy' if en else 'noenergy'}|{'real' if re_ else 'complex'}" for st in STYLES for en in (True, False) for re_ in (True, False)]


def generate_filters(prop, label):
    from contracts.registry import run_contract
    from pyvc import extract
    from pyvc.check import UnitResult
    st_, en, re_ = label.split("|")
    try:
        fx = extract.get_slice("compute", f"{CLS}.__init__", sel_filters, "filters: the frequency-domain filters incl. the energy channel's unit impulse")
    except KeyError as e:
        u = UnitResult("si_filters")
        u.outside.append((f"compute:{CLS}.__init__", str(e)))
        return u
    return run_contract(prop, fx, contract_filters(st_, en == "energy", re_ == "real"), [(label, setup_filters(st_, en == "energy", re_ == "real"))],
                        name="si_filters", fname="SI.__init__#filters")


def unit_filters(prop="C03"):
    def unit(tier, known):
        from contracts.registry import run_parallel
        jobs = [("contracts.si_stream", "generate_filters", (prop, label)) for label in FILTER_LABELS]
        return run_parallel("si_filters", jobs, to_case=to_case_c03, replay_module="rtc.c03")
    unit.__name__ = "si_filters"
    return unit

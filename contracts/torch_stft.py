"""Sidecar contract: torch.py pytorch_stft_frame_computer (property C14; also what C09's torch tool stores).

The torch implementation is verified against the SAME specification as the NumPy one (contracts/stft_frame.py,
contracts/stft_stream.py), not against the NumPy code: agreement of the two is then a corollary and a change to either side
fails its own obligation.
  frames      result rows = NF(N); row k is computed from PX[k*s : k*s+L], PX(i) = X[reflect(i - pl, N)]
              (the padded signal torch builds by cat(flip, sig, flip) equals PX - a SINGLE reflection, valid for N >= L,
              the domain of the property's value clause; for N < L//2+1 the result is empty with NF columns incl. energy)
  memory      as_strided((nf, L), (s, 1)) stays inside the padded signal
  walk        every reduction pairs tap a+k with half-spectrum bin specbin(b0 + a + k)  (same NS / specbin as C02)
  values      column j (+1 with energy) = logfloor(2^is_real * NS(j, 0, len t_j)); energy = mean square (sqrt when magnitude)
Tensors with a leading batch axis (frames) are modelled by a GENERIC frame k0 in [0, nf): every per-frame operation of the code
(norm over axis 1, rfft over axis 1, x[..., a:b]) is the same for all rows (A-TORCH).
"""
import ast

import z3

from contracts import stft_frame as SF
from contracts.stft_frame import NS, wrap
from pyvc import api, extract, symex
from pyvc.api import I, R, A, SpecFn, Z, Zb, Arr, Prod, Opaque, SeqVal, simp, to_real, Outside, REFLECT
from pyvc.symex import Contract, LoopSpec, PyCallable

TARGET = ("torch", "pytorch_stft_frame_computer")


class TRes:
    """result tensor: `rows` x `ncols`, column j of the generic frame is arr[j]"""

    def __init__(self, rows, ncols, arr):
        self.rows, self.ncols, self.arr = rows, ncols, arr

    def sym_getattr(self, name, ev, node):
        if name == "clamp_min":
            def f(ev2, args, kwargs, n):
                eps = to_real(args[0])
                j = z3.Int("cj!%d" % next(symex._fresh))
                a = self.arr
                return TRes(self.rows, self.ncols, z3.Lambda([j], z3.If(z3.Select(a, j) > eps, z3.Select(a, j), eps)))
            return PyCallable(f)
        if name == "log":
            def f(ev2, args, kwargs, n):
                j = z3.Int("cj!%d" % next(symex._fresh))
                a = self.arr
                return TRes(self.rows, self.ncols, z3.Lambda([j], api.LN(z3.Select(a, j))))
            return PyCallable(f)
        if name == "shape":
            return (self.rows, self.ncols)
        raise Outside(f"tensor attribute .{name}")


class SymList:
    """Python list of per-frame column values with a symbolic length (the list `y`)"""

    def __init__(self, n, arr):
        self.n, self.arr = n, arr

    def sym_getattr(self, name, ev, node):
        if name == "append":
            def f(ev2, args, kwargs, n):
                new = SymList(simp(Z(self.n) + 1), z3.Store(self.arr, Z(self.n), to_real(args[0])))
                hit = False
                for k2, v2 in list(ev2.st.env.items()):
                    if v2 is self:
                        ev2.st.env[k2] = new
                        hit = True
                if not hit:
                    raise Outside("append to a list that is not a local")
                return None
            return PyCallable(f)
        raise Outside(f"list attribute .{name}")

    def sym_getitem(self, sl, ev, node):
        return z3.Select(self.arr, Z(ev.eval(sl)))


class SegNorm:
    def __init__(self, prod):
        self.prod = prod

    def sym_getattr(self, name, ev, node):
        if name == "square":
            return PyCallable(lambda ev2, args, kwargs, n: _reduce(ev2, self.prod, n, power=True))
        raise Outside(f"norm attribute .{name}")


class SegAbs:
    def __init__(self, prod):
        self.prod = prod

    def sym_getattr(self, name, ev, node):
        if name == "sum":
            return PyCallable(lambda ev2, args, kwargs, n: _reduce(ev2, self.prod, n, power=False))
        raise Outside(f"abs attribute .{name}")


def _reduce(ev, p, node, power):
    """sum |seg * filt|^p over the last axis: NS(filter, a, a+n) provided the pairing is the specified one, and the
    exponent is the one the flag selects"""
    ex, st = ev.ex, ev.st
    if not isinstance(p, Prod) or len(p.factors) != 2:
        raise Outside("reduction operand")
    hs = [f for f in p.factors if f.root == st.ghost.get("half_root")]
    ft = [f for f in p.factors if isinstance(f.root, tuple) and f.root[0] == "filt"]
    if len(hs) != 1 or len(ft) != 1:
        raise Outside("reduction operand is not spect_slice * filter_slice")
    hs, ft = hs[0], ft[0]
    if ft.step != 1 or ft.conj:
        raise Outside("filter slice reversed/conjugated")
    D, b0 = ex.ctx["D"], ex.ctx["b0"]
    h = D / 2 + 1
    fi, a, n = ft.root[1], Z(ft.off), Z(p.n)
    k = z3.Int("k!%d" % next(symex._fresh))
    bin_ = wrap(None, b0(Z(fi)) + a + k, D)
    want_idx, want_conj = z3.If(bin_ < h, bin_, D - bin_), bin_ >= h
    got_idx = Z(hs.off) + hs.step * k
    lbl = f"L{node.lineno - ex.fx.lineno}"
    ex.oblige(st, z3.ForAll([k], z3.Implies(z3.And(k >= 0, k < n), z3.And(got_idx == want_idx, want_conj == z3.BoolVal(hs.conj)))),
              f"touches_specbin.{lbl}", "spec", node.lineno)
    ex.oblige(st, z3.ForAll([k], z3.Implies(z3.And(k >= 0, k < n), z3.And(got_idx >= 0, got_idx < h))), f"touches_in_half.{lbl}", "spec", node.lineno)
    ex.oblige(st, Zb(st.env["use_power"]) == z3.BoolVal(power), f"exponent_matches_flag.{lbl}", "spec", node.lineno)
    if not getattr(ex, "_canary_done", False) and hs.conj:
        ex._canary_done = True
        ex.canary(st, z3.ForAll([k], z3.Implies(z3.And(k >= 0, k < n), got_idx == want_idx + 1)), "touches_specbin_shifted", node.lineno)
    ex.assumption_ids.update(["A-FFT", "A-TORCH"])
    return NS(Z(fi), a, a + n)


def setup(mode):
    def _setup(ex, st):
        L, s, D, N, nf = (api.sym(x) for x in ("L", "s", "D", "N", "nfilt"))
        st.assume(z3.And(L >= 1, s >= 1, s <= L, D >= L, N >= 0, nf >= 0))
        st.assume(z3.Or(N >= L, N < L / 2 + 1))  # the property's domain (value clause: N >= L; empty clause: N < L//2+1)
        ex.positive = {str(s)}
        centered = mode != "causal"
        kaldi = api.sym("kaldi", "bool") if mode == "causal" else (mode == "kaldi")
        X = z3.Array("X", I, R)
        sig = api.mk_array(st, "sig", N, owner="param:sig", content=X)
        window = api.mk_array(st, "window", L, owner="param:window")
        b0, tlen = api.uf("b0", I, I), api.uf("tlen", I, I)
        i = z3.Int("fi")
        is_real = api.sym("is_real", "bool")
        fact = z3.And(b0(i) >= 0, b0(i) < D, tlen(i) >= 0, tlen(i) <= D, z3.Implies(is_real, b0(i) + tlen(i) <= D / 2 + 1))
        st.assume(z3.ForAll([i], z3.Implies(z3.And(i >= 0, i < nf), fact), patterns=[b0(i)]))
        st.assume(z3.ForAll([i], z3.Implies(z3.And(i >= 0, i < nf), fact), patterns=[tlen(i)]))
        eps = _default_eps(ex)
        st.env.update({
            "sig": sig, "filters": SeqVal(nf, lambda j: Arr(("filt", simp(Z(j))), 0, 1, tlen(Z(j)))), "offsets": SeqVal(nf, lambda j: b0(Z(j))),
            "frame_length": L, "frame_shift": s, "centered": centered, "window": window, "dft_size": D,
            "use_log": api.sym("use_log", "bool"), "use_power": api.sym("use_power", "bool"), "include_energy": api.sym("include_energy", "bool"),
            "kaldi_shift": kaldi, "is_real": is_real, "eps": eps,
        })
        if mode == "causal":
            pl = z3.IntVal(0)
        elif mode == "kaldi":
            pl = L / 2 - s / 2
        else:
            pl = (L + 1) / 2 - 1
        st.ghost.update(X=X, T=N, N=N, nfilt=nf)
        ex.ctx = dict(L=L, s=s, D=D, N=N, nf=nf, b0=b0, tlen=tlen, pl=pl, mode=mode)
        for ax in SF.ns_axioms() + api.reflect_axioms():
            ex.axioms.append(ax)
    return _setup


def _default_eps(ex):
    a = ex.fx.node.args
    names = [x.arg for x in a.args]
    d = dict(zip(names[len(names) - len(a.defaults):], a.defaults))
    if "eps" not in d or ast.unparse(d["eps"]) != "config.LOG_FLOOR_VALUE":
        raise Outside("default of `eps` is not config.LOG_FLOOR_VALUE")
    return symex._frac(extract.module_constants("config")["LOG_FLOOR_VALUE"])


# ---- handlers ------------------------------------------------------------------------------------

def h_size(ex, st, o, args, kwargs, node, ev):
    return o.n


def h_new_empty(ex, st, o, args, kwargs, node, ev):
    r, c = args[0]
    return TRes(r, c, z3.K(I, z3.RealVal(0)))


def h_new_zeros(ex, st, o, args, kwargs, node, ev):
    return 0


def h_flip(ex, st, o, args, kwargs, node, ev):
    return Arr(o.root, simp(Z(o.off) + o.step * (Z(o.n) - 1)), -o.step, o.n, o.conj)


def h_cat(ex, st, args, kwargs, node, ev):
    ex.assumption_ids.add("A-TORCH")
    return symex.LIB["np.concatenate"](ex, st, args, kwargs, node, ev)


def h_as_strided(ex, st, o, args, kwargs, node, ev):
    (rows, cols), (rs, cs) = args[0], args[1]
    if simp(cs) != 1:
        raise Outside("as_strided column stride")
    lbl = f"L{node.lineno - ex.fx.lineno}"
    L, s = ex.ctx["L"], ex.ctx["s"]
    ex.oblige(st, z3.Or(Z(rows) == 0, (Z(rows) - 1) * Z(rs) + Z(cols) <= Z(o.n)), f"as_strided_in_bounds.{lbl}", "wd", node.lineno)
    ex.oblige(st, z3.And(Z(cols) == L, Z(rs) == s), f"as_strided_frame_geometry.{lbl}", "spec", node.lineno)
    k, i = z3.Int("fk!%d" % next(symex._fresh)), z3.Int("fi!%d" % next(symex._fresh))
    sev = symex.Evaluator(ex, st, spec_mode=True, old=ex.entry)
    X, pl, N = st.ghost["X"], ex.ctx["pl"], ex.ctx["N"]
    want = z3.Select(X, REFLECT(k * s + i - pl, N))
    got = st.select(o, k * Z(rs) + i)
    ex.oblige(st, z3.ForAll([k, i], z3.Implies(z3.And(k >= 0, k < Z(rows), i >= 0, i < L), got == want)), f"frames_are_spec_frames.{lbl}", "spec", node.lineno)
    st.ghost["rows"] = rows
    k0 = z3.Int("k0")
    st.assume(z3.And(k0 >= 0, k0 < Z(rows)))
    st.ghost["frame_root"] = o.root
    fr = Arr(o.root, simp(Z(o.off) + o.step * k0 * Z(rs)), o.step, cols, o.conj)
    st.ghost["frame_off"] = fr.off
    ex.assumption_ids.add("A-TORCH")
    return fr


def _is_whole_frame(ex, st, a):
    return isinstance(a, Arr) and a.root == st.ghost.get("frame_root") and a.step == 1 and simp(Z(a.off) == Z(st.ghost["frame_off"])) is True


def h_norm(ex, st, args, kwargs, node, ev):
    x = args[0]
    if len(args) < 3 or simp(args[1]) != 2 or simp(args[2]) != 1:
        raise Outside("torch.linalg.norm arguments")
    if isinstance(x, Prod):
        return SegNorm(x)
    if isinstance(x, Arr):
        ex.oblige(st, _is_whole_frame(ex, st, x), f"energy_of_unwindowed_frame.L{node.lineno - ex.fx.lineno}", "spec", node.lineno)
        inner = api.INNER(*api.arr_args(st, x), *api.arr_args(st, x), Z(x.n))
        L = to_real(ex.ctx["L"])
        # A-MATH instances used by the energy clause
        st.assume(inner >= 0)
        st.assume(api.SQRT(inner) * api.SQRT(inner) == inner)
        st.assume(api.SQRT(L) * api.SQRT(L) == L)
        st.assume(api.SQRT(L) > 0)
        st.assume(api.SQRT(inner) / api.SQRT(L) == api.SQRT(inner / L))
        ex.assumption_ids.add("A-MATH")
        return api.SQRT(inner)
    raise Outside("torch.linalg.norm operand")


def h_rfft(ex, st, args, kwargs, node, ev):
    x, n = args[0], args[1]
    if simp(args[2]) != 1:
        raise Outside("rfft axis")
    lbl = f"L{node.lineno - ex.fx.lineno}"
    ok = isinstance(x, Prod) and len(x.factors) == 2 and any(_is_whole_frame(ex, st, f) for f in x.factors) and \
        any(f.root == "window" and f.step == 1 and simp(Z(f.off) == 0) is True for f in x.factors)
    ex.oblige(st, ok, f"rfft_operand_is_window_times_frame.{lbl}", "spec", node.lineno)
    ex.oblige(st, Z(n) == ex.ctx["D"], f"rfft_size.{lbl}", "spec", node.lineno)
    a = st.new_root(simp(Z(n) / 2 + 1), None, "complex", "fresh", "half_spect")
    st.ghost["half_root"] = a.root
    ex.assumption_ids.update(["A-FFT", "A-TORCH"])
    return a


def h_stack(ex, st, args, kwargs, node, ev):
    y = args[0]
    if not isinstance(y, SymList):
        raise Outside("torch.stack of a non-list")
    return TRes(st.ghost["rows"], y.n, y.arr)


def h_attr_any(ex, st, o, attr, node, ev):
    if isinstance(o, Prod) and attr == "abs":
        return PyCallable(lambda ev2, args, kwargs, n: SegAbs(o))
    if symex.is_z3(o) and z3.is_real(o) and attr == "square":
        return PyCallable(lambda ev2, args, kwargs, n: o * o)
    return NotImplemented


def h_sqrt(ex, st, args, kwargs, node, ev):
    return api.SQRT(to_real(args[0]))


V = "ite(is_real, 2 * NS(j, 0, TLEN(j)), NS(j, 0, TLEN(j)))"
EXPECTED = f"ite(use_log, LN(max({V}, eps)), {V})"
E0 = "ite(use_log, LN(max(ite(use_power, INNERF() / frame_length, SQRT(INNERF() / frame_length)), eps)), ite(use_power, INNERF() / frame_length, SQRT(INNERF() / frame_length)))"
E0_RAW = "ite(use_power, INNERF() / frame_length, SQRT(INNERF() / frame_length))"


def _to_symlist(st, v):
    if isinstance(v, SymList):
        return v
    if isinstance(v, list):
        arr = z3.K(I, z3.RealVal(0))
        for k, x in enumerate(v):
            arr = z3.Store(arr, k, to_real(x))
        return SymList(len(v), arr)
    raise Outside("list expected")


def _fresh_symlist(st, v):
    return SymList(symex.fresh("ylen"), symex.fresh("yarr", "arr"))


def _innerf(ev):
    st = ev.st
    if "frame_root" not in st.ghost:
        return z3.Real("no_frames")  # early-return path: the clauses that mention it are guarded by NF() > 0
    root, off, L = st.ghost["frame_root"], st.ghost["frame_off"], ev.ex.ctx["L"]
    c = st.heap[root].content
    return api.INNER(c, Z(off), z3.IntVal(1), c, Z(off), z3.IntVal(1), Z(L))


def contract():
    consts = {
        "NS": SpecFn(lambda ev, i, a, b: NS(Z(i), Z(a), Z(b))), "TLEN": SpecFn(lambda ev, i: ev.ex.ctx["tlen"](Z(i))),
        "B0": SpecFn(lambda ev, i: ev.ex.ctx["b0"](Z(i))), "WRAP": SpecFn(wrap),
        "LN": SpecFn(lambda ev, x: api.LN(to_real(x))), "SQRT": SpecFn(lambda ev, x: api.SQRT(to_real(x))), "INNERF": SpecFn(_innerf),
        "COL": SpecFn(lambda ev, r, j: z3.Select(r.arr, Z(j))), "LISTLEN": SpecFn(lambda ev, y: Z(y.n) if isinstance(y, SymList) else len(y)),
        "NF": SpecFn(lambda ev: z3.If(ev.ex.ctx["N"] >= ev.ex.ctx["L"] / 2 + 1, (ev.ex.ctx["N"] + ev.ex.ctx["s"] / 2) / ev.ex.ctx["s"], 0)),
        "NFILT": SpecFn(lambda ev: ev.ex.ctx["nf"]), "DFT": SpecFn(lambda ev: ev.ex.ctx["D"]),
        "OFFS": SpecFn(lambda ev, a: Z(a.off)), "SAME_ROOT": SpecFn(lambda ev, a: a.root == "sig" and a.step == 1),
    }
    c = Contract(
        target="torch:pytorch_stft_frame_computer",
        uses=["A-REAL", "A-PYSEM", "A-FFT", "A-TORCH", "A-NP-PAD"],
        consts=consts,
        handlers={
            "arr.size": h_size, "arr.new_empty": h_new_empty, "arr.new_zeros": h_new_zeros, "arr.flip": h_flip, "arr.as_strided": h_as_strided,
            "torch.cat": h_cat, "torch.linalg.norm": h_norm, "torch.fft.rfft": h_rfft, "torch.stack": h_stack, "math.sqrt": h_sqrt,
            "attr_any": h_attr_any,
        },
        loops={
            # the repeated-reflection loop (a pad longer than the signal) is never entered in this contract's domain (N >= L, where both
            # pads are at most N): the invariant says nothing has happened yet, which makes the body unreachable from the loop head
            0: LoopSpec(kind="while", invariant=[
                ("signal_untouched", "OFFS(sig) == 0 and len(sig) == N and SAME_ROOT(sig)"),
                ("pads_untouched", "pad_left == ite(not centered, 0, ite(kaldi_shift, frame_length // 2 - frame_shift // 2, (frame_length + 1) // 2 - 1)) "
                                   "and pad_right == max(0, total_len - sig_len) and sig_len == N"),
                ("pads_fit", "pad_left <= N and pad_right <= N"),
            ]),
            1: LoopSpec(kind="for", types={"y": _fresh_symlist, "val": "real"}, convert={"y": _to_symlist}, invariant=[
                ("range", "0 <= __zi <= NFILT()"),
                ("half_len", "half_len == DFT() // 2 + 1 and mod == DFT() % 2"),
                ("ylen", "LISTLEN(y) == __zi + ite(include_energy, 1, 0)"),
                ("done", f"forall(j, 0, __zi, y[j + ite(include_energy, 1, 0)] == {V})"),
                ("energy_kept", f"implies(include_energy, y[0] == {E0_RAW})"),
            ]),
            2: LoopSpec(kind="while", types={"val": "real"}, invariant=[
                ("consumed_range", "0 <= consumed <= filt_len"),
                ("start_nonneg", "si >= 0"),
                ("walk_bound", "ite(conj, half_len + si <= DFT(), si < DFT())"),
                ("walk_pos", "implies(consumed < filt_len, WRAP(ite(conj, half_len + si, si), DFT()) == WRAP(B0(__zi) + consumed, DFT()))"),
                ("val", "val == ite(is_real, 2 * NS(__zi, 0, consumed), NS(__zi, 0, consumed))"),
            ]),
        },
        ensures=[
            ("frame_count", "result.shape[0] == NF()"),
            ("columns", "result.shape[1] == NFILT() + ite(include_energy, 1, 0)"),
            ("filters", f"implies(NF() > 0, forall(j, 0, NFILT(), COL(result, j + ite(include_energy, 1, 0)) == {EXPECTED}))"),
            ("energy", f"implies(NF() > 0 and include_energy, COL(result, 0) == {E0})"),
        ],
    )
    c.batched_last_axis = True
    c.no_param_writes = True
    c.canaries = [("frame_count_plus_one", "result.shape[0] == NF() + 1")]
    return c


def to_case(ob):
    """solver model -> C14 stand-in cases (torch module vs compute_full on the real code): the model's frame length, shift and
    framing mode with complex banks, padded and unpadded, several signal lengths >= L; plus odd/even neighbours"""
    from pyvc.solve import model_int
    mode = None
    for m in ("causal", "centered", "kaldi"):
        if ob.id.endswith(f"[{m}]"):
            mode = m
    L, s = model_int(ob.model, "L"), model_int(ob.model, "s")
    if L is None or s is None or not (1 <= s <= L):
        L, s = 33, 12
    L, s = max(8, min(L, 130)), max(1, min(s, 130))
    s = min(s, L)
    out = []
    banks = [{"kind": "gabor", "scale": "mel", "num_filts": 5, "low_hz": 0.0}, {"kind": "gammatone", "scale": "mel", "num_filts": 4}]
    modes = [mode] if mode else ["causal", "centered", "kaldi"]
    for (l2, s2) in [(L, s), (L + 1, s), (L, max(1, s - 1)), (L + 1, min(L + 1, s + 1)), (33, 12), (40, 15), (41, 15)]:
        for md in modes:
            for bank in banks:
                for pad in (True, False):
                    for N in (l2, l2 + 1, 3 * l2 + 7):
                        out.append({"check": "stft", "bank": bank, "frame_length": l2, "frame_shift": min(s2, l2), "pad": pad,
                                    "frame_style": "causal" if md == "causal" else "centered", "kaldi_shift": md == "kaldi", "window": None,
                                    "use_log": False, "use_power": False, "include_energy": True, "precision": "f64", "N": N, "amp": 1.0,
                                    "seed": 0, "script": False})
    return out

import numpy as np, warnings, itertools, json
warnings.simplefilter("ignore")
from pydrobert.speech import filters as F, scales, post, pre, util, config, alias, compute
rng=np.random.default_rng(0)
# ---- C08: registry enumeration
def all_sub(c):
    out=[]
    for k in c.__subclasses__(): out+= [k]+all_sub(k)
    return out
bad=[]
for fam in (scales.ScalingFunction,F.LinearFilterBank,F.WindowFunction,compute.FrameComputer,pre.PreProcessor,post.PostProcessor):
    subs=all_sub(fam)
    for k in subs:
        for a in k.__dict__.get('aliases',set()):
            # resolve class without constructing: mimic by catching TypeError
            try: obj=fam.from_alias(a); got=type(obj)
            except TypeError as e: got='needs-args'
            except ValueError as e: got='VE'
            if got not in (k,'needs-args'): bad.append((fam.__name__,a,k.__name__,got))
    try: fam.from_alias("no-such-alias"); bad.append((fam.__name__,'unknown accepted'))
    except ValueError: pass
print("C08 registry mismatches:",bad)
d={"name":"mel","alias":"bark"}; r=alias.alias_factory_subclass_from_arg(scales.ScalingFunction,{"alias":"bark"}); print("C08 alias ok",type(r).__name__, d)
# ---- C15 Stack 2D vs ND and oracle
def stack_oracle(x,V,ta,fa,pad):
    x=np.moveaxis(x,(ta,fa),(0,-1))  # time first, feat last
    T=x.shape[0]
    if pad is not None and T%V:
        pw=[(0,V-T%V)]+[(0,0)]*(x.ndim-1); x=np.pad(x,pw,pad)
        T=x.shape[0]
    nT=T//V
    out=np.stack([np.concatenate([x[t*V+v] for v in range(V)],axis=-1) for t in range(nT)],0) if nT else np.empty((0,)+x.shape[1:-1]+(x.shape[-1]*V,),x.dtype)
    return np.moveaxis(out,(0,-1),(ta,fa))
errs=[]
for shape in [(5,3),(4,2),(1,3),(7,1),(2,3,4),(5,1,2),(3,4,2,2)]:
    x=rng.standard_normal(shape)
    nd=len(shape)
    for ta,fa in itertools.permutations(range(nd),2):
        for V in (1,2,3,6):
            for pad in (None,"edge","constant"):
                for neg in (False,True):
                    st=post.Stack(V,time_axis=ta-nd if neg else ta,pad_mode=pad)
                    x0=x.copy()
                    try: got=st.apply(x,axis=fa-nd if neg else fa)
                    except Exception as e: errs.append((shape,ta,fa,V,pad,type(e).__name__)); continue
                    exp=stack_oracle(x0,V,ta,fa,pad)
                    if got.shape!=exp.shape or not np.array_equal(got,exp): errs.append((shape,ta,fa,V,pad,'value',got.shape,exp.shape))
                    if not np.array_equal(x,x0): errs.append((shape,'mutated'))
print("C15 stack errs:",len(errs),errs[:5])
# ---- C15 Deltas oracle
def delta_oracle(x,nd,W,axis,target,concat,mode):
    x64=np.moveaxis(x.astype(np.float64),axis,-1)
    f=np.arange(-W,W+1,dtype=float); f/= (f**2).sum()
    filts=[np.ones(1)]
    for _ in range(nd): filts.append(np.convolve(filts[-1],f))
    outs=[x]
    for flt in filts[1:]:
        m=(len(flt)-1)//2
        p=np.pad(x64,[(0,0)]*(x64.ndim-1)+[(m,m)],mode)
        o=np.zeros_like(x64)
        for t in range(x64.shape[-1]):
            o[...,t]=(p[...,t:t+len(flt)]*flt).sum(-1)
        outs.append(np.moveaxis(o,-1,axis).astype(x.dtype))
    return np.concatenate(outs,target) if concat else np.stack(outs,target)
errs=[]
for shape in [(6,),(5,3),(1,4),(3,1,4),(2,3,2,2)]:
    for dt in (np.float64,np.float32):
        x=rng.standard_normal(shape).astype(dt); nd_=len(shape)
        for axis in range(-nd_,nd_):
            for ndl in (0,1,2):
                for W in (1,2):
                    for concat in (True,False):
                        for target in range(-nd_,nd_+(0 if concat else 1)):
                            x0=x.copy()
                            got=post.Deltas(ndl,target_axis=target,concatenate=concat,context_window=W).apply(x,axis=axis)
                            exp=delta_oracle(x0,ndl,W,axis,target,concat,"edge")
                            if got.shape!=exp.shape or got.dtype!=x.dtype or not np.allclose(got,exp,rtol=1e-5,atol=1e-6): errs.append((shape,dt.__name__,axis,ndl,W,concat,target))
                            if not np.array_equal(x,x0): errs.append('mut')
print("C15 deltas errs:",len(errs),errs[:5])
# ---- C16
errs=[]
for trial in range(30):
    n=rng.integers(2,6); X=rng.standard_normal((rng.integers(2,9),n))*rng.uniform(.1,10)+rng.uniform(-20,20)
    a=post.Standardize(); a.accumulate(X,axis=1)
    b=post.Standardize(); perm=rng.permutation(len(X))
    for i in perm: b.accumulate(X[i])
    c=post.Standardize(); k=rng.integers(1,len(X)); c.accumulate(X[:k].T,axis=0); 
    for row in X[k:]: c.accumulate(row)
    ref=(X-X.mean(0))/X.std(0)
    for s_ in (a,b,c):
        o=s_.apply(X,axis=1)
        if o.dtype!=np.float64 or not np.allclose(o,ref,rtol=1e-7,atol=1e-7): errs.append((trial,float(np.abs(o-ref).max())))
    o=post.Standardize().apply(X,axis=1)
    if not np.allclose(o,ref,rtol=1e-7,atol=1e-7): errs.append((trial,'local'))
print("C16 errs:",len(errs),errs[:5])
# ---- C18
errs=[]
for n in (0,1,2,5,100):
    for dt in (np.float64,np.float32,np.int16,np.int32):
        x=(rng.standard_normal(n)*100).astype(dt); x0=x.copy()
        for ip in (False,True):
            x=x0.copy(); x.setflags(write=ip or True)
            y=pre.Preemphasize(0.9).apply(x,in_place=ip)
            exp=x0.astype(np.float64).copy()
            if n>1: exp[1:]=x0[1:].astype(np.float64)-0.9*x0[:-1].astype(np.float64)
            exp=exp.astype(dt)
            if y.dtype!=dt or not np.array_equal(y,exp): errs.append((n,dt.__name__,ip,'val'))
            if not ip and not np.array_equal(x,x0): errs.append((n,dt.__name__,'mutated'))
        np.random.seed(3); a=pre.Dither(2.0).apply(x0); np.random.seed(3); b=pre.Dither(1.0).apply(x0)
        if dt in (np.float64,) and n and not np.allclose((a-x0),2*(b-x0)): errs.append((n,'dither lin'))
        if not np.array_equal(pre.Dither(0.0).apply(x0),x0): errs.append((n,dt.__name__,'dither0'))
print("C18 errs:",len(errs),errs[:5])

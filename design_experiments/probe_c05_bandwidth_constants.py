import numpy as np, warnings
warnings.simplefilter("ignore")
from pydrobert.speech import filters as F, scales
from pydrobert.speech.util import hertz_to_angular as h2a
rate=16000; n=8; sc=scales.MelScaling()
lo,hi=20.,rate//2
sl,sh=sc.hertz_to_scale(lo),sc.hertz_to_scale(hi); d=(sh-sl)/(n+1)
edges=[sc.scale_to_hertz(sl+d*(i+.5)) for i in range(n+1)]
W=200000  # fine grid over one period for numeric integrals
om=np.linspace(-np.pi,np.pi,W,endpoint=False); dw=2*np.pi/W
for name,mk in [("gabor",lambda **k:F.GaborFilterBank("mel",num_filts=n,sampling_rate=rate,**k)),
                ("gamma",lambda **k:F.ComplexGammatoneFilterBank("mel",num_filts=n,sampling_rate=rate,**k))]:
    for erb in (False,True):
        b=mk(erb=erb)
        out=[]
        for i in range(2,n-1):   # interior, narrow filters (support << rate/2)
            l,r=edges[i],edges[i+1]; c=b.centers_hz[i]
            if name=="gabor":
                std=b._stds[i]; H=lambda w: np.exp(-(std**2)/2*(h2a(c,rate)-w)**2)
            else:
                H=lambda w: np.abs(b._H(w,i))
            peak=H(h2a(c,rate)); edge_gain=H(h2a(r,rate))/peak
            erb_num=np.sum(H(om)**2)*dw/peak**2
            out.append((round(float(peak),6), round(float(20*np.log10(edge_gain)),3), round(float(erb_num/h2a(r-l,rate)),4)))
        print(name,'erb' if erb else '3dB', '(peak, edge gain dB, ERB/edge-spacing):', out[:3])

# C13 feasibility: unary-run loop of uvar_get (_sphere.py:161-172) with a ghost bit stream, BV32 words.
from z3 import *
import time
W=BitVecSort(32)
beta=Function('beta',IntSort(),BitVecSort(1))     # ghost bit stream
word=Function('word',IntSort(),W)                 # word k of the stream (big-endian bits beta[32k..32k+31])
i=Int('i'); k=Int('k')
# link words to bits: bit (31-j) of word k is beta(32k+j)
jb=Int('jb')
def bit(g,nbv):  # bit number nbv (Int 0..31) of BV32 g  -> as BV1
    return Extract(0,0, LShR(g, Int2BV(nbv,32)))
link=ForAll([k,jb], Implies(And(jb>=0,jb<32), bit(word(k),31-jb)==beta(32*k+jb)))
g=BitVec('g',32); nb,p,wk,res,p0=Ints('nb p wk res p0')   # gbuffer, nbitget, cursor, next word index, result, start cursor
def R(g,nb,p,wk): # representation: low nb bits of g are beta[p..p+nb), next word index wk with 32*wk == p+nb
    return And(nb>=0,nb<=32, 32*wk==p+nb, ForAll([i],Implies(And(i>=0,i<nb), bit(g,nb-1-i)==beta(p+i))))
inv=And(R(g,nb,p,wk), nb>=1, res>=0, p==p0+res, ForAll([i],Implies(And(i>=0,i<res), beta(p0+i)==0)))
# one iteration: nb-=1; if bit set: break ; if nb==0: g=word(wk); nb=32; wk+=1 ; res+=1
nb1=nb-1
hit = bit(g,nb1)==1
# exit branch: post: beta(p)==1, zeros before, cursor after the 1-bit is p+1 with R(g,nb1,p+1,wk)
def check(name,hyps,goal,to=120000):
    sol=Solver(); sol.set(timeout=to); sol.add(*hyps); sol.add(Not(goal)); t=time.time(); r=sol.check(); print(f'{name:40s} {r} {time.time()-t:.2f}s')
check('exit: found the 1-bit, R re-established', [link,inv,hit], And(beta(p)==1, R(g,nb1,p+1,wk)))
g2=If(nb1==0, word(wk), g); nb2=If(nb1==0,32,nb1); wk2=If(nb1==0,wk+1,wk)
inv2=substitute(inv,(g,g2),(nb,nb2),(p,p+1),(wk,wk2),(res,res+1))
check('continue: invariant preserved', [link,inv,Not(hit)], inv2)

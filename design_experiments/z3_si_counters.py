# SI computer: counter invariant step + total frame count (DESIGN C01/C03), symbolic s, M, D, N
from z3 import *
import time
_n=[0]; side=[]
def fdiv(a,b):
    _n[0]+=1; q,r=Ints(f'q{_n[0]} r{_n[0]}'); side.append(And(a==q*b+r,r>=0,r<b)); return q
def mx(a,b): return If(a>b,a,b)
def mn(a,b): return If(a<b,a,b)
def check(name,hyps,goal,show=('s','M','D','N','tr','xr','yr','c')):
    pre=Solver(); pre.add(*hyps)
    if pre.check()!=sat: print(f'  {name:58s} EMPTY-CASE'); return
    sol=Solver(); sol.set(timeout=120000); sol.add(*hyps); sol.add(Not(goal)); t=time.time(); r=sol.check()
    msg=''
    if r==sat: m=sol.model(); msg={str(d):m[d] for d in m.decls() if str(d) in show}
    print(f'  {name:58s} {str(r):7s} {time.time()-t:5.2f}s {msg}')
s,M,D,xr,yr,c=Ints('s M D xr yr c')
v=D-M+1
geom=[s>=1,M>=1,D>=M+s-1]
# ---- chunk step (post-skip chunk length c)
side.clear()
num_raw=xr+c
nd0=fdiv(num_raw,v)
nfr=mx(0,fdiv(num_raw+yr,s)-1)
nproc=If(nfr>0,(nfr+1)*s,yr)
nd=If(nproc-yr>nd0*v, nd0+1, nd0)
Y=mn(nd*v,num_raw)                     # total y produced this call
Fr=mx(0,fdiv(yr+Y,s)-1)               # greedy frame emission
xr2=mx(0,num_raw-nd*v); yr2=yr+Y-Fr*s
inv=[xr>=0,xr<=v,yr>=0,yr<2*s,c>=0]
check('assert cur_frame == num_frames', geom+inv+side, Fr==nfr)
check('invariant preserved (xr2<=v, 0<=yr2<2s)', geom+inv+side, And(xr2>=0,xr2<=v,yr2>=0,yr2<2*s))
check('conservation xr2+yr2 == xr+yr+c-F*s', geom+inv+side, xr2+yr2==xr+yr+c-nfr*s)
d=Int('d')
check('assert end_idx>=0 for every dft', geom+inv+side+[d>=0,d<nd], mn((d+1)*v-xr,c)>=0)
check('y_keep in [0,v] for every dft', geom+inv+side+[d>=0,d<nd], And(mn((d+1)*v-xr,c)-d*v+xr>=0, mn((d+1)*v-xr,c)-d*v+xr<=v))
# ---- whole utterance count
N,tr=Ints('N tr')
for style in ('causal','centered'):
    print(style)
    for hypname,hyp in [('none',BoolVal(True)),('s < M-tr',s<M-tr),('s <= M-tr',s<=M-tr),('s < tr',s<tr),('s <= tr',s<=tr)]:
        side.clear()
        if style=='centered':
            trdef=[tr==M/2]; skip0=mx(tr-s,0); xr0=mx(s-tr,0); borrowed=s
        else:
            trdef=[tr>=0,tr<M]; skip0=tr; xr0=IntVal(0); borrowed=IntVal(0)
        skip=mx(0,skip0-N); U=mx(0,N-skip0)
        F=mx(0,fdiv(xr0+U,s)-1)
        pend=xr0+U-F*s                       # xr+yr
        buf=tr-skip+pend-borrowed
        nf=mx(0,fdiv(buf+s/2,s))
        pad=(nf-1)*s+(M+s-1)-buf
        cons=mn(skip,pad); c2=pad-cons
        fr2=mx(0,fdiv(pend+c2,s)-1)
        total=F+If(nf>=1,mn(nf,fr2),0)
        full=fdiv(N+s/2,s)
        check(f'hyp {hypname:10s}: pad>=0 when nf>=1', geom+trdef+[N>=0,hyp]+side+[nf>=1], pad>=0)
        check(f'hyp {hypname:10s}: total == (N+s//2)//s', geom+trdef+[N>=0,hyp]+side, total==full)

import numpy as np, warnings
warnings.simplefilter("ignore")
from pydrobert.speech.compute import STFTFrameComputer
from pydrobert.speech.filters import Fbank
rng=np.random.default_rng(0)
bank=Fbank(num_filts=3,sampling_rate=8000)
def mk(L,s,style,ks): 
    c=STFTFrameComputer(bank,frame_length_ms=(L+0.5)/8,frame_shift_ms=(s+0.5)/8,frame_style=style,kaldi_shift=ks,use_log=False,include_energy=True)
    assert (c.frame_length,c.frame_shift)==(L,s),(c.frame_length,c.frame_shift); return c
def cmp(c,N,sizes=None):
    x=rng.standard_normal(N)
    f=c.compute_full(x)
    g=np.concatenate([c.compute_chunk(x),c.finalize()])
    return f.shape,g.shape, (float(np.abs(f-g).max()) if f.shape==g.shape and f.size else None)
for (L,s,N,style,ks) in [(3,2,3,"centered",True),(2,1,1,"centered",True),(3,2,3,"causal",False),(12,12,6,"centered",False)]:
    print((L,s,N,style,ks), cmp(mk(L,s,style,ks),N))
# search realistic kaldi config
c=mk(200,80,"centered",True); bad=[]
for N in range(0,1500):
    a,b,d=cmp(c,N)
    if a!=b or (d is not None and d>1e-9): bad.append((N,a[0],b[0],d))
print(len(bad), bad[:3], bad[-3:])
c=mk(201,80,"centered",True); bad=[]
for N in range(0,1500):
    a,b,d=cmp(c,N)
    if a!=b or (d is not None and d>1e-9): bad.append((N,a[0],b[0],d))
print(len(bad), bad[:3], bad[-3:])

import numpy as np, warnings, io, traceback
warnings.simplefilter("ignore")
from pydrobert.speech.compute import STFTFrameComputer, SIFrameComputer
from pydrobert.speech.filters import *
from pydrobert.speech.filters import Fbank
from pydrobert.speech import util, config
rng=np.random.default_rng(0)
def oracle_stft(c,x):
    # independent full-spectrum oracle for centered non-kaldi / causal
    L,s,D=c.frame_length,c.frame_shift,c._dft_size
    N=len(x)
    if N<L//2+1: return np.empty((0,c.num_coeffs))
    if c.frame_style=="causal": pl=0
    elif c.kaldi_shift: pl=L//2-s//2
    else: pl=(L+1)//2-1
    nf=(N+s//2)//s
    tot=(nf-1)*s-pl+L
    pr=max(0,tot-N)
    xp=np.pad(x,(pl,pr),"symmetric")
    out=np.zeros((nf,c.bank.num_filts))
    for k in range(nf):
        fr=xp[k*s:k*s+L]
        X=np.fft.fft(fr*c._window,n=D)
        for i in range(c.bank.num_filts):
            b,tr=c.bank.get_truncated_response(i,D)
            H=np.zeros(D,dtype=complex)
            if c.bank.is_real:
                H[b:b+len(tr)]=tr
                H[D-b-len(tr)+1:D-b+1]=tr[:None if b else 0:-1].conj()
            else:
                wrap=min(b+len(tr),D)-b
                H[b:b+wrap]=tr[:wrap]; H[:len(tr)-wrap]=tr[wrap:]
            v=np.sum(np.abs(X*H)**(2 if c._power else 1))
            out[k,i]=np.log(max(v,config.LOG_FLOOR_VALUE)) if c._log else v
    return out
for name,bank in [("fbank",Fbank(num_filts=6,sampling_rate=8000)),
                  ("gabor",GaborFilterBank("mel",num_filts=6,sampling_rate=8000,low_hz=0)),
                  ("gabor20",GaborFilterBank("mel",num_filts=6,sampling_rate=8000)),
                  ("gamma",ComplexGammatoneFilterBank("mel",num_filts=6,sampling_rate=8000,low_hz=0)),
                  ("tri-an",TriangularOverlappingFilterBank("mel",num_filts=6,sampling_rate=8000,analytic=True))]:
  for pad2 in (True,False):
    for fl in (25,25.125):
      c=STFTFrameComputer(bank,frame_length_ms=fl,pad_to_nearest_power_of_two=pad2,use_log=False,use_power=True)
      x=rng.standard_normal(1000)
      a=c.compute_full(x); b=oracle_stft(c,x)
      print(name,pad2,c.frame_length,c._dft_size,c.frame_style, "maxrel",float(np.max(np.abs(a-b)/np.abs(b))))

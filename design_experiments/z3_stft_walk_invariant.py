# Feasibility: inductive invariant for the STFT half-spectrum walk (compute.py:416-455), index level
from z3 import *
import time
def run(parity_expr_name):
    D,h,s0,TL = Ints('D h s0 TL')
    start,consumed = Ints('start consumed'); conj=Bool('conj')
    j=Int('j')
    pre=And(D>=2, h==D/2+1, s0>=0, s0<D, TL>=1, TL<=D)
    m = (h%2) if parity_expr_name=='code' else (D%2)
    cc = h-2+m
    def specbin(jj):
        b=If(s0+jj<D, s0+jj, s0+jj-D)
        return If(b<h, b, D-b), b>=h
    # invariant at loop head
    v = If(conj, h+start, start)
    inv=And(consumed>=0, consumed<=TL, start>=0, v<D,
            v == If(s0+consumed<D, s0+consumed, s0+consumed-D),
            Implies(conj, start<D-h))
    # one iteration
    seg_c = If(If(start+TL-consumed<cc, start+TL-consumed, cc)-start>0, If(start+TL-consumed<cc, start+TL-consumed, cc)-start, 0)
    seg_n = If(If(start+TL-consumed<h, start+TL-consumed, h)-start>0, If(start+TL-consumed<h, start+TL-consumed, h)-start, 0)
    seg = If(conj, seg_c, seg_n)
    # visited half index for filter element j in [consumed, consumed+seg)
    # conj slice: half[(-2+m-start) : (-2+m-start-seg) : -1] -> element k at abs index h-2+m-start-k
    vis_idx = If(conj, h-2+m-start-(j-consumed), start+(j-consumed))
    sp_idx, sp_conj = specbin(j)
    body_ok = ForAll([j], Implies(And(j>=consumed, j<consumed+seg), And(vis_idx==sp_idx, conj==sp_conj, vis_idx>=0, vis_idx<h)))
    start2 = If(conj, start-cc, start-h); start2=If(start2>0,start2,0)
    consumed2=consumed+seg; conj2=Not(conj)
    inv2=substitute(inv,(start,start2),(consumed,consumed2),(conj,conj2))
    res={}
    for name,goal in [('init',Implies(pre, substitute(inv,(start,s0),(consumed,IntVal(0)),(conj,BoolVal(False))))),
                      ('body-spec',Implies(And(pre,inv,consumed<TL), body_ok)),
                      ('preserve',Implies(And(pre,inv,consumed<TL), inv2)),
                      ('exit',Implies(And(pre,inv,Not(consumed<TL)), consumed==TL))]:
        s=Solver(); s.set(timeout=30000); s.add(Not(goal)); t=time.time(); r=s.check()
        res[name]=(str(r), round(time.time()-t,2), (s.model() if r==sat else None))
    return res
for p in ('code','fixed'):
    print(p)
    for k,v in run(p).items(): print('  ',k,v[0],v[1], '' if v[2] is None else {str(d):v[2][d] for d in v[2].decls() if str(d) in ('D','h','s0','TL','start','consumed','conj','j')})

import numpy as np, warnings, itertools
warnings.simplefilter("ignore")
from pydrobert.speech.compute import SIFrameComputer
from pydrobert.speech.filters import *
from pydrobert.speech.filters import Fbank
rng=np.random.default_rng(1)
def mk(style,shift_ms,bankname,energy=False,pad=True):
    if bankname=="gabor": bank=GaborFilterBank("mel",num_filts=3,sampling_rate=8000)
    elif bankname=="gamma": bank=ComplexGammatoneFilterBank("mel",num_filts=3,sampling_rate=8000)
    else: bank=Fbank(num_filts=3,sampling_rate=8000)
    return SIFrameComputer(bank,frame_shift_ms=shift_ms,frame_style=style,include_energy=energy,pad_to_nearest_power_of_two=pad)
for style,bn,sh in itertools.product(("causal","centered"),("gabor","gamma","fbank"),(2,10)):
    c=mk(style,sh,bn)
    s=c.frame_shift; M=c._max_support; tr=c._translation
    onesided = M if style=="causal" else M-M//2
    cnt_bad=[];chunk_bad=[];exc=[]
    for N in list(range(0,3*s+5))+[c._dft_size-1,c._dft_size,c._dft_size+1,2*c._dft_size+7, 1000,1001]:
        x=rng.standard_normal(N)
        try:
            f=c.compute_full(x)
        except Exception as e:
            exc.append((N,type(e).__name__)); 
            c._started=False; continue
        if f.shape[0]!=(N+s//2)//s: cnt_bad.append((N,f.shape[0],(N+s//2)//s))
        # chunked
        k=max(1,N//3)
        try:
            g=np.concatenate([c.compute_chunk(x[:1]),c.compute_chunk(x[1:1]),c.compute_chunk(x[1:k]),c.compute_chunk(x[k:]),c.finalize()])
            if g.shape!=f.shape or (f.size and not np.allclose(f,g)): chunk_bad.append((N,f.shape,g.shape))
        except Exception as e:
            exc.append((N,'chunked',type(e).__name__)); c._started=False
    print(style,bn,sh,'s',s,'M',M,'tr',tr,'D',c._dft_size,'hyp',s<onesided,'| cnt_bad',cnt_bad[:4],'| chunk_bad',chunk_bad[:4],'| exc',exc[:3])

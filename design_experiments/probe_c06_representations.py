import numpy as np, warnings, itertools, json
warnings.simplefilter("ignore")
from pydrobert.speech import filters as F, scales, post, pre, util, config, alias, compute
from pydrobert.speech.filters import Fbank
rng=np.random.default_rng(0)
eps=config.EFFECTIVE_SUPPORT_THRESHOLD
def banks():
    for sc in ("mel","bark",{"name":"linear","low_hz":0.},{"name":"octave","low_hz":20.}):
        for rate in (8000,16000):
            yield "tri",F.TriangularOverlappingFilterBank(sc,num_filts=5,sampling_rate=rate)
            yield "tri-an",F.TriangularOverlappingFilterBank(sc,num_filts=5,sampling_rate=rate,analytic=True)
            for kw in ({},{"erb":True},{"scale_l2_norm":True}):
                yield "gabor"+str(kw),F.GaborFilterBank(sc,num_filts=5,sampling_rate=rate,**kw)
                yield "gamma"+str(kw),F.ComplexGammatoneFilterBank(sc,num_filts=5,sampling_rate=rate,**kw)
    yield "fbank",Fbank(num_filts=5,sampling_rate=8000); yield "fbank-an",Fbank(num_filts=5,sampling_rate=8000,analytic=True)
# C06
worst={}; errs=[]
for name,b in banks():
    for w in list(range(2,40))+[127,128,129,255,256,257,1000]:
        for i in range(b.num_filts):
            try:
                st,tr=b.get_truncated_response(i,w); full=b.get_frequency_response(i,w); half=b.get_frequency_response(i,w,half=True)
            except AssertionError as e:
                errs.append((name,w,i,'assert')); continue
            ok=(0<=st<w)
            re=np.zeros(w,dtype=tr.dtype)
            if b.is_real:
                if st+len(tr)>w//2+1: errs.append((name,w,i,'real beyond half',st,len(tr))); continue
                re[st:st+len(tr)]=tr; re[w-st-len(tr)+1:w-st+1]=tr[:None if st else 0:-1].conj()
            else:
                if len(tr)>w: errs.append((name,w,i,'len>w',len(tr))); continue
                wrap=min(st+len(tr),w)-st; re[st:st+wrap]=tr[:wrap]; re[:len(tr)-wrap]=tr[wrap:]
            d=float(np.abs(re-full).max()); worst[name]=max(worst.get(name,0),d)
            hl=w//2+1 if w%2==0 else (w+1)//2
            if not ok or len(half)!=hl or not np.allclose(half,full[:hl]) or not np.all(np.isfinite(full)): errs.append((name,w,i,'half/start/finite'))
print("C06 worst rebuild diff / threshold:",{k:round(v/eps,3) for k,v in worst.items() if v>0})
print("C06 errs:",len(errs),errs[:8])

import numpy as np, warnings
warnings.simplefilter("ignore")
from pydrobert.speech.compute import STFTFrameComputer, SIFrameComputer, frame_by_frame_calculation
from pydrobert.speech.filters import *
from pydrobert.speech.filters import Fbank
from pydrobert.speech.scales import *
rng=np.random.default_rng(0)
def chunked(c,x,sizes):
    out=[];i=0
    for s in sizes:
        out.append(c.compute_chunk(x[i:i+s])); i+=s
    out.append(c.compute_chunk(x[i:])) if i<len(x) else None
    out.append(c.finalize())
    return np.concatenate(out)
# C01 STFT: short N
bank=Fbank(num_filts=5,sampling_rate=8000)
for style in ("causal","centered"):
  for ks in (False,True):
    c=STFTFrameComputer(bank,frame_length_ms=25,frame_shift_ms=10,frame_style=style,kaldi_shift=ks)
    L,s=c.frame_length,c.frame_shift
    bad=[]
    for N in range(0,3*L):
        x=rng.standard_normal(N)
        f=c.compute_full(x); g=chunked(c,x,[N//3,N//3])
        if f.shape!=g.shape: bad.append((N,'shape',f.shape,g.shape))
        elif f.size and not np.allclose(f,g): bad.append((N,'val',float(np.abs(f-g).max())))
    print(style,ks,L,s,len(bad),bad[:6],bad[-3:])

from z3 import *
import time
y,y2=Reals('y y2')
R=RealVal
def P(y): return (((R('4.53642210148e-5')*y+R('0.0204231210245'))*y+R('0.342242088547'))*y+1)*y+R('0.322232431088')
def Q(y): return (((R('0.0038560700634')*y+R('0.10353775285'))*y+R('0.531103462366'))*y+R('0.588581570495'))*y+R('0.099348462606')
z=lambda y: y-P(y)/Q(y)
s=Solver(); s.set(timeout=120000)
# y ranges over [sqrt(2 ln 2), sqrt(-2 ln 1e-20)] ~ [1.1774, 9.5972]; use a superset [1.17, 9.6]
s.add(y>=R('1.17'),y2>y,y2<=R('9.6'),Not(z(y2)>z(y)))
t=time.time(); print('z(y) strictly increasing on [1.17,9.6]:',s.check(),round(time.time()-t,2))
s=Solver(); s.add(y>=0,Not(Q(y)>0)); print('Q>0 (no div by zero):',s.check())
s=Solver(); s.add(y>=R('1.17741'), y<=R('1.17742'), Not(And(z(y)>=-R('1e-6'), z(y)<=R('1e-6')))); print('|z| small at p=0.5:',s.check())
s=Solver(); s.add(y>=R('1.17741'), y<=R('1.17742'), Not(z(y)>=0)); r=s.check(); print('z>=0 at p=0.5:',r, s.model() if r==sat else '')

import numpy as np, warnings, io, traceback, tempfile, os
warnings.simplefilter("ignore")
from pydrobert.speech.compute import STFTFrameComputer, SIFrameComputer
from pydrobert.speech.filters import *
from pydrobert.speech.filters import Fbank
from pydrobert.speech import util, config
from pydrobert.speech.post import Standardize
rng=np.random.default_rng(0)
def t(name,f):
    try: print(name,'->',f())
    except Exception as e: print(name,'EXC',type(e).__name__,str(e)[:100])
bank=GaborFilterBank("mel",num_filts=4,sampling_rate=8000)
si=SIFrameComputer(bank)
t("C03 f32 long",lambda: si.compute_full(rng.standard_normal(5000).astype(np.float32)).dtype)
t("C03 f32 short",lambda: si.compute_full(rng.standard_normal(50).astype(np.float32)).dtype)
t("C20 circshift default",lambda: util.circshift_fourier(np.ones(8,dtype=complex),1).shape)
g=ComplexGammatoneFilterBank("mel",num_filts=4,sampling_rate=8000,scale_l2_norm=True)
t("C05 gamma l2 norms",lambda:[float(np.linalg.norm(g.get_impulse_response(i,4096))) for i in range(4)])
gg=GaborFilterBank("mel",num_filts=4,sampling_rate=8000,scale_l2_norm=True)
t("C05 gabor l2 norms",lambda:[float(np.linalg.norm(gg.get_impulse_response(i,4096))) for i in range(4)])
# C17
d=tempfile.mkdtemp()
s=Standardize(); s.accumulate(-np.abs(rng.standard_normal((10,3)))-5)
p=os.path.join(d,"st.bin"); s.save(p)
t("C17 raw negative reload",lambda: Standardize(p).have_stats)
p2=os.path.join(d,"st.npz"); s.save(p2)
t("C17 second npz save",lambda: s.save(p2))
t("C17 npz overwrite False",lambda: s.save(p2,overwrite=False))
# C14
import torch
from pydrobert.speech.torch import PyTorchSTFTFrameComputer
c=STFTFrameComputer(Fbank(num_filts=5,sampling_rate=8000),include_energy=True)
m=PyTorchSTFTFrameComputer.from_stft_frame_computer(c)
t("C14 empty cols", lambda:(m(torch.zeros(3)).shape, c.compute_full(np.zeros(3)).shape))
# C12 3 channel
def sph(data,chan,coding="pcm",order="01",nbytes=2):
    n=data.shape[0]
    h=f"NIST_1A\n   1024\nchannel_count -i {chan}\nsample_count -i {n}\nsample_rate -i 8000\nsample_n_bytes -i {nbytes}\nsample_byte_format -s2 {order}\nsample_coding -s3 {coding}\nend_head\n"
    h=h.encode().ljust(1024,b" ")
    return h+data.astype('<i2' if order=="01" else '>i2').tobytes()
for ch in (1,2,3,5):
    dat=rng.integers(-1000,1000,size=(6000,ch)).astype(np.int16)
    r=util.read_signal(io.BytesIO(sph(dat,ch)),force_as="sph")
    print("C12 ch",ch,r.shape, np.array_equal(r.reshape(dat.shape) if r.size==dat.size else None,dat))
dat=rng.integers(-1000,1000,size=(100,1)).astype(np.int16)
b=sph(dat,1)[:-50]
r=util.read_signal(io.BytesIO(b),force_as="sph"); print("C12 trunc mono",r.shape)
t("C13 shn", lambda: util.read_signal("/repo/tests/audio/123_1pcle_shn.sph").shape)

from z3 import *
import time, ast
def check(name,hyps,goal,to=60000):
    sol=Solver(); sol.set(timeout=to); sol.add(*hyps); sol.add(Not(goal)); t=time.time(); r=sol.check(); print(name,r,round(time.time()-t,2)); 
    if r==sat: print('   ',sol.model())
# Bark (scales.py:154-171) over reals
def h2s(f):
    b=RealVal('26.81')*f/(1960+f)-RealVal('0.53')
    return If(b<2, b+RealVal('0.15')*(2-b), If(b>RealVal('20.1'), b+RealVal('0.22')*(b-RealVal('20.1')), b))
def s2h(sc):
    b=If(sc<2,(20*sc-6)/17, If(sc>RealVal('20.1'),(50*sc+RealVal('221.1'))/61, sc))
    return 1960*(b+RealVal('0.53'))/(RealVal('26.28')-b)
f,g,sc=Reals('f g sc')
check('bark inv f', [f>=0,f<=100000], s2h(h2s(f))==f)
check('bark mono', [f>=0,g>f,g<=100000], h2s(g)>h2s(f))
check('bark inv s', [sc>=h2s(RealVal(0)), sc<=h2s(RealVal(100000))], h2s(s2h(sc))==sc)
# mel with uninterpreted exp/log + axioms
ex=Function('exp',RealSort(),RealSort()); ln=Function('log',RealSort(),RealSort())
x,y=Reals('x y')
ax=[ForAll([x],Implies(x>0, ex(ln(x))==x)), ForAll([x], ln(ex(x))==x), ForAll([x],ex(x)>0),
    ForAll([x,y],Implies(And(x>0,y>x), ln(y)>ln(x)))]
mel=lambda f:1127*ln(1+f/700); imel=lambda s:700*(ex(s/1127)-1)
check('mel inv f', ax+[f>=0], imel(mel(f))==f)
check('mel inv s', ax, mel(imel(sc))==sc)
check('mel mono', ax+[f>=0,g>f], mel(g)>mel(f))
# G.711 mu-law table from real source vs ITU expansion, all 256 codes as BV
src=open('/repo/src/pydrobert/speech/_sphere.py').read(); tree=ast.parse(src)
tabs={}
for n in tree.body:
    if isinstance(n,ast.Assign) and isinstance(n.targets[0],ast.Name) and n.targets[0].id in('ULAW2PCM','ALAW2PCM'):
        tabs[n.targets[0].id]=ast.literal_eval(n.value.args[0])
T=tabs['ULAW2PCM']; A=Array('T',BitVecSort(8),BitVecSort(16))
for i,vv in enumerate(T): A=Store(A,BitVecVal(i,8),BitVecVal(vv,16))
cde=BitVec('c',8)
u=~cde
sign=Extract(7,7,u); e=ZeroExt(13,Extract(6,4,u)); mnt=ZeroExt(12,Extract(3,0,u))
mag=(((mnt<<3)+BitVecVal(0x84,16))<<e)-BitVecVal(0x84,16)
val=If(sign==1,-mag,mag)
check('ulaw table == G.711 formula (all 256)', [], A[cde]==val)
T2=tabs['ALAW2PCM']; A2=Array('T2',BitVecSort(8),BitVecSort(16))
for i,vv in enumerate(T2): A2=Store(A2,BitVecVal(i,8),BitVecVal(vv,16))
a=cde^BitVecVal(0x55,8)
sg=Extract(7,7,a); e2=ZeroExt(13,Extract(6,4,a)); m2=ZeroExt(12,Extract(3,0,a))
mag2=If(e2==0,(m2<<4)+8, ((m2<<4)+BitVecVal(0x108,16))<<(e2-1))
val2=If(sg==1,mag2,-mag2)
check('alaw table == G.711 formula (all 256)', [], A2[cde]==val2)

import numpy as np, warnings
warnings.simplefilter("ignore")
from pydrobert.speech.compute import STFTFrameComputer
from pydrobert.speech.filters import Fbank
rng=np.random.default_rng(0)
bank=Fbank(num_filts=5,sampling_rate=8000)
c=STFTFrameComputer(bank,frame_length_ms=25,frame_shift_ms=10,frame_style="causal")
L,s=c.frame_length,c.frame_shift
bad=[]
for N in range(0,4*L):
    x=rng.standard_normal(N)
    f=c.compute_full(x)
    g=np.concatenate([c.compute_chunk(x),c.finalize()])
    if f.shape!=g.shape: bad.append((N,'S'))
    elif f.size and not np.allclose(f,g): bad.append((N,'V'))
# predicted
pred=[]
for N in range(0,4*L):
    if N < L:
        E=0; first=True
    else:
        E=(N-L)//s+1; first=False
    b=N-E*s
    nf=(b+s//2)//s
    full= 0 if N<L//2+1 else (N+s//2)//s
    if E+max(nf,0)!=full: pred.append((N,'S'))
    elif nf>=1:
        pr=(nf-1)*s+L-b
        if pr>b: pred.append((N,'V'))
print(bad==pred, len(bad), len(pred))
print([n for n,k in bad if k=='V'][:40])
print([n for n,k in pred if k=='V'][:40])

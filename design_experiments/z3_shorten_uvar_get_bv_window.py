# C13 feasibility (fallback): uvar_get as guarded unrolling over a BV window; spec via count-leading-zeros.
from z3 import *
import time, sys
QMAX=int(sys.argv[1]) if len(sys.argv)>1 else 40      # max unary run handled
g0=BitVec('g',32); nb0=BitVec('nb',8); nbin0=BitVec('nbin',8)
w=[BitVec(f'w{i}',32) for i in range(4)]
def word_at(wi):  # wi BV8 index
    e=w[3]
    for i in (2,1,0): e=If(wi==i,w[i],e)
    return e
def mask(n8):     # low n bits set, n in 0..32 as BV8 -> BV32   (masktab)
    n=ZeroExt(24,n8); return If(n8>=32, BitVecVal(0xFFFFFFFF,32), (BitVecVal(1,32)<<n)-1)
# ---- program (mirrors _sphere.py:158-186), all state symbolic, loops unrolled under `act`
g,nb,wi,res=g0,nb0,BitVecVal(0,8),BitVecVal(0,64)
# if not nbitget: refill
ref=nb==0; g=If(ref,word_at(wi),g); wi=If(ref,wi+1,wi); nb=If(ref,BitVecVal(32,8),nb)
act=BoolVal(True)
for _ in range(QMAX+1):
    nb_n=nb-1
    hit=Extract(0,0,LShR(g,ZeroExt(24,nb_n)))==1
    # break if hit
    cont=And(act,Not(hit))
    need=And(cont,nb_n==0)
    g=If(need,word_at(wi),g); wi=If(need,wi+1,wi)
    nb=If(act, If(need,BitVecVal(32,8),nb_n), nb)
    res=If(cont,res+1,res)
    act=cont
terminated=Not(act)
nbin=nbin0
for _ in range(3):
    go=nbin!=0
    fits=UGE(nb,nbin)
    sh=ZeroExt(56,nbin); 
    r_fit=(res<<sh) | ZeroExt(32, LShR(g,ZeroExt(24,nb-nbin)) & mask(nbin))
    r_part=(res<<ZeroExt(56,nb)) | ZeroExt(32, g & mask(nb))
    res=If(go, If(fits,r_fit,r_part), res)
    g_new=If(And(go,Not(fits)),word_at(wi),g); wi=If(And(go,Not(fits)),wi+1,wi)
    nbin_new=If(go, If(fits,BitVecVal(0,8),nbin-nb), nbin)
    nb=If(go, If(fits,nb-nbin,BitVecVal(32,8)), nb)
    g=g_new; nbin=nbin_new
# ---- spec on a 160-bit window: T = low nb0 bits of g0, then w0..w3
def Z(x,n): return ZeroExt(n-x.size(),x)
N=160
nbw=Z(nb0,N)
T=((Z(g0 & mask(nb0),N)) << (BitVecVal(N,N)-nbw)) | (Z(w[0],N)<<(BitVecVal(N-32,N)-nbw)) | (Z(w[1],N)<<(BitVecVal(N-64,N)-nbw)) | (Z(w[2],N)<<(BitVecVal(N-96,N)-nbw)) | (Z(w[3],N)<<(BitVecVal(N-128,N)-nbw))
# clz(T) bounded by QMAX
q=BitVecVal(QMAX+1,N)
for i in range(QMAX,-1,-1):
    q=If(Extract(N-1-i,N-1-i,T)==1, BitVecVal(i,N), q)
nbinw=Z(nbin0,N)
val=If(nbin0==0, BitVecVal(0,N), LShR(T<<(q+1), BitVecVal(N,N)-nbinw))
spec=(q<<nbinw)|val
pre=And(ULE(nb0,32), ULE(nbin0,31), ULE(q,QMAX))      # code length q+1+nbin <= QMAX+32 <= available (nb0+128 >= 128)
goal=And(terminated, Z(res,N)==spec,
         # cursor: bits consumed = q+1+nbin ; remaining-bit bookkeeping: 32*wi_final - nb_final == q+1+nbin0 - nb0 (in bits)
         Z(wi,N)*32 - Z(nb,N) == q+1+nbinw - nbw)
s=Solver(); s.set(timeout=600000); s.add(pre, Not(goal)); t=time.time(); r=s.check(); print('QMAX',QMAX,'uvar_get == rice spec on window:',r,round(time.time()-t,1),'s')
if r==sat:
    m=s.model(); print({str(d):m[d] for d in m.decls()}); print('res',m.eval(res),'spec',m.eval(spec),'term',m.eval(terminated))

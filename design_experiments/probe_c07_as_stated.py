import numpy as np, warnings, itertools
warnings.simplefilter("ignore")
from pydrobert.speech import filters as F, config
from pydrobert.speech.filters import Fbank
eps=config.EFFECTIVE_SUPPORT_THRESHOLD
def banks():
    for sc in ("mel","bark",{"name":"linear","low_hz":0.}):
        for rate in (8000,16000):
            yield "tri",F.TriangularOverlappingFilterBank(sc,num_filts=6,sampling_rate=rate)
            yield "tri-an",F.TriangularOverlappingFilterBank(sc,num_filts=6,sampling_rate=rate,analytic=True)
            for kw in ({},{"erb":True},{"scale_l2_norm":True}):
                yield "gabor"+str(kw),F.GaborFilterBank(sc,num_filts=6,sampling_rate=rate,**kw)
            for order in (3,4,6):
                for mc in (False,True):
                    for erb in (False,True):
                        yield f"gamma o{order} mc{mc} erb{erb}",F.ComplexGammatoneFilterBank(sc,num_filts=6,sampling_rate=rate,order=order,max_centered=mc,erb=erb)
    yield "fbank",Fbank(num_filts=6,sampling_rate=8000); yield "fbank-an",Fbank(num_filts=6,sampling_rate=8000,analytic=True)
res={}
for name,b in banks():
    rate=b.sampling_rate
    for i in range(b.num_filts):
        lo,hi=b.supports[i]; flo,fhi=b.supports_hz[i]
        w0=int(max(hi-lo+1, np.ceil(2*rate/(fhi-flo))))
        for w in (w0,w0+1,2*w0):
            if w>6000: continue
            imp=b.get_impulse_response(i,w); fr=b.get_frequency_response(i,w)
            a=float(np.abs(np.fft.ifft(fr)-imp).max())
            # outside temporal support
            idx=np.arange(lo,hi+1)%w; mask=np.ones(w,bool); mask[idx]=False
            t_out=float(np.abs(imp[mask]).max()) if mask.any() else 0.
            # outside freq support
            hz=np.arange(w)*rate/w
            def inside(h):
                r=np.zeros(w,bool)
                for k in (-2,-1,0,1,2):
                    r|=(h+k*rate>=flo)&(h+k*rate<=fhi)
                    if b.is_real: r|=(-(h+k*rate)>=flo)&(-(h+k*rate)<=fhi)
                return r
            m=~inside(hz)
            f_out=float(np.abs(fr[m]).max()) if m.any() else 0.
            realok = (np.isrealobj(imp)==b.is_real)
            k=name
            r=res.setdefault(k,[0,0,0,True]); r[0]=max(r[0],a/eps); r[1]=max(r[1],t_out/eps); r[2]=max(r[2],f_out/eps); r[3]&=realok
for k,v in res.items(): print(f"{k:32s} ifft {v[0]:6.2f}  t_out {v[1]:6.2f}  f_out {v[2]:6.2f}  real {v[3]}   {'<-- exceeds' if v[0]>2 or v[1]>2 or v[2]>2.5 or not v[3] else ''}")

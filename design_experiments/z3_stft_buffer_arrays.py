from z3 import *
import time
# STFT compute_chunk tail: buffer retention (compute.py:520-538), arrays as Int->Real functions.
L,s,bl,cl,nf,E = Ints('L s bl cl nf E')   # bl=buf_len on entry (post first-frame), cl=len(chunk), nf frames this call
buf=Array('buf',IntSort(),RealSort()); chunk=Array('chunk',IntSort(),RealSort())
Qf=Function('Q',IntSort(),RealSort())      # ghost: conceptual padded stream
i=Int('i')
base=Int('base')  # stream offset of buf's first valid sample: valid buf cells hold Q[base+k]
pre=[L>=1,s>=1,s<=L,bl>=0,bl<L,cl>=0,nf>=0,
     ForAll([i],Implies(And(i>=0,i<bl), buf[L-bl+i]==Qf(base+i))),
     ForAll([i],Implies(And(i>=0,i<cl), chunk[i]==Qf(base+bl+i)))]
tot=bl+cl
rem=tot-nf*s
pre+= [rem<L, rem>=0, Or(nf==0, (nf-1)*s+L<=tot)]
throw=tot-rem
rrl=bl-throw
# branch 1: throw<bl : buf[L-rem : L-rem+rrl] = buf[L-rrl:];  buf[L-(rem-rrl):] = chunk   (requires rem-rrl==cl)
buf1=Lambda([i], If(And(i>=L-rem,i<L-rem+rrl), buf[i-(L-rem)+(L-rrl)], buf[i]))
buf1b=Lambda([i], If(And(i>=L-(rem-rrl), i<L), chunk[i-(L-(rem-rrl))], buf1[i]))
# branch 2: buf[-rem:] = chunk[-rem:]
buf2=Lambda([i], If(And(i>=L-rem,i<L), chunk[cl-rem+(i-(L-rem))], buf[i]))
def check(name,hyps,goal):
    sol=Solver(); sol.set(timeout=60000); sol.add(*hyps); sol.add(Not(goal)); t=time.time(); r=sol.check(); print(name,r,round(time.time()-t,2))
    if r==sat: print(sol.model())
k=Int('k')
post=lambda B: Implies(And(k>=0,k<rem), B[L-rem+k]==Qf(base+throw+k))
check('branch1 shape', pre+[rem>0,throw<bl], rem-rrl==cl)
check('branch1 content', pre+[rem>0,throw<bl], post(buf1b))
check('branch2 content', pre+[rem>0,throw>=bl], And(rem<=cl, post(buf2)))

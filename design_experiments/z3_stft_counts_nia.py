from z3 import *
import time
# STFT compute_chunk count step (centered, non-kaldi), symbolic L, s, T, c.
L,s,T,c = Ints('L s T c')
def fdiv(a,b,tag,side):
    # floor division by symbolic positive b via witness q,r (VC generator would do this)
    q,r=Ints(f'q_{tag} r_{tag}'); side.append(And(a==q*b+r, r>=0, r<b)); return q
def mx(a,b): return If(a>b,a,b)
def check(name,hyps,goal,to=60000):
    sol=Solver(); sol.set(timeout=to); sol.add(*hyps); sol.add(Not(goal)); t=time.time(); r=sol.check()
    print(name,r,round(time.time()-t,2)); 
    if r==sat:
        m=sol.model(); print('   ',{str(d):m[d] for d in m.decls() if not str(d).startswith(('q_','r_'))})
pre=[L>=1,s>=1,s<=L,T>=0,c>=0]
pl=(L+1)/2-1; L1=L/2+1
# abstract state after T samples, not-first branch: Q=pl+T, E=(Q-L)//s+1, buf=Q-E*s
side=[]
Q=pl+T
E=fdiv(Q-L,s,'E',side)+1
buf=Q-E*s
hyp=pre+side+[T>=L1]
# code: total_len=c+buf; num_frames=max(0,(total_len-L)//s+1); rem=total_len-num_frames*s
tot=c+buf
nf=mx(0,fdiv(tot-L,s,'nf',side)+1)
rem=tot-nf*s
# claimed post-state for T+c
side2=[]
E2=fdiv(Q+c-L,s,'E2',side2)+1
check('chunk-step count', hyp+side+side2, And(E+nf==E2, rem==Q+c-E2*s, rem<L, rem>=0))
# finalize count (not first): nfz=(buf + s//2 - pl)//s ; total == (N + s//2)//s with N=T
side3=[]
nfz=fdiv(buf+s/2-pl,s,'z',side3)
full=fdiv(T+s/2,s,'f',side3)
check('finalize total', hyp+side+side3, E+mx(nfz,0)==full)
# first-frame branch at finalize: T<L1 -> streaming nf=(T+s//2)//s (pad_left counted then subtracted? first_frame True => num_frames=(buf_len+s//2)//s)
side4=[]
nf1=fdiv(T+s/2,s,'g',side4)
check('short-signal (expect sat = defect)', pre+side4+[T<L1], nf1==0)
# pad_right <= buf (single reflection) needed for tail equality
pr=(nfz-1)*s+L-buf
check('tail reflection within retained (centered)', hyp+side+side3+[nfz>=1], pr<=buf)

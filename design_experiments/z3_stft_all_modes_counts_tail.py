# C01 STFT: inductiveness of the DESIGN.md invariant (count level) + finalize/compute_full agreement, all framing modes
from z3 import *
import time
def mx(a,b): return If(a>b,a,b)
_n=[0]
class Ctx:
    def __init__(s): s.side=[]
    def fdiv(s,a,b):
        _n[0]+=1; q,r=Ints(f'q{_n[0]} r{_n[0]}'); s.side.append(And(a==q*b+r,r>=0,r<b)); return q
def check(name,hyps,goal,show=('L','s','T','c','N')):
    pre=Solver(); pre.add(*hyps)
    if pre.check()!=sat:
        print(f'  {name:48s} EMPTY-CASE (antecedent unsatisfiable)'); return
    sol=Solver(); sol.set(timeout=60000); sol.add(*hyps); sol.add(Not(goal)); t=time.time(); r=sol.check()
    msg=''
    if r==sat:
        m=sol.model(); msg={str(d):m[d] for d in m.decls() if str(d) in show}
    print(f'  {name:48s} {str(r):7s} {time.time()-t:5.2f}s {msg}')
L,s,T,c=Ints('L s T c')
for mode in ('causal','centered','kaldi'):
    print(mode)
    pl = {'causal':IntVal(0),'centered':(L+1)/2-1,'kaldi':L/2-s/2}[mode]
    L1 = {'causal':L,'centered':L/2+1,'kaldi':(L+1)/2+s/2}[mode]
    base=[L>=1,s>=1,s<=L,T>=0,c>=0]
    check('pl>=0 and pl+L1==L', base, And(pl>=0, pl+L1==L))
    # --- step from first state
    k=Ctx(); tot=T+c
    nf=mx(0,k.fdiv(tot-L1,s)+1)
    # if nf==0 stay first with buf_len=tot<L1
    check('first->first keeps T<L1', base+k.side+[T<L1,nf==0], tot<L1)
    # if nf>=1: E'=nf must equal (pl+T+c-L)//s+1 ; rem = (tot-L1+L) - nf*s in [0,L)
    k2=Ctx(); E2=k2.fdiv(pl+T+c-L,s)+1
    rem=(tot-L1+L)-nf*s
    check('first->run E and rem', base+k.side+k2.side+[T<L1,nf>=1], And(nf==E2, rem==pl+T+c-E2*s, rem>=0, rem<L))
    # --- step from running state
    k=Ctx(); E=k.fdiv(pl+T-L,s)+1; buf=pl+T-E*s
    tot=c+buf; nf=mx(0,k.fdiv(tot-L,s)+1); rem=tot-nf*s
    k2=Ctx(); E2=k2.fdiv(pl+T+c-L,s)+1
    check('run->run E and rem', base+k.side+k2.side+[T>=L1], And(E+nf==E2, rem==pl+T+c-E2*s, rem>=0, rem<L, buf>=0, buf<L))
    # --- finalize vs compute_full, N=T
    N=T
    kf=Ctx(); full=If(N<L/2+1, 0, kf.fdiv(N+s/2,s))
    # first state
    k=Ctx(); nz=mx(0,k.fdiv(N+s/2,s))
    check('finalize(first) count == full', base+k.side+kf.side+[N<L1], nz==full)
    check('finalize(first) count == full | N>=L//2+1', base+k.side+kf.side+[N<L1,N>=L/2+1], nz==full)
    # running state
    k=Ctx(); E=k.fdiv(pl+N-L,s)+1; buf=pl+N-E*s
    nz=mx(0,k.fdiv(buf+s/2-pl,s))
    check('finalize(run) total == full', base+k.side+kf.side+[N>=L1], E+nz==full)
    pr=(nz-1)*s+L-buf
    # full's pad_right for same N
    prf=mx(0,(full-1)*s-pl+L-N)
    check('finalize(run) pad_right == full pad_right', base+k.side+kf.side+[N>=L1,nz>=1,E+nz==full], pr==prf)
    check('finalize(run) reflection within retained & signal', base+k.side+kf.side+[N>=L1,nz>=1], And(pr<=buf, pr<=N))
    check('full: single reflection (pl<=N, prf<=N) | N>=L//2+1', base+kf.side+[N>=L/2+1], And(pl<=N, prf<=N))

"""Discharging obligations: every VC is an independent query  (pc /\\ not goal)  sent as SMT-LIB
text to a process pool. z3 5.x (Python API) first; an `unknown` is re-posed to /usr/bin/cvc5 and
/usr/bin/z3 (4.8). unsat = proved, sat = refuted (model returned), anything else = undecided.
"""
import os
import re
import subprocess
import tempfile
import time
from concurrent.futures import ProcessPoolExecutor

import z3


def vc_smt2(pc, goal):
    s = z3.Solver()
    for p in pc:
        s.add(p)
    s.add(z3.Not(goal))
    return s.to_smt2()


def _model_dict(m):
    out = {}
    for d in m.decls():
        try:
            v = m[d]
            if d.arity() == 0:
                out[d.name()] = str(v)
        except Exception:
            pass
    return out


def _solve_one(args):
    oid, smt2, timeout_ms, want_vacuity = args
    t0 = time.time()
    try:
        # stage 1: z3 5.x with a short budget (almost every VC is discharged in milliseconds); stage 2: cvc5 and z3 4.8 on
        # the same SMT-LIB text (they decide some non-linear integer VCs z3 5.x does not); stage 3: z3 5.x with the full budget
        first = min(timeout_ms, 6000)
        s = z3.Solver()
        s.set("timeout", first)
        s.from_string(smt2)
        r = s.check()
        res = {"id": oid, "backend": "z3-" + z3.get_version_string(), "seconds": time.time() - t0}
        if r == z3.unsat:
            res["verdict"] = "proved"
        elif r == z3.sat:
            res["verdict"] = "refuted"
            res["model"] = _model_dict(s.model())
        else:
            res["verdict"] = "undecided"
            res["reason"] = s.reason_unknown()
            for tool, cmd in (("cvc5", ["/usr/bin/cvc5", "--lang=smt2", f"--tlimit={timeout_ms}", "--produce-models"]),
                              ("z3-4.8", ["/usr/bin/z3", "-smt2", f"-T:{max(1, timeout_ms // 1000)}"])):
                v, out = _external(cmd, smt2, timeout_ms)
                if v in ("proved", "refuted"):
                    res["verdict"], res["backend"] = v, tool
                    if v == "refuted":
                        res["model"] = {"raw": out[:2000]}
                    break
            if res["verdict"] == "undecided" and timeout_ms > first:
                s = z3.Solver()
                s.set("timeout", timeout_ms)
                s.from_string(smt2)
                r = s.check()
                if r == z3.unsat:
                    res["verdict"] = "proved"
                elif r == z3.sat:
                    res["verdict"], res["model"] = "refuted", _model_dict(s.model())
            res["seconds"] = time.time() - t0
            if res["verdict"] != "undecided":
                return res
            # E-matching only (no model-based quantifier instantiation): z3 stops quickly with `unknown` and a CANDIDATE model
            # that satisfies the ground part and every axiom instance it generated - good real-valued candidates for the
            # replay when the hypotheses are quantified axioms (exp/ln, reflect, NS additivity)
            m = _ematch_candidate(smt2, min(timeout_ms, 8000))
            if m is not None:
                res["verdict"], res["model"], res["backend"] = m[0], m[1], res["backend"] + "+ematch"
                if m[0] == "refuted":
                    res["seconds"] = time.time() - t0
                    return res
                res["seconds"] = time.time() - t0
                return res
            # a counterexample with small integers is still a counterexample: retry the same query with every
            # integer constant confined to a small box (only `sat` is used from this attempt)
            for bound in (8, 40):
                m = _small_model(smt2, bound, min(timeout_ms, 10000), drop_quantified=False)
                if m is not None:
                    res["verdict"], res["model"], res["backend"] = "refuted", m, res["backend"] + f"+box{bound}"
                    res["seconds"] = time.time() - t0
                    return res
            # last resort: a CANDIDATE counterexample of the quantifier-free part only (the quantified hypotheses -
            # array-content invariants, definitional axioms - are dropped, so the model may be spurious). It is
            # never reported by itself: the driver replays it on the real code and keeps `undecided` unless it fails there.
            for bound in (8, 40):
                m = _small_model(smt2, bound, min(timeout_ms, 10000), drop_quantified=True)
                if m is not None:
                    res["verdict"], res["model"], res["backend"] = "candidate", m, res["backend"] + f"+qfbox{bound}"
                    break
            res["seconds"] = time.time() - t0
        return res
    except Exception as e:  # pragma: no cover - checker fault, never a violation
        return {"id": oid, "verdict": "error", "reason": f"{type(e).__name__}: {e}", "seconds": time.time() - t0, "backend": "z3"}


def _int_consts(fs):
    seen, out, stack = set(), {}, list(fs)
    while stack:
        x = stack.pop()
        i = x.get_id()
        if i in seen:
            continue
        seen.add(i)
        if z3.is_quantifier(x):
            stack.append(x.body())
            continue
        if z3.is_const(x) and x.decl().kind() == z3.Z3_OP_UNINTERPRETED and z3.is_int(x):
            out[x.decl().name()] = x
        stack.extend(x.children())
    return list(out.values())


def _ematch_candidate(smt2, timeout_ms):
    s = z3.Solver()
    s.set("timeout", timeout_ms)
    s.set("smt.mbqi", False)
    s.set("smt.auto_config", False)
    try:
        s.from_string(smt2)
        r = s.check()
        if r == z3.sat:
            return "refuted", _model_dict(s.model())
        if r == z3.unknown and "incomplete" in s.reason_unknown():
            return "candidate", _model_dict(s.model())
    except z3.Z3Exception:
        pass
    return None


def _has_q(e):
    stack, seen = [e], set()
    while stack:
        x = stack.pop()
        if x.get_id() in seen:
            continue
        seen.add(x.get_id())
        if z3.is_quantifier(x):
            return True
        stack.extend(x.children())
    return False


def _small_model(smt2, bound, timeout_ms, drop_quantified=False):
    s0 = z3.Solver()
    s0.from_string(smt2)
    s = z3.Solver()
    s.set("timeout", timeout_ms)
    for a in s0.assertions():
        if drop_quantified and _has_q(a):
            continue
        s.add(a)
    for c in _int_consts(s.assertions()):
        s.add(c >= -bound, c <= bound)
    if s.check() == z3.sat:
        return _model_dict(s.model())
    return None


def _external(cmd, smt2, timeout_ms):
    fd, path = tempfile.mkstemp(suffix=".smt2")
    try:
        with os.fdopen(fd, "w") as f:
            f.write(smt2)
            if "(check-sat)" not in smt2:
                f.write("\n(check-sat)\n")
        try:
            p = subprocess.run(cmd + [path], capture_output=True, text=True, timeout=timeout_ms / 1000 + 5)
        except subprocess.TimeoutExpired:
            return "undecided", "timeout"
        out = p.stdout.strip()
        first = out.splitlines()[0] if out else ""
        if first == "unsat":
            return "proved", out
        if first == "sat":
            return "refuted", out
        return "undecided", out
    finally:
        os.unlink(path)


def second_opinion(smt2, timeout_ms=60000):
    """thorough tier: every unsat is re-checked by cvc5; returns 'proved'/'refuted'/'undecided'"""
    v, _ = _external(["/usr/bin/cvc5", "--lang=smt2", f"--tlimit={timeout_ms}"], smt2, timeout_ms)
    return v


def discharge(obligations, timeout_ms=20000, workers=None, vacuity=True):
    """Fills verdict/model/seconds/backend of each Obligation in place."""
    todo = []
    for ob in obligations:
        if ob.verdict is None:
            todo.append((ob, getattr(ob, "smt2_pre", None) or vc_smt2(ob.pc, ob.goal)))
    if not todo:
        return
    workers = workers or min(16, max(1, os.cpu_count() or 1))
    jobs = [(str(i), smt, timeout_ms, vacuity) for i, (ob, smt) in enumerate(todo)]
    if len(jobs) <= 2:
        results = [_solve_one(j) for j in jobs]
    else:
        with ProcessPoolExecutor(max_workers=workers) as ex:
            results = list(ex.map(_solve_one, jobs, chunksize=1))
    for (ob, smt), r in zip(todo, results):
        ob.verdict = r["verdict"]
        ob.seconds = r["seconds"]
        ob.backend = r.get("backend")
        ob.model = r.get("model")
        ob.reason = r.get("reason")
        ob.smt2 = smt


def check_sat(formulas, timeout_ms=5000):
    """satisfiability of a conjunction (vacuity / reachability checks); returns (result, model)"""
    s = z3.Solver()
    s.set("timeout", timeout_ms)
    for f in formulas:
        s.add(f)
    r = s.check()
    if r == z3.sat:
        return "sat", _model_dict(s.model())
    return ("unsat" if r == z3.unsat else "unknown"), None


def model_real(model, name, default=None):
    """float value of a real/int symbol in a model dict ('7/2', '-3', '(- (/ 1 3))' ... )"""
    if model is None:
        return default
    for k, v in model.items():
        if k.split("!")[0] == name:
            t = v.strip().replace("(", " ").replace(")", " ").split()
            try:
                neg = False
                if t and t[0] == "-":
                    neg, t = True, t[1:]
                if len(t) == 1:
                    from fractions import Fraction
                    x = float(Fraction(t[0].rstrip("?")))
                elif len(t) == 3 and t[0] == "/":
                    x = float(t[1]) / float(t[2])
                else:
                    return default
                return -x if neg else x
            except (ValueError, ZeroDivisionError):
                return default
    return default


_num = re.compile(r"^-?\d+$")


def model_int(model, name, default=None):
    """value of the (possibly freshness-suffixed) symbol `name` in a model dict"""
    if model is None:
        return default
    for k, v in model.items():
        base = k.split("!")[0]
        if base == name:
            v = v.strip()
            if _num.match(v):
                return int(v)
            m = re.match(r"^\(- (\d+)\)$", v)
            if m:
                return -int(m.group(1))
            if v in ("True", "False"):
                return v == "True"
    return default

"""AST -> verification conditions: a path-wise symbolic executor for the Python/NumPy subset
used by the functions under contract (DESIGN.md section 2.2).

* Python int  = mathematical integer (z3 Int); float = real (z3 Real, assumption A-REAL);
  `//` and `%` have floor semantics (z3's div/mod agree for positive divisors, which is
  emitted as an obligation/assumption where the sign is not syntactically known).
* 1-D arrays are views (root, offset, step=+-1, length) into heap roots whose contents are
  z3 arrays Int -> Real; slice normalisation follows slice.indices() exactly (negative and
  out-of-range bounds, negative step); slice stores are Lambda updates (memmove semantics).
* Loops are cut at sidecar invariants; calls are replaced by callee contracts (modular).
* Every `assert`, index, division, callee precondition, loop invariant (entry + preservation),
  postcondition and `raises` clause becomes an obligation  pc => goal.
A construct outside the subset raises Outside: the *function* is then reported as outside the
subset (decided by the bounded stand-in only) - nothing is skipped silently.
"""
import ast
import itertools
from fractions import Fraction

import z3


_hq_cache = {}


def has_quantifier(e):
    k = e.get_id()
    if k in _hq_cache:
        return _hq_cache[k]
    seen, stack, r = set(), [e], False
    while stack:
        x = stack.pop()
        i = x.get_id()
        if i in seen:
            continue
        seen.add(i)
        if z3.is_quantifier(x):
            r = True
            break
        stack.extend(x.children())
    _hq_cache[k] = r
    return r


class Outside(Exception):
    """construct not in the verified subset"""


class PathEnd(Exception):
    pass


class SymRaise(Exception):
    """a Python exception raised by a modelled library call (e.g. dict.pop of a missing key)"""

    def __init__(self, name, token=None):
        self.name, self.token = name, token


# ------------------------------------------------------------------------------------------
# values
# ------------------------------------------------------------------------------------------

_fresh = itertools.count()


def fresh(name, sort="int"):
    n = f"{name}!{next(_fresh)}"
    if sort == "int":
        return z3.Int(n)
    if sort == "real":
        return z3.Real(n)
    if sort == "bool":
        return z3.Bool(n)
    if sort == "arr":
        return z3.Array(n, z3.IntSort(), z3.RealSort())
    if sort == "str":
        return z3.String(n)
    raise ValueError(sort)


def is_z3(v):
    return isinstance(v, z3.ExprRef)


def is_int(v):
    return (isinstance(v, int) and not isinstance(v, bool)) or (is_z3(v) and z3.is_int(v))


def is_real(v):
    return isinstance(v, (float, Fraction)) or (is_z3(v) and z3.is_real(v))


def is_num(v):
    return is_int(v) or is_real(v) or isinstance(v, bool)


def is_bool(v):
    return isinstance(v, bool) or (is_z3(v) and z3.is_bool(v))


def Z(v):
    """to a z3 arithmetic / boolean / string term"""
    if is_z3(v):
        return v
    if isinstance(v, bool):
        return z3.BoolVal(v)
    if isinstance(v, int):
        return z3.IntVal(v)
    if isinstance(v, float):
        return z3.RealVal(repr(v)) if v == v and abs(v) != float("inf") else _outside("non-finite literal")
    if isinstance(v, Fraction):
        return z3.RealVal(v.numerator) / z3.RealVal(v.denominator)
    if isinstance(v, str):
        return z3.StringVal(v)
    raise Outside(f"no z3 rendering for {type(v).__name__}")


def _outside(msg):
    raise Outside(msg)


def Zb(v):
    """truthiness as a z3 Bool (Python semantics for numbers / None / bool)"""
    if isinstance(v, bool):
        return z3.BoolVal(v)
    if v is None:
        return z3.BoolVal(False)
    if isinstance(v, (int, float, Fraction)):
        return z3.BoolVal(bool(v))
    if isinstance(v, (str, tuple, list)):
        return z3.BoolVal(bool(v))
    if is_z3(v):
        if z3.is_bool(v):
            return v
        if z3.is_int(v) or z3.is_real(v):
            return v != 0
    if isinstance(v, Arr):
        raise Outside("truth value of an array")
    if isinstance(v, Obj):
        return z3.BoolVal(True)
    raise Outside(f"truthiness of {type(v).__name__}")


def to_real(v):
    v = Z(v)
    if z3.is_bool(v):
        v = z3.If(v, z3.IntVal(1), z3.IntVal(0))
    return z3.ToReal(v) if z3.is_int(v) else v


def to_num(v):
    if isinstance(v, bool):
        return int(v)
    if is_z3(v) and z3.is_bool(v):
        return z3.If(v, z3.IntVal(1), z3.IntVal(0))
    return v


def concrete(v):
    return not is_z3(v) and not isinstance(v, (Arr, Obj))


def simp(v):
    if is_z3(v):
        v = z3.simplify(v)
        if z3.is_int_value(v):
            return v.as_long()
        if z3.is_true(v):
            return True
        if z3.is_false(v):
            return False
    return v


class Arr:
    """1-D view: element i is heap[root].content[off + step*i], 0 <= i < n"""

    def __init__(self, root, off, step, n, conj=False):
        self.root, self.off, self.step, self.n, self.conj = root, off, step, n, conj

    def idx(self, i):
        return Z(self.off) + self.step * Z(i)

    def with_(self, **kw):
        d = dict(root=self.root, off=self.off, step=self.step, n=self.n, conj=self.conj)
        d.update(kw)
        return Arr(**d)


class Prod:
    """element-wise product of equal-length views (only consumed by reduction contracts)"""

    def __init__(self, factors, n):
        self.factors, self.n = factors, n


class Mat:
    """abstract 2-D array: only its shape and a ghost log of the rows written are tracked"""

    def __init__(self, name, rows, cols, dtype=None):
        self.name, self.rows, self.cols, self.dtype = name, rows, cols, dtype


class Row:
    def __init__(self, mat, index):
        self.mat, self.index = mat, index


class Obj:
    """object with symbolic fields (self, options, ...)"""

    def __init__(self, cls, oid):
        self.cls, self.oid = cls, oid


class Opaque:
    """uninterpreted value of the term layer"""

    def __init__(self, term, kind="obj"):
        self.term, self.kind = term, kind


class Root:
    def __init__(self, length, content, dtype="float64", owner="fresh"):
        self.length, self.content, self.dtype, self.owner = length, content, dtype, owner


class State:
    def __init__(self):
        self.env = {}
        self.fields = {}
        self.heap = {}
        self.pc = []
        self.ghost = {}
        self.trace = []
        self.writes = []  # (owner, description) of heap stores, for frame / ownership clauses

    def copy(self):
        s = State()
        s.env = dict(self.env)
        s.fields = dict(self.fields)
        s.heap = dict(self.heap)
        s.pc = list(self.pc)
        s.ghost = dict(self.ghost)
        s.trace = list(self.trace)
        s.writes = list(self.writes)
        return s

    def assume(self, f):
        f = simp(Zb(f)) if not isinstance(f, bool) else f
        if f is True:
            return
        self.pc.append(Z(f))

    def new_root(self, length, content=None, dtype="float64", owner="fresh", name="a"):
        rid = f"{name}#{next(_fresh)}"
        if content is None:
            content = fresh(name + "_c", "arr")  # havoc: np.empty
        self.heap[rid] = Root(length, content, dtype, owner)
        return Arr(rid, 0, 1, length)

    def select(self, arr, i):
        return z3.Select(self.heap[arr.root].content, arr.idx(i))


class Obligation:
    def __init__(self, oid, pc, goal, kind, where):
        self.id, self.pc, self.goal, self.kind, self.where = oid, list(pc), goal, kind, where
        self.verdict = None
        self.model = None
        self.seconds = 0.0
        self.backend = None


# ------------------------------------------------------------------------------------------
# contracts
# ------------------------------------------------------------------------------------------


class LoopSpec:
    def __init__(self, invariant=(), decreases=None, kind=None, var=None, modifies_fields=(), modifies_roots=(),
                 ghost_update=None, types=None, modifies_ghost=(), peel=0, convert=None):
        self.types = dict(types or {})
        self.convert = dict(convert or {})  # name -> fn(state, value): representation change applied before the loop
        self.modifies_ghost = list(modifies_ghost)
        self.peel = peel
        self.invariant = list(invariant)
        self.decreases = decreases
        self.kind, self.var = kind, var
        self.modifies_fields = list(modifies_fields)
        self.modifies_roots = list(modifies_roots)
        self.ghost_update = ghost_update


class Contract:
    """sidecar contract of one repository function"""

    def __init__(self, target, requires=(), ensures=(), raises=None, loops=None, lets=None, uses=(),
                 old=(), at_call=None, params=None, fields=None, ghost=None, setup=None, handlers=None,
                 modifies=(), returns=None, ensures_raise=None, consts=None):
        self.target = target  # "module:Qual.name"
        self.requires = list(requires)
        self.ensures = list(ensures)  # list of (label, expr) or expr
        self.raises = dict(raises or {})  # exception name -> condition expr over entry state
        self.loops = dict(loops or {})  # ordinal -> LoopSpec
        self.lets = dict(lets or {})
        self.uses = list(uses)
        self.at_call = dict(at_call or {})
        self.params = dict(params or {})  # name -> sort / constructor
        self.fields = dict(fields or {})
        self.ghost = dict(ghost or {})
        self.setup = setup
        self.handlers = dict(handlers or {})  # call name -> python handler(ex, st, args, kwargs, node)
        self.modifies = list(modifies)
        self.returns = returns
        self.ensures_raise = dict(ensures_raise or {})
        self.consts = dict(consts or {})


def labelled(clauses, prefix):
    out = []
    for k, c in enumerate(clauses):
        if isinstance(c, tuple):
            out.append(c)
        else:
            out.append((f"{prefix}{k}", c))
    return out


# ------------------------------------------------------------------------------------------
# executor
# ------------------------------------------------------------------------------------------


class Executor:
    def __init__(self, extracted, contract, prop, builtins=None, max_paths=400, feas_timeout_ms=400):
        self.fx, self.contract, self.prop = extracted, contract, prop
        self.obligations = []
        self.canaries = []
        self._canaries_done = set()
        self.paths = 0
        self.max_paths = max_paths
        self.feas_timeout_ms = feas_timeout_ms
        self.ended = []  # (kind, state, value) for finished paths
        self.loop_ordinals = {}
        self._number_loops(extracted.node)
        self.call_counts = {}
        self.axioms = []  # global background axioms (z3 Bool), added to every VC
        self.assumption_ids = set(contract.uses)
        self.fname = extracted.qualname.split(".")[-1]
        self.entry = None
        self.notes = []

    # -- helpers ---------------------------------------------------------------------------
    def _number_loops(self, fn):
        k = 0
        for n in ast.walk(fn):
            if isinstance(n, (ast.For, ast.While)):
                pass
        # source order numbering (ast.walk is BFS; sort by position)
        loops = [n for n in ast.walk(fn) if isinstance(n, (ast.For, ast.While))]
        loops.sort(key=lambda n: (n.lineno, n.col_offset))
        for k, n in enumerate(loops):
            self.loop_ordinals[id(n)] = k

    def oid(self, label):
        return f"{self.prop}.{self.fname}.{label}"

    def oblige(self, st, goal, label, kind="assert", where=None):
        goal = simp(Zb(goal)) if not isinstance(goal, bool) else goal
        if goal is True:
            # trivially true after simplification: still counted, discharged syntactically
            ob = Obligation(self.oid(label), [], z3.BoolVal(True), kind, where)
            ob.verdict, ob.backend = "proved", "syntactic"
            self.obligations.append(ob)
            return
        self.obligations.append(Obligation(self.oid(label), self.axioms + st.pc, Z(goal), kind, where))

    def canary(self, st, goal, label, where=None):
        """a deliberately WRONG variant of an obligation, under the same path condition: it must come back
        refuted, otherwise the path condition is contradictory / the obligation it shadows is vacuous"""
        qf = [p for p in st.pc if not has_quantifier(p)]  # axioms are definitional; vacuity can only come from the path condition
        self.canaries.append(Obligation(self.oid("canary." + label), qf, Z(Zb(goal)), "canary", where))

    def feasible(self, st, extra=None):
        """path pruning only (an infeasible path that is kept merely yields vacuous obligations): quantifier-free
        part of the path condition, short timeout, unknown counts as feasible"""
        s = z3.Solver()
        s.set("timeout", self.feas_timeout_ms)
        for p in st.pc:
            if not has_quantifier(p):
                s.add(p)
        if extra is not None:
            s.add(extra)
        return s.check() != z3.unsat

    def decide(self, st, cond):
        """True / False when the quantifier-free path condition settles cond, else None"""
        cond = simp(cond)
        if cond is True or cond is False:
            return cond
        key = (len(st.pc), id(st), cond.get_id())
        s = self._decide_solver(st)
        s.push()
        s.add(z3.Not(cond))
        r1 = s.check()
        s.pop()
        if r1 == z3.unsat:
            return True
        s.push()
        s.add(cond)
        r2 = s.check()
        s.pop()
        if r2 == z3.unsat:
            return False
        return None

    def _decide_solver(self, st):
        # one incremental solver per (state, pc length); pc only grows along a path
        tag = (id(st), len(st.pc))
        if getattr(self, "_ds_tag", None) != tag:
            s = z3.Solver()
            s.set("timeout", 150)
            for p in st.pc:
                if not has_quantifier(p):
                    s.add(p)
            self._ds, self._ds_tag = s, tag
        return self._ds

    def ctx_simplify(self, st, e, depth=0):
        """resolve the if-then-else nodes of e whose condition the path condition already decides (slice
        normalisation and min/max produce many); purely a simplification, the result is equal under pc"""
        if not is_z3(e):
            return e
        memo = {}

        def go(x):
            k = x.get_id()
            if k in memo:
                return memo[k]
            if z3.is_app(x) and x.num_args() > 0:
                if z3.is_app_of(x, z3.Z3_OP_ITE):
                    c = go(x.arg(0))
                    d = self.decide(st, c)
                    if d is True:
                        r = go(x.arg(1))
                    elif d is False:
                        r = go(x.arg(2))
                    else:
                        r = z3.If(c, go(x.arg(1)), go(x.arg(2)))
                else:
                    ch = [go(c) for c in x.children()]
                    r = x.decl()(*ch) if any(not a.eq(b) for a, b in zip(ch, x.children())) else x
            else:
                r = x
            memo[k] = r
            return r

        if z3.is_quantifier(e):
            return e
        out = go(e)
        return simp(out)

    # -- spec expression evaluation -----------------------------------------------------------
    def spec(self, st, expr, extra_env=None, old=None):
        """evaluate a contract expression (string) in state st; no obligations are generated"""
        if old is None:
            old = self.entry
        node = ast.parse(expr.strip(), mode="eval").body
        ev = Evaluator(self, st, spec_mode=True, extra_env=extra_env or {}, old=old)
        return ev.eval(node)

    # -- running ---------------------------------------------------------------------------
    def run(self, st):
        """execute the function body from state st (parameters already bound)"""
        self.entry = st.copy()
        for label, r in labelled(self.contract.requires, "req"):
            st.assume(self.spec(st, r))
        if getattr(self.contract, "after_requires", None):
            self.contract.after_requires(self, st)
            self.entry.ghost = dict(st.ghost)
        self.entry_assumed = st.copy()
        try:
            self._exec_block(self.fx.node.body, st, self._finish_normal)
        except PathEnd:
            pass
        except SymRaise as e:
            self._end("raise", st, e.name)
        return self.obligations

    def _finish_normal(self, st):
        self._end("return", st, None)

    def _end(self, kind, st, value):
        self.paths += 1
        if self.paths > self.max_paths:
            raise Outside(f"more than {self.max_paths} paths")
        self.ended.append((kind, st, value))
        c = self.contract
        if kind == "return":
            env = {"result": value}
            for g, e in getattr(c, "ghost_at_exit", {}).items():
                st.ghost[g] = self.spec(st, e, extra_env=env, old=self.entry)
            # lemmas: proved here (an obligation like any other) and only then available to the postconditions - the
            # assert-then-use idiom for facts the solver does not find by itself (non-linear monotonicity instances)
            for label, e in labelled(getattr(c, "exit_lemmas", ()), "lemma"):
                try:
                    f = self.spec(st, e, extra_env=env, old=self.entry)
                except Outside:
                    continue
                self.oblige(st, f, f"lemma.{label}", "lemma")
                st.assume(f)
            for label, e in labelled(c.ensures, "post"):
                self.oblige(st, self.spec(st, e, extra_env=env, old=self.entry), f"ensures.{label}", "post")
            # a normal return must not happen where the contract says `raises`
            for exc, cond in c.raises.items():
                self.oblige(st, z3.Not(Zb(self.spec(self.entry_with_pc(st), cond))), f"raises.{exc}.not_returned", "raises")
            # ... the same with the condition read in the state the path ENDS in (ghost counters advanced along the way)
            for exc, cond in getattr(c, "raises_now", {}).items():
                self.oblige(st, z3.Not(Zb(self.spec(st, cond, extra_env=env, old=self.entry))), f"raises.{exc}.not_returned", "raises")
            for label, e in getattr(c, "canaries", ()):
                if label not in self._canaries_done:
                    try:
                        g = self.spec(st, e, extra_env=env, old=self.entry)
                    except Outside:
                        continue
                    # only on a path where the perturbed clause is genuinely undecided by the pc
                    if self.feasible(st, z3.Not(Zb(g))):
                        self._canaries_done.add(label)
                        self.canary(st, g, label)
        elif kind == "raise":
            exc = value
            if exc in c.raises:
                self.oblige(st, self.spec(self.entry_with_pc(st), c.raises[exc]), f"raises.{exc}.only_when", "raises")
            elif exc in getattr(c, "raises_now", {}):
                self.oblige(st, self.spec(st, c.raises_now[exc], old=self.entry), f"raises.{exc}.only_when", "raises")
            else:
                # undeclared exception: must be unreachable
                self.oblige(st, False, f"no_{exc}", "raises")
            if getattr(c, "frame_empty_on_raise", False):
                n0 = len(self.entry.writes)
                self.oblige(st, len(st.writes) == n0, f"on_{exc}.nothing_written", "frame")
            for label, e in labelled(c.ensures_raise.get(exc, ()), "rpost"):
                self.oblige(st, self.spec(st, e, old=self.entry), f"on_{exc}.{label}", "post")

    def entry_with_pc(self, st):
        e = self.entry.copy()
        e.pc = st.pc
        return e

    # -- statements ------------------------------------------------------------------------
    def _exec_block(self, stmts, st, k):
        """CPS: execute stmts in st, then continue with k(state)"""
        if not stmts:
            return k(st)
        head, rest = stmts[0], stmts[1:]
        return self._exec_stmt(head, st, lambda s: self._exec_block(rest, s, k))

    def _exec_stmt(self, n, st, k):
        ev = Evaluator(self, st)
        if isinstance(n, ast.Expr):
            if isinstance(n.value, ast.Constant):
                return k(st)  # docstring
            ev.eval(n.value)
            return k(st)
        if isinstance(n, ast.Pass):
            return k(st)
        if isinstance(n, ast.Delete):
            return k(st)
        if isinstance(n, (ast.Import, ast.ImportFrom)):
            return k(st)
        if isinstance(n, ast.FunctionDef):
            # a nested helper: bound to a callable that runs its (straight-line) body in place when called, reading the enclosing
            # function's locals as they are at the call (closure semantics for reads; it must not assign to them)
            if n.args.vararg or n.args.kwarg or n.args.kwonlyargs or n.args.defaults or n.decorator_list:
                raise Outside("nested function with defaults / varargs / decorators")
            params = [a.arg for a in n.args.args]

            def call(ev2, args, kwargs, node2, n=n, params=params):
                if kwargs or len(args) != len(params):
                    raise Outside("call form of a nested function")
                env = dict(ev2.st.env)
                env.update(dict(zip(params, args)))
                return self._exec_straightline(n, ev2.st, env)
            st.env[n.name] = PyCallable(call)
            return k(st)
        if isinstance(n, ast.With):
            # `with E as x: body` - the context expression is evaluated, bound, the body executed; leaving the block is the
            # context manager's business (closing a file / an archive) and has no effect the contracts track
            for item in n.items:
                v = ev.eval(item.context_expr)
                if item.optional_vars is not None:
                    self._assign(st, item.optional_vars, v, n)
            return self._exec_block(n.body, st, k)
        if isinstance(n, ast.Assign):
            v = ev.eval(n.value)
            for t in n.targets:
                self._assign(st, t, v, n)
            return k(st)
        if isinstance(n, ast.AnnAssign):
            if n.value is not None:
                self._assign(st, n.target, ev.eval(n.value), n)
            return k(st)
        if isinstance(n, ast.AugAssign):
            cur = ev.eval(_load(n.target))
            ev._aug_target = n.target
            self.aug_target = n.target      # visible to the contract's binop hook: `view op= x` writes through
            try:
                v = ev.binop(n.op, cur, ev.eval(n.value), n)
            finally:
                self.aug_target = None
            if isinstance(cur, Arr) and isinstance(v, Arr) and isinstance(n.target, ast.Name):
                # `a op= b` on an ndarray writes through (the name keeps denoting the same array)
                self._store(st, cur, ast.Slice(lower=None, upper=None, step=None), v, n, ev)
                return k(st)
            self._assign(st, n.target, v, n, aug=True)
            return k(st)
        if isinstance(n, ast.Assert):
            c = ev.eval(n.test)
            self.oblige(st, c, f"assert.L{n.lineno - self.fx.lineno}", "assert", n.lineno)
            st.assume(c)
            return k(st)
        if isinstance(n, ast.Return):
            v = ev.eval(n.value) if n.value is not None else None
            if getattr(self, "_finally_stack", None):
                return self._unwind(st, lambda s: self._end("return", s, v))
            return self._end("return", st, v)
        if isinstance(n, ast.Raise):
            name = _exc_name(n.exc, st)
            if getattr(self, "_finally_stack", None):
                return self._unwind(st, lambda s: self._end("raise", s, name))
            return self._end("raise", st, name)
        if isinstance(n, ast.If):
            c = ev.eval(n.test)
            return self._branch(st, c, lambda s: self._exec_block(n.body, s, k), lambda s: self._exec_block(n.orelse, s, k))
        if isinstance(n, ast.Try):
            return self._exec_try(n, st, k)
        if isinstance(n, (ast.Break, ast.Continue)) and getattr(self, "_finally_stack", None):
            raise Outside("break / continue inside try/finally")
        if isinstance(n, ast.Break):
            if not getattr(self, "_break_ks", None):
                raise Outside("break outside a loop")
            return self._break_ks[-1](st)
        if isinstance(n, ast.Continue):
            if not getattr(self, "_continue_ks", None):
                raise Outside("continue outside a loop")
            hook = self.contract.handlers.get("on_continue")
            if hook:
                hook(self, st, n)
            return self._continue_ks[-1](st)
        if isinstance(n, ast.While):
            return self._loop(n, st, k)
        if isinstance(n, ast.For):
            return self._loop(n, st, k)
        raise Outside(f"statement {type(n).__name__} at line {n.lineno}")

    def sym_raise(self, name):
        """to be called by handlers: raises `name` at this point of the symbolic execution"""
        ts = getattr(self, "_try_stack", [])
        raise SymRaise(name, ts[-1] if ts else None)

    def _unwind(self, st, then):
        """run the pending `finally` blocks, innermost first, then `then` (a return / raise leaving the try statements)"""
        stack = list(getattr(self, "_finally_stack", []))

        def run(i, s):
            if i < 0:
                return then(s)
            saved = self._finally_stack
            self._finally_stack = stack[:i]
            try:
                return self._exec_block(stack[i], s, lambda s2: run(i - 1, s2))
            finally:
                self._finally_stack = saved
        return run(len(stack) - 1, st)

    def _exec_try_finally(self, n, st, k):
        """try: body finally: final   (no handlers): the final block runs after the body on every way out of it - falling off the end,
        `return`, `raise`, an exception of a modelled call; `break` / `continue` out of it are outside the subset"""
        if not hasattr(self, "_finally_stack"):
            self._finally_stack = []
        self._finally_stack = self._finally_stack + [n.finalbody]
        depth = len(self._finally_stack)

        def after_body(s):
            self._finally_stack = self._finally_stack[: depth - 1]
            return self._exec_block(n.finalbody, s, k)

        try:
            return self._exec_block(n.body, st, after_body)
        except SymRaise:
            # an exception of a MODELLED call passing through the finally block: the state at the raise is not at hand here
            raise Outside("exception of a modelled call passing through try/finally")
        finally:
            self._finally_stack = self._finally_stack[: depth - 1]

    def _exec_try(self, n, st, k):
        if n.finalbody and not n.handlers and not n.orelse:
            return self._exec_try_finally(n, st, k)
        if n.finalbody or n.orelse:
            raise Outside("try/finally with handlers, or try/else")
        if not hasattr(self, "_try_stack"):
            self._try_stack = []
        token = object()
        self._try_stack.append(token)

        def after_body(s):
            if token in self._try_stack:
                self._try_stack.remove(token)  # the body is over: what follows is no longer protected
            return k(s)

        try:
            return self._exec_block(n.body, st, after_body)
        except SymRaise as e:
            if e.token is not token:
                raise
            if token in self._try_stack:
                self._try_stack.remove(token)
            for h in n.handlers:
                names = []
                if h.type is None:
                    names = None
                elif isinstance(h.type, ast.Tuple):
                    names = [ast.unparse(x).split(".")[-1] for x in h.type.elts]
                else:
                    names = [ast.unparse(h.type).split(".")[-1]]
                if names is None or e.name in names or "Exception" in names or "BaseException" in names:
                    if h.name:
                        st.env[h.name] = Opaque(e.name, "exc")
                    return self._exec_block(h.body, st, k)
            raise

    def _branch(self, st, c, kt, kf):
        th = self.contract.handlers.get("truthiness")
        if th is not None and not isinstance(c, bool) and not (is_z3(c) and z3.is_bool(c)):
            r = th(self, st, c)  # Python truthiness of a contract-side value (None-or-object arguments, strings)
            if r is not NotImplemented:
                c = r
        c = simp(Zb(c))
        if c is True:
            return kt(st)
        if c is False:
            return kf(st)
        st_t, st_f = st, st.copy()
        if self.feasible(st_t, c):
            st_t.pc.append(c)
            try:
                kt(st_t)
            except PathEnd:
                pass
            except SymRaise as e:
                if e.token is not None:
                    raise
                self._end("raise", st_t, e.name)
        nc = z3.Not(c)
        if self.feasible(st_f, nc):
            st_f.pc.append(nc)
            try:
                kf(st_f)
            except PathEnd:
                pass
            except SymRaise as e:
                if e.token is not None:
                    raise
                self._end("raise", st_f, e.name)

    # -- assignment ------------------------------------------------------------------------
    def _assign(self, st, t, v, node, aug=False):
        if isinstance(t, ast.Name):
            st.env[t.id] = v
            return
        if isinstance(t, (ast.Tuple, ast.List)):
            if not isinstance(v, (tuple, list)) or len(v) != len(t.elts):
                raise Outside("tuple unpacking of a non-tuple")
            for tt, vv in zip(t.elts, v):
                self._assign(st, tt, vv, node)
            return
        if isinstance(t, ast.Attribute):
            ev = Evaluator(self, st)
            o = ev.eval(t.value)
            if isinstance(o, Obj):
                st.fields[(o.oid, t.attr)] = v
                st.writes.append(("field", o.oid, t.attr))
                return
            raise Outside("attribute store on non-object")
        if isinstance(t, ast.Subscript):
            ev = Evaluator(self, st)
            base = ev.eval(t.value)
            return self._store(st, base, t.slice, v, node, ev)
        raise Outside(f"assignment target {type(t).__name__}")

    def _store(self, st, base, sl, v, node, ev):
        if hasattr(base, "sym_setitem"):
            return base.sym_setitem(sl, v, ev, node)
        if isinstance(base, list):
            # lists are immutable values: an item assignment with a literal index rebinds every local / attribute that holds the list
            i = simp(ev.eval(sl)) if not isinstance(sl, ast.Slice) else None
            if not isinstance(i, int) or not (-len(base) <= i < len(base)):
                raise Outside("list item assignment with a non-literal or out-of-range index")
            new = list(base)
            new[i] = v
            hit = False
            for k2, v2 in list(st.env.items()):
                if v2 is base:
                    st.env[k2] = new
                    hit = True
            for k2, v2 in list(st.fields.items()):
                if v2 is base:
                    st.fields[k2] = new
                    hit = True
            if not hit:
                raise Outside("item assignment to a list that is neither a local variable nor an attribute")
            return
        if isinstance(base, Row):
            raise Outside("store into matrix row outside a contract")
        if isinstance(base, Mat):
            raise Outside("store into matrix")
        if not isinstance(base, Arr):
            raise Outside(f"subscript store on {type(base).__name__}")
        root = st.heap[base.root]
        st.writes.append(("heap", root.owner, base.root))
        if getattr(self.contract, "no_param_writes", False) and str(root.owner).startswith("param:"):
            self.oblige(st, False, f"no_store_into_parameter.L{node.lineno - self.fx.lineno}", "frame", node.lineno)
        if getattr(self.contract, "param_writes_only_if", None) and str(root.owner).startswith("param:"):
            self.oblige(st, self.spec(st, self.contract.param_writes_only_if), f"store_into_parameter_allowed.L{node.lineno - self.fx.lineno}", "frame", node.lineno)
        if isinstance(sl, ast.Tuple) and len(sl.elts) == 2 and isinstance(sl.elts[0], ast.Constant) and sl.elts[0].value is Ellipsis \
                and isinstance(sl.elts[1], ast.Slice) and getattr(self.contract, "batched_last_axis", False):
            sl = sl.elts[1]
        if isinstance(sl, ast.Slice):
            tgt = ev.slice_view(base, sl, node)
            if tgt.step != 1:
                raise Outside("store through a reversed view")
            lo = Z(tgt.off)
            if isinstance(v, Arr):
                # numpy: shapes must match (or source length 1)
                self.oblige(st, Z(v.n) == Z(tgt.n), f"store_len.L{node.lineno - self.fx.lineno}", "wd", node.lineno)
                src = st.heap[v.root].content
                kk = z3.Int(f"k!{next(_fresh)}")
                new = z3.Lambda([kk], z3.If(z3.And(kk >= lo, kk < lo + Z(tgt.n)),
                                            z3.Select(src, Z(v.off) + v.step * (kk - lo)), z3.Select(root.content, kk)))
            elif is_num(v):
                kk = z3.Int(f"k!{next(_fresh)}")
                new = z3.Lambda([kk], z3.If(z3.And(kk >= lo, kk < lo + Z(tgt.n)), to_real(v), z3.Select(root.content, kk)))
            else:
                raise Outside("slice store of unsupported value")
            st.heap[base.root] = Root(root.length, new, root.dtype, root.owner)
            return
        # scalar index
        i = ev.eval(sl)
        j = ev.norm_index(base, i, node)
        st.heap[base.root] = Root(root.length, z3.Store(root.content, base.idx(j), to_real(v)), root.dtype, root.owner)

    # -- loops -----------------------------------------------------------------------------
    def _loop(self, n, st, k, start_override=None):
        ordinal = self.loop_ordinals[id(n)]
        spec = self.contract.loops.get(ordinal)
        if spec is None and isinstance(n, ast.For) and not n.orelse:
            # a loop whose iteration space is known now (tuple / list value, literal range, zip of those) and has no sidecar
            # invariant is executed as straight-line code, item by item (exact semantics; `break` leaves the loop)
            items = Evaluator(self, st)._concrete_items(n.iter)
            if items is not None and len(items) <= 64:
                def run_from(i, s1):
                    if i == len(items):
                        return k(s1)
                    self._assign(s1, n.target, items[i], n)
                    return self._loop_body(n.body, s1, lambda s2: run_from(i + 1, s2), break_k=k)
                return run_from(0, st)
        if spec is None:
            raise Outside(f"loop {ordinal} (line {n.lineno}) has no invariant in the sidecar")
        kind = "for" if isinstance(n, ast.For) else "while"
        if spec.peel and start_override is None:
            # peel the first iteration: it is executed as straight-line code (exact semantics of the loop), the
            # invariant then only has to describe iterations >= 1
            if kind != "for" or not (isinstance(n.iter, ast.Call) and getattr(n.iter.func, "id", None) == "range" and len(n.iter.args) == 1):
                raise Outside("peel is only implemented for `for v in range(n)`")
            ev0 = Evaluator(self, st)
            hi0 = ev0.eval(n.iter.args[0])

            def first(s1):
                s1.env[n.target.id] = 0
                self._loop_body(n.body, s1, lambda s2: self._loop(n, s2, k, start_override=1), break_k=k)

            return self._branch(st, Z(hi0) > 0, first, k)
        if spec.kind and spec.kind != kind:
            raise Outside(f"contract drift: loop {ordinal} is a {kind}, sidecar says {spec.kind}")
        lab = f"loop{ordinal}"
        ev = Evaluator(self, st)
        # desugar for-range
        it = None
        if kind == "for" and isinstance(n.iter, ast.Call) and isinstance(n.iter.func, ast.Name) and n.iter.func.id == "zip" \
                and isinstance(n.target, ast.Tuple) and len(n.target.elts) == len(n.iter.args) and all(isinstance(e, ast.Name) for e in n.target.elts):
            # for a, b in zip(X, Y): body   ==>   for __zi in range(min(len(X), len(Y))): a = X[__zi]; b = Y[__zi]; body
            def _unbounded(a):
                return isinstance(a, ast.Call) and isinstance(a.func, ast.Name) and a.func.id == "count"
            bounded = [a for a in n.iter.args if not _unbounded(a)]
            if not bounded:
                raise Outside("zip of unbounded iterators only")
            src = "for __zi in range(min(" + ", ".join(f"len({ast.unparse(a)})" for a in bounded) + ")):\n" + \
                  "".join(f"    {t.id} = {ast.unparse(a)}[__zi]\n" for t, a in zip(n.target.elts, n.iter.args)) + "    pass\n"
            new = ast.parse(src).body[0]
            for x in ast.walk(new):
                x.lineno = n.lineno
                x.col_offset = n.col_offset
            new.body = new.body[:-1] + n.body
            self.loop_ordinals[id(new)] = ordinal
            return self._loop(new, st, k, start_override)
        if kind == "for" and isinstance(n.iter, ast.Call) and isinstance(n.iter.func, ast.Name) and n.iter.func.id == "enumerate" \
                and isinstance(n.target, ast.Tuple) and len(n.target.elts) == 2 and isinstance(n.target.elts[0], ast.Name) \
                and (isinstance(n.target.elts[1], ast.Name) or (isinstance(n.target.elts[1], ast.Tuple) and all(isinstance(e, ast.Name) for e in n.target.elts[1].elts))) \
                and 1 <= len(n.iter.args) <= 2 and not n.iter.keywords:
            # for i, x in enumerate(SEQ, k): body   ==>   for __zi in range(len(SEQ)): i = k + __zi; x = SEQ[__zi]; body
            seq = ast.unparse(n.iter.args[0])
            k0 = ast.unparse(n.iter.args[1]) if len(n.iter.args) == 2 else "0"
            src = f"for __zi in range(len({seq})):\n    {n.target.elts[0].id} = ({k0}) + __zi\n    {ast.unparse(n.target.elts[1])} = ({seq})[__zi]\n    pass\n"
            new = ast.parse(src).body[0]
            for x in ast.walk(new):
                x.lineno = n.lineno
                x.col_offset = n.col_offset
            new.body = new.body[:-1] + n.body
            self.loop_ordinals[id(new)] = ordinal
            return self._loop(new, st, k, start_override)
        if kind == "for" and isinstance(n.iter, ast.GeneratorExp) and len(n.iter.generators) == 1 and not n.iter.generators[0].ifs \
                and isinstance(n.iter.generators[0].iter, ast.Call) and isinstance(n.iter.generators[0].iter.func, ast.Name) \
                and n.iter.generators[0].iter.func.id == "count" and len(n.iter.generators[0].iter.args) <= 1 \
                and isinstance(n.iter.generators[0].target, ast.Name) and not n.orelse \
                and not any(isinstance(x, ast.Continue) for b in n.body for x in ast.walk(b)):
            # for T in (E for V in count(a)): body   ==>   __cv = a; while True: V = __cv; T = E; body; __cv = __cv + 1
            # (an unbounded search that can only end with `break` / `return` / an exception; `continue` is outside the subset)
            g = n.iter.generators[0]
            a0 = ast.unparse(g.iter.args[0]) if g.iter.args else "0"
            src = f"while True:\n    {g.target.id} = __cv\n    {ast.unparse(n.target)} = {ast.unparse(n.iter.elt)}\n    pass\n    __cv = __cv + 1\n"
            new = ast.parse(src).body[0]
            for x in ast.walk(new):
                x.lineno = n.lineno
                x.col_offset = n.col_offset
            new.body = new.body[:2] + n.body + new.body[3:]
            self.loop_ordinals[id(new)] = ordinal
            st.env["__cv"] = Evaluator(self, st).eval(ast.parse(a0, mode="eval").body)
            return self._loop(new, st, k, start_override)
        if kind == "for" and not (isinstance(n.iter, ast.Call) and isinstance(n.iter.func, ast.Name) and n.iter.func.id in ("range", "zip")):
            # for t in SEQ (a symbolic sequence)   ==>   for __zi in range(len(SEQ)): t = SEQ[__zi]
            itv = Evaluator(self, st).eval(n.iter)
            seq_src = ast.unparse(n.iter)
            if hasattr(itv, "sym_iter"):
                # contract-supplied iteration protocol: the sequence the object yields in the CURRENT state, bound to a hidden name
                itv = itv.sym_iter(Evaluator(self, st), n)
                seq_src = f"__it{ordinal}"
                st.env[seq_src] = itv
            if isinstance(itv, SeqVal):
                src = f"for __zi in range(len({seq_src})):\n    {ast.unparse(n.target)} = ({seq_src})[__zi]\n    pass\n"
                new = ast.parse(src).body[0]
                for x in ast.walk(new):
                    x.lineno = n.lineno
                    x.col_offset = n.col_offset
                new.body = new.body[:-1] + n.body
                self.loop_ordinals[id(new)] = ordinal
                return self._loop(new, st, k, start_override)
            raise Outside("for loop over a non-range")
        if kind == "for":
            if not (isinstance(n.iter, ast.Call) and isinstance(n.iter.func, ast.Name) and n.iter.func.id == "range"):
                raise Outside("for loop over a non-range")
            if not isinstance(n.target, ast.Name):
                raise Outside("for target")
            if spec.var and spec.var != n.target.id:
                raise Outside(f"contract drift: loop {ordinal} variable is {n.target.id}, sidecar says {spec.var}")
            args = [ev.eval(a) for a in n.iter.args]
            if len(args) == 1:
                lo, hi, stp = 0, args[0], 1
            elif len(args) == 2:
                lo, hi, stp = args[0], args[1], 1
            else:
                lo, hi, stp = args
            if not (isinstance(stp, int) and stp > 0):
                raise Outside("range step must be a positive literal")
            if start_override is not None:
                lo = start_override
            it = (n.target.id, lo, hi, stp)
            st.env[n.target.id] = lo
            st.env["__lo"], st.env["__hi"] = lo, hi
        for name, fn in spec.convert.items():
            if name in st.env:
                st.env[name] = fn(st, st.env[name])
        # 1. invariant on entry
        for label, inv in labelled(spec.invariant, "inv"):
            self.oblige(st, self.spec(st, inv), f"{lab}.{label}.entry", "inv", n.lineno)
        # 2. havoc what the body assigns
        assigned = _assigned_names(n.body)
        if it:
            assigned.add(it[0])
        for sub in ast.walk(ast.Module(body=n.body, type_ignores=[])):
            # `name[i] = v` on a Python list rebinds the name (lists are values): treated as an assignment of the name
            if isinstance(sub, ast.Subscript) and isinstance(sub.ctx, ast.Store) and isinstance(sub.value, ast.Name) and isinstance(st.env.get(sub.value.id), list):
                if sub.value.id not in spec.types:
                    raise Outside(f"list {sub.value.id} is mutated inside loop {ordinal}: the sidecar must say what it holds at the loop head")
                assigned.add(sub.value.id)
        hst = st.copy()
        for name in assigned:
            if name in hst.env:
                if name in spec.types and callable(spec.types[name]):
                    hst.env[name] = spec.types[name](hst, hst.env[name])
                elif name in spec.types:
                    hst.env[name] = fresh(name, spec.types[name])
                else:
                    hst.env[name] = self._havoc_like(hst, hst.env[name], name)
            # names first assigned inside the loop stay unbound at the head
        for (attr) in set(_assigned_self_fields(n.body)) | set(spec.modifies_fields):
            key = self._self_key(hst, attr)
            if key in hst.fields:
                hst.fields[key] = self._havoc_like(hst, hst.fields[key], attr)
        for rid_expr in set(spec.modifies_roots) | set(_stored_self_arrays(n.body)) | set(_stored_local_arrays(n.body, st)):
            arr = self.spec(hst, rid_expr) if isinstance(rid_expr, str) else rid_expr
            if isinstance(arr, Arr) and arr.root in hst.heap:
                r = hst.heap[arr.root]
                hst.heap[arr.root] = Root(r.length, fresh("hv", "arr"), r.dtype, r.owner)
        for g in list(spec.ghost_update or {}) + list(spec.modifies_ghost):
            if g in hst.ghost:
                hst.ghost[g] = self._havoc_like(hst, hst.ghost[g], g)
        if it:
            v = hst.env[it[0]]
            # loop variable ranges over lo, lo+stp, ... ; at the head lo <= v (<= hi bound when nonempty)
            hst.assume(Z(v) >= Z(it[1]))
            if it[3] != 1:
                q = fresh("q")
                hst.assume(z3.And(q >= 0, Z(v) == Z(it[1]) + it[3] * q))
        # 3. assume the invariant
        for label, inv in labelled(spec.invariant, "inv"):
            hst.assume(self.spec(hst, inv))
        # 4. test
        hev = Evaluator(self, hst)
        if it:
            test = Z(hst.env[it[0]]) < Z(it[2])
        else:
            tv = hev.eval(n.test)
            th = self.contract.handlers.get("truthiness")
            if th is not None and not isinstance(tv, bool) and not (is_z3(tv) and z3.is_bool(tv)):
                r = th(self, hst, tv)           # `while obj:` on a contract-side value
                if r is not NotImplemented:
                    tv = r
            test = Zb(tv)
        if n.orelse:
            raise Outside("loop else")
        # body branch
        bst = hst.copy()
        if self.feasible(bst, test):
            bst.pc.append(test)
            dec0 = self.spec(bst, spec.decreases) if spec.decreases else None

            def after_body(s, dec0=dec0):
                if it:
                    s.env[it[0]] = simp(Z(s.env[it[0]]) + it[3])
                for g, e in (spec.ghost_update or {}).items():
                    s.ghost[g] = self.spec(s, e)
                for label, inv in labelled(spec.invariant, "inv"):
                    self.oblige(s, self.spec(s, inv), f"{lab}.{label}.preserved", "inv", n.lineno)
                if dec0 is not None:
                    d1 = self.spec(s, spec.decreases)
                    self.oblige(s, z3.And(Z(d1) < Z(dec0), Z(dec0) >= 0) if not it else True, f"{lab}.decreases", "term", n.lineno)
                self.paths += 1

            def on_break(sb):
                if it:
                    sb.env.pop("__lo", None)
                    sb.env.pop("__hi", None)
                self.paths += 1
                k(sb)

            try:
                self._loop_body(n.body, bst, after_body, break_k=on_break)
            except PathEnd:
                pass
        # exit branch
        xst = hst
        ntest = z3.Not(test)
        if self.feasible(xst, ntest):
            xst.pc.append(ntest)
            if it:
                xst.env.pop("__lo", None)
                xst.env.pop("__hi", None)
            k(xst)

    def _loop_body(self, body, st, after, break_k=None):
        # `break` continues with the code after the loop, in the (inductive) state it is reached in; `continue` with what follows
        # the body (`after`: increment, invariant preservation) - a hook of the contract may state obligations at that point
        if not hasattr(self, "_break_ks"):
            self._break_ks = []
        if not hasattr(self, "_continue_ks"):
            self._continue_ks = []
        self._break_ks.append(break_k)
        self._continue_ks.append(after)
        try:
            self._exec_block(body, st, after)
        finally:
            self._break_ks.pop()
            self._continue_ks.pop()

    def _self_key(self, st, attr):
        o = st.env.get("self")
        if not isinstance(o, Obj):
            raise Outside("self is not an object")
        return (o.oid, attr)

    def _havoc_like(self, st, v, name):
        if is_z3(v) and z3.is_array_sort(v):          # first: a Lambda is a QuantifierRef, which z3py also counts as a BoolRef
            return z3.FreshConst(v.sort(), name)
        if isinstance(v, bool) or (is_z3(v) and z3.is_bool(v)):
            return fresh(name, "bool")
        if is_int(v):
            return fresh(name, "int")
        if is_real(v):
            return fresh(name, "real")
        if is_z3(v) and (z3.is_array(v) or z3.is_quantifier(v)):
            return z3.FreshConst(v.sort(), name)
        if isinstance(v, Arr):
            # a rebinding of an array variable inside a loop: unknown view of the same root
            return Arr(v.root, fresh(name + "_off"), v.step, fresh(name + "_n"), v.conj)
        if v is None or isinstance(v, (str, tuple, list, Obj, Mat, Row, Opaque)):
            return v
        raise Outside(f"cannot havoc {name}: {type(v).__name__}")


def _load(t):
    t2 = ast.parse(ast.unparse(t), mode="eval").body
    ast.copy_location(t2, t)
    for n in ast.walk(t2):
        if not hasattr(n, "lineno"):
            n.lineno = getattr(t, "lineno", 0)
            n.col_offset = 0
    return t2


def _exc_name(e, st):
    if e is None:
        return "reraise"
    if isinstance(e, ast.Call):
        e = e.func
    if isinstance(e, ast.Name):
        v = st.env.get(e.id)
        if isinstance(v, Opaque) and v.kind == "exc":
            return v.term
        return e.id
    if isinstance(e, ast.Attribute):
        return e.attr
    raise Outside("raise expression")


def _assigned_names(body):
    out = set()
    for n in ast.walk(ast.Module(body=body, type_ignores=[])):
        if isinstance(n, ast.Name) and isinstance(n.ctx, ast.Store):
            out.add(n.id)
    return out


def _assigned_self_fields(body):
    out = []
    for n in ast.walk(ast.Module(body=body, type_ignores=[])):
        if isinstance(n, ast.Attribute) and isinstance(n.ctx, ast.Store) and isinstance(n.value, ast.Name) and n.value.id == "self":
            out.append(n.attr)
    return out


def _stored_local_arrays(body, st):
    """arrays (as bound at the loop head) that the body stores into through a local name"""
    out = []
    for n in ast.walk(ast.Module(body=body, type_ignores=[])):
        if isinstance(n, ast.Subscript) and isinstance(n.ctx, ast.Store) and isinstance(n.value, ast.Name):
            v = st.env.get(n.value.id)
            if isinstance(v, Arr):
                out.append(v)
    return out


def _stored_self_arrays(body):
    out = []
    for n in ast.walk(ast.Module(body=body, type_ignores=[])):
        if isinstance(n, ast.Subscript) and isinstance(n.ctx, ast.Store):
            b = n.value
            if isinstance(b, ast.Attribute) and isinstance(b.value, ast.Name) and b.value.id == "self":
                out.append(f"self.{b.attr}")
    return out


# ------------------------------------------------------------------------------------------
# expression evaluation
# ------------------------------------------------------------------------------------------


class Evaluator:
    def __init__(self, ex, st, spec_mode=False, extra_env=None, old=None):
        self.ex, self.st, self.spec_mode = ex, st, spec_mode
        self.extra = extra_env or {}
        self.old = old

    def wd(self, goal, label, node):
        """well-definedness obligation (skipped when evaluating a contract expression)"""
        if not self.spec_mode:
            self.ex.oblige(self.st, goal, f"{label}.L{node.lineno - self.ex.fx.lineno}", "wd", node.lineno)
            self.st.assume(goal)

    def eval(self, n):
        m = getattr(self, "e_" + type(n).__name__, None)
        if m is None:
            raise Outside(f"expression {type(n).__name__} at line {getattr(n, 'lineno', '?')}")
        return m(n)

    # -- leaves ----------------------------------------------------------------------------
    def e_Constant(self, n):
        v = n.value
        if isinstance(v, float):
            return Fraction(repr(v)) if "e" not in repr(v) and "inf" not in repr(v) and "nan" not in repr(v) else Fraction(v).limit_denominator(10 ** 30) if False else _frac(v)
        return v

    def e_Name(self, n):
        if n.id in self.extra:
            return self.extra[n.id]
        if n.id in self.st.env:
            return self.st.env[n.id]
        if n.id in self.st.ghost:
            return self.st.ghost[n.id]
        if n.id in self.ex.contract.consts:
            return self.ex.contract.consts[n.id]
        if n.id in ("True", "False", "None"):
            return {"True": True, "False": False, "None": None}[n.id]
        if n.id in BUILTIN_NAMES or n.id in self.ex.contract.handlers:
            return Builtin(n.id)
        if self.spec_mode and n.id in self.ex.contract.lets:
            return self.ex.spec(self.st, self.ex.contract.lets[n.id], extra_env=self.extra, old=self.old)
        if not self.spec_mode:
            r = self.ex._module_level(n.id)
            if r is not NotImplemented:
                return r
        raise Outside(f"unbound name {n.id} (line {getattr(n, 'lineno', '?')})")

    def e_Tuple(self, n):
        return tuple(self.eval(e) for e in n.elts)

    def e_List(self, n):
        return [self.eval(e) for e in n.elts]

    def e_Dict(self, n):
        """{k: v, ...} with literal or symbolic scalar keys (no ** unpacking): a Python dict of the evaluated items"""
        if any(k is None for k in n.keys):
            raise Outside("dict display with ** unpacking")
        out = {}
        for k, v in zip(n.keys, n.values):
            kv = self.eval(k)
            if not (isinstance(kv, (str, int)) or is_z3(kv)):
                raise Outside("dict display key")
            out[kv] = self.eval(v)
        return out

    def e_Set(self, n):
        vals = [self.eval(e) for e in n.elts]
        if not all(v is None or isinstance(v, (str, int)) for v in vals):
            raise Outside("set of non-literals")
        return frozenset(vals)

    def e_JoinedStr(self, n):
        return "<formatted string>"

    def e_Attribute(self, n):
        # module-qualified names (np.pad, config.LOG_FLOOR_VALUE, np.fft.rfft) stay symbolic paths
        dotted = _dotted(n)
        if dotted is not None and dotted.split(".")[0] in MODULE_ALIASES and dotted.split(".")[0] not in self.st.env:
            if dotted in self.ex.contract.consts:
                return self.ex.contract.consts[dotted]
            return Builtin(dotted)
        o = self.eval(n.value)
        if hasattr(o, "sym_getattr"):
            return o.sym_getattr(n.attr, self, n)
        if isinstance(o, (Prod, Opaque)) or is_z3(o):
            h = self.ex.contract.handlers.get("attr_any")
            if h:
                r = h(self.ex, self.st, o, n.attr, n, self)
                if r is not NotImplemented:
                    return r
        if isinstance(o, Obj):
            key = (o.oid, n.attr)
            if key in self.st.fields:
                return self.st.fields[key]
            h = self.ex.contract.handlers.get(f"attr:{n.attr}")
            if h:
                return h(self.ex, self.st, o, n)
            if o.oid == "self" and self.ex._is_property(n.attr):
                r = self.ex._inline_helper(o, n.attr, self.st, [], {}, n, self)     # a straight-line @property of the same class
                if r is not NotImplemented:
                    return r
            return Method(o, n.attr)
        if isinstance(o, Arr):
            if ("arr." + n.attr) in self.ex.contract.handlers:
                return Method(o, n.attr)
            if n.attr == "real":
                return o
            if n.attr in ("conj",):
                return Method(o, n.attr)
            if n.attr == "dtype":
                return Opaque(self.st.heap[o.root].dtype, "dtype")
            if n.attr in ("flat", "T", "shape", "size", "ndim"):
                if n.attr == "size":
                    return o.n
                if n.attr == "ndim":
                    return 1
                if n.attr == "shape":
                    return (o.n,)
            return Method(o, n.attr)
        if isinstance(o, Mat):
            if n.attr == "shape":
                return (o.rows, o.cols)
            if n.attr == "dtype":
                return Opaque(o.dtype, "dtype")
        if isinstance(o, Opaque):
            return Method(o, n.attr)
        if isinstance(o, list):
            return Method(o, n.attr)
        if isinstance(o, str) and ("str." + n.attr) in self.ex.contract.handlers and n.attr != "format":
            hm = self.ex.contract.handlers["str." + n.attr]        # a method of a string LITERAL with a contract (" ".join(tokens), ...)
            return PyCallable(lambda ev2, args, kwargs, node: hm(ev2.ex, ev2.st, o, args, kwargs, node, ev2))
        if isinstance(o, str) and n.attr == "format":
            hf = self.ex.contract.handlers.get("str.format")      # a contract may give formatted strings a meaning (keys built from a counter)
            if hf is not None:
                return PyCallable(lambda ev2, args, kwargs, node: hf(ev2.ex, ev2.st, o, args, kwargs, node, ev2))
            return PyCallable(lambda ev2, args, kwargs, node: "<formatted string>")
        h = self.ex.contract.handlers.get("attr_any")
        if h:
            r = h(self.ex, self.st, o, n.attr, n, self)
            if r is not NotImplemented:
                return r
        if isinstance(o, Prod) and n.attr == "astype":
            return Method(o, "astype")
        raise Outside(f"attribute .{n.attr} of {type(o).__name__}")

    # -- operators -------------------------------------------------------------------------
    def e_UnaryOp(self, n):
        v = self.eval(n.operand)
        if isinstance(n.op, ast.Not):
            b = Zb(v)
            return simp(z3.Not(b))
        if isinstance(n.op, ast.USub):
            if concrete(v) and isinstance(v, (int, Fraction, complex)):
                return -v
            return -Z(to_num(v))
        if isinstance(n.op, ast.UAdd):
            return v
        raise Outside("unary op")

    def e_BoolOp(self, n):
        # operands are evaluated left to right and evaluation stops as soon as a concretely decided operand settles the result
        # (Python's short circuit); symbolic operands are all evaluated (they are side-effect free in the subset)
        is_and = isinstance(n.op, ast.And)
        vals = []
        for vn in n.values:
            v = self.eval(vn)
            t = simp(Zb(v)) if not isinstance(v, (Arr, Prod)) else None
            if t is (False if is_and else True) and not vals:
                return v
            if t is (False if is_and else True):
                vals.append(v)
                break
            vals.append(v)
        if len(vals) == 1:
            return vals[0]
        if all(is_bool(v) for v in vals):
            bs = [Zb(v) for v in vals]
            return simp(z3.And(*bs) if is_and else z3.Or(*bs))
        # value-returning and/or: decide as far as the operands' truthiness is concrete, else fall back to the truth value
        cur = vals[0]
        for v in vals[1:]:
            t = simp(Zb(cur))
            if t is True:
                cur = v if is_and else cur
                if not is_and:
                    return cur
            elif t is False:
                if is_and:
                    return cur
                cur = v
            else:
                return simp(z3.And(*[Zb(x) for x in vals]) if is_and else z3.Or(*[Zb(x) for x in vals]))
        return cur

    def e_Compare(self, n):
        left = self.eval(n.left)
        out = []
        for op, rn in zip(n.ops, n.comparators):
            right = self.eval(rn)
            out.append(self.compare(op, left, right, n))
            left = right
        return simp(z3.And(*[Zb(o) for o in out])) if len(out) > 1 else out[0]

    def compare(self, op, a, b, n):
        hc = self.ex.contract.handlers.get("compare")
        if hc is not None:
            r = hc(self.ex, self.st, op, a, b, n, self)
            if r is not NotImplemented:
                return r
        if isinstance(op, (ast.Is, ast.IsNot)):
            if b is None or a is None:
                r = (a is None) and (b is None)
                if (a is None) != (b is None) and (is_z3(a) or is_z3(b) or a is not None or b is not None):
                    r = False
                return r if isinstance(op, ast.Is) else (not r)
            raise Outside("`is` on non-None")
        if isinstance(op, (ast.In, ast.NotIn)):
            if isinstance(b, (tuple, list, set, frozenset)):
                r = simp(z3.Or(*[Zb(self.compare(ast.Eq(), a, e, n)) for e in b])) if b else False
                return r if isinstance(op, ast.In) else simp(z3.Not(Zb(r)))
            raise Outside("`in` on non-literal container")
        if a is None or b is None:
            if isinstance(op, ast.Eq):
                return a is None and b is None
            if isinstance(op, ast.NotEq):
                return not (a is None and b is None)
            raise Outside("ordering comparison with None")
        if isinstance(a, Opaque) or isinstance(b, Opaque):
            if isinstance(a, Opaque) and isinstance(b, Opaque) and concrete(a.term) and concrete(b.term):
                r = a.term == b.term
            elif isinstance(a, Opaque) and isinstance(b, Opaque):
                r = Z(a.term) == Z(b.term)
            else:
                raise Outside("comparison of opaque with non-opaque")
            if isinstance(op, ast.Eq):
                return r
            if isinstance(op, ast.NotEq):
                return simp(z3.Not(Zb(r)))
            raise Outside("ordering of opaque values")
        if isinstance(a, str) and isinstance(b, str):
            return {ast.Eq: a == b, ast.NotEq: a != b}[type(op)]
        if isinstance(a, (tuple, list)) and isinstance(b, (tuple, list)):
            if isinstance(op, (ast.Eq, ast.NotEq)):
                if len(a) != len(b):
                    r = False
                else:
                    r = simp(z3.And(*[Zb(self.compare(ast.Eq(), x, y, n)) for x, y in zip(a, b)])) if a else True
                return r if isinstance(op, ast.Eq) else simp(z3.Not(Zb(r)))
        if is_z3(a) and z3.is_string(a) or is_z3(b) and z3.is_string(b):
            r = Z(a) == Z(b)
            return simp(r if isinstance(op, ast.Eq) else z3.Not(r))
        a, b = to_num(a), to_num(b)
        if concrete(a) and concrete(b):
            import operator as o
            plain = (int, float, Fraction, bool, str, bytes, type(None), frozenset)
            if not (isinstance(a, plain) and isinstance(b, plain)):
                # a value the executor only carries around (a method, an object, a contract-side model) compared as if it were a constant:
                # Python's default equality would silently decide the branch
                raise Outside(f"comparison of {type(a).__name__} with {type(b).__name__}")
            return {ast.Eq: o.eq, ast.NotEq: o.ne, ast.Lt: o.lt, ast.LtE: o.le, ast.Gt: o.gt, ast.GtE: o.ge}[type(op)](a, b)
        za, zb = Z(a), Z(b)
        if z3.is_bool(za) and z3.is_bool(zb):
            r = za == zb
            return simp(r if isinstance(op, ast.Eq) else z3.Not(r))
        if z3.is_real(za) != z3.is_real(zb):
            za, zb = to_real(za), to_real(zb)
        r = {ast.Eq: lambda: za == zb, ast.NotEq: lambda: za != zb, ast.Lt: lambda: za < zb, ast.LtE: lambda: za <= zb,
             ast.Gt: lambda: za > zb, ast.GtE: lambda: za >= zb}[type(op)]()
        return simp(r)

    def e_BinOp(self, n):
        return self.binop(n.op, self.eval(n.left), self.eval(n.right), n)

    def binop(self, op, a, b, n):
        # Python sequences: repetition by a literal count, concatenation
        if isinstance(op, ast.Mult) and isinstance(a, (list, tuple)) and isinstance(simp(b) if is_z3(b) else b, int) and not isinstance(b, bool):
            return type(a)(list(a) * int(simp(b) if is_z3(b) else b))
        if isinstance(op, ast.Add) and isinstance(a, list) and isinstance(b, list):
            return a + b
        if isinstance(op, ast.Add) and isinstance(a, tuple) and isinstance(b, tuple):
            return a + b
        # array algebra first
        if isinstance(a, (Arr, Prod)) or isinstance(b, (Arr, Prod)):
            return self.arr_binop(op, a, b, n)
        h = self.ex.contract.handlers.get("binop")
        if h:
            r = h(self.ex, self.st, op, a, b, n)
            if r is not NotImplemented:
                return r
        if isinstance(a, Opaque) or isinstance(b, Opaque):
            raise Outside("arithmetic on opaque value")
        if isinstance(op, (ast.BitAnd, ast.BitOr)) and is_bool(a) and is_bool(b):
            return simp(z3.And(Zb(a), Zb(b)) if isinstance(op, ast.BitAnd) else z3.Or(Zb(a), Zb(b)))
        a, b = to_num(a), to_num(b)
        if concrete(a) and concrete(b) and isinstance(a, (int, Fraction)) and isinstance(b, (int, Fraction)):
            if isinstance(op, ast.Add):
                return a + b
            if isinstance(op, ast.Sub):
                return a - b
            if isinstance(op, ast.Mult):
                return a * b
            if isinstance(op, ast.Div):
                self.wd(b != 0, "div0", n)
                return Fraction(a) / Fraction(b)
            if isinstance(op, ast.FloorDiv) and isinstance(a, int) and isinstance(b, int):
                self.wd(b != 0, "div0", n)
                return a // b
            if isinstance(op, ast.Mod) and isinstance(a, int) and isinstance(b, int):
                self.wd(b != 0, "div0", n)
                return a % b
            if isinstance(op, ast.Pow) and isinstance(b, int) and b >= 0:
                return a ** b
            if isinstance(op, ast.LShift) and isinstance(a, int) and isinstance(b, int):
                return a << b
        za, zb = Z(a), Z(b)
        real = z3.is_real(za) or z3.is_real(zb)
        if isinstance(op, (ast.BitAnd, ast.BitOr)) and z3.is_bool(za) and z3.is_bool(zb):
            return simp(z3.And(za, zb) if isinstance(op, ast.BitAnd) else z3.Or(za, zb))
        if isinstance(op, ast.Add):
            return simp((to_real(za) + to_real(zb)) if real else za + zb)
        if isinstance(op, ast.Sub):
            return simp((to_real(za) - to_real(zb)) if real else za - zb)
        if isinstance(op, ast.Mult):
            return simp((to_real(za) * to_real(zb)) if real else za * zb)
        if isinstance(op, ast.Div):
            self.wd(zb != 0, "div0", n)
            return simp(to_real(za) / to_real(zb))
        if isinstance(op, (ast.FloorDiv, ast.Mod)):
            if real:
                # float // positive-literal : the floor of the quotient, as a float (Python's float floor division)
                if isinstance(op, ast.FloorDiv) and concrete(b) and b > 0:
                    return simp(z3.ToReal(z3.ToInt(to_real(za) / to_real(zb))))
                raise Outside("floor division of reals")
            return self.floordivmod(op, za, zb, n)
        if isinstance(op, (ast.LShift, ast.RShift)) and not real and concrete(b) and isinstance(b, int) and 0 <= b <= 64:
            # Python ints: x << k == x * 2**k, x >> k == floor(x / 2**k) (z3's Int division by a positive constant is the floor)
            return simp(za * (1 << b)) if isinstance(op, ast.LShift) else simp(za / (1 << b))
        if isinstance(op, ast.Pow):
            if concrete(b) and isinstance(b, int) and 0 <= b <= 4:
                r = z3.RealVal(1) if real else z3.IntVal(1)
                for _ in range(b):
                    r = r * za
                return simp(r)
            if concrete(b) and b == Fraction(1, 2):
                return self.ex.call_builtin("np.sqrt", self.st, [za], {}, n, self)
            if concrete(a) and a == 2:
                return self.ex.call_builtin("pow2", self.st, [zb], {}, n, self)
            raise Outside("general power")
        raise Outside(f"binary operator {type(op).__name__}")

    def floordivmod(self, op, za, zb, n):
        """Python floor semantics. z3's div/mod are Euclidean: equal to floor div/mod when the
        divisor is positive; for a negative divisor the result is adjusted."""
        self.wd(zb != 0, "div0", n)
        sb = simp(zb > 0)
        if str(zb) in getattr(self.ex, "positive", ()):
            sb = True  # declared positive by the contract's `requires` (checked there)
        if sb is True:
            return simp(za / zb) if isinstance(op, ast.FloorDiv) else simp(za % zb)
        q, r = za / zb, za % zb  # Euclidean: a = q*b + r, 0 <= r < |b|
        if isinstance(op, ast.FloorDiv):
            return simp(z3.If(zb > 0, q, z3.If(r == 0, q, q - 1)))
        return simp(z3.If(zb > 0, r, z3.If(r == 0, r, r + zb)))

    def arr_binop(self, op, a, b, n):
        if isinstance(op, ast.Mult) and getattr(self.ex.contract, "lazy_products", True):
            fa = a.factors if isinstance(a, Prod) else [a]
            fb = b.factors if isinstance(b, Prod) else [b]
            if all(isinstance(x, Arr) for x in fa + fb):
                na = a.n
                nb = b.n
                # numpy broadcasting of 1-D operands: equal lengths (length-1 broadcasting is
                # excluded by obligation, it would silently change the meaning of the product)
                self.wd(Z(na) == Z(nb), "bcast", n)
                return Prod(fa + fb, na)
            # scalar * array : opaque scaled view is outside (handled by contracts' handlers)
        h = self.ex.contract.handlers.get("arr_binop")
        if h:
            return h(self.ex, self.st, op, a, b, n, self)
        raise Outside(f"array arithmetic {type(op).__name__}")

    def e_IfExp(self, n):
        c = simp(Zb(self.eval(n.test)))
        if c is True:
            return self.eval(n.body)
        if c is False:
            return self.eval(n.orelse)
        a, b = self.eval(n.body), self.eval(n.orelse)
        if is_num(a) and is_num(b):
            za, zb = Z(to_num(a)), Z(to_num(b))
            if z3.is_real(za) != z3.is_real(zb):
                za, zb = to_real(za), to_real(zb)
            return z3.If(c, za, zb)
        if isinstance(a, (tuple, list)) and isinstance(b, (tuple, list)) and len(a) == len(b):
            return tuple(z3.If(c, Z(to_num(x)), Z(to_num(y))) for x, y in zip(a, b))
        if isinstance(a, str) and isinstance(b, str):
            return a if a == b else Opaque(("ite", c, a, b), "str")  # only ever used as message text
        raise Outside("conditional expression over non-numbers")

    # -- subscripts ------------------------------------------------------------------------
    def e_Subscript(self, n):
        base = self.eval(n.value)
        if isinstance(base, (tuple, list)):
            if isinstance(n.slice, ast.Slice):
                lo = self.eval(n.slice.lower) if n.slice.lower else None
                hi = self.eval(n.slice.upper) if n.slice.upper else None
                if (lo is None or isinstance(lo, int)) and (hi is None or isinstance(hi, int)) and n.slice.step is None:
                    return base[lo:hi]
                raise Outside("symbolic slice of a tuple")
            i = simp(self.eval(n.slice))
            if isinstance(i, int):
                return base[i]
            raise Outside("symbolic index into a tuple")
        if isinstance(base, SeqVal):
            if isinstance(n.slice, ast.Slice):
                # seq[a:b] with literal (possibly negative) bounds of a symbolic sequence of length n >= |a|, |b|
                if n.slice.step is not None or base.n is None:
                    raise Outside("sequence slice form")
                lo = simp(self.eval(n.slice.lower)) if n.slice.lower is not None else 0
                hi = simp(self.eval(n.slice.upper)) if n.slice.upper is not None else None
                if not isinstance(lo, int) or not (hi is None or isinstance(hi, int)):
                    raise Outside("symbolic bounds in a sequence slice")
                nn = Z(base.n)
                zlo = (nn + lo) if lo < 0 else z3.IntVal(lo)
                zhi = nn if hi is None else ((nn + hi) if hi < 0 else z3.IntVal(hi))
                self.wd(z3.And(zlo >= 0, zhi <= nn), "sequence_slice_within_bounds", n)  # (no clamping is modelled)
                length = simp(z3.If(zhi > zlo, zhi - zlo, 0))
                g = base.getter
                return SeqVal(length, lambda i: g(simp(zlo + Z(i))))
            i = self.eval(n.slice)
            return base.get(self, i, n)
        if isinstance(base, Mat):
            if isinstance(n.slice, ast.Tuple):
                elts = n.slice.elts
                if len(elts) == 2 and isinstance(elts[1], ast.Slice) and elts[1].lower is None and elts[1].upper is None:
                    i = self.eval(elts[0])
                    self.wd(z3.And(Z(i) >= 0, Z(i) < Z(base.rows)), "row_index", n)
                    return Row(base, i)
                raise Outside("matrix subscript")
            if isinstance(n.slice, ast.Slice):
                # m[:k] : the first rows of a matrix (row contents are not tracked, only the count; slice.indices semantics)
                if n.slice.lower is None and n.slice.step is None and n.slice.upper is not None:
                    k, r = Z(self.eval(n.slice.upper)), Z(base.rows)
                    rows = simp(z3.If(k < 0, z3.If(r + k < 0, 0, r + k), z3.If(k < r, k, r)))
                    m = Mat(f"{base.name}[:k{next(_fresh)}]", rows, base.cols, base.dtype)
                    m.prefix_of = base.name
                    return m
                raise Outside("matrix row slice")
            i = self.eval(n.slice)
            self.wd(z3.And(Z(i) >= 0, Z(i) < Z(base.rows)), "row_index", n)
            return Row(base, i)
        if isinstance(base, Arr):
            if isinstance(n.slice, ast.Slice):
                return self.slice_view(base, n.slice, n)
            if isinstance(n.slice, ast.Tuple):
                e = n.slice.elts
                if len(e) == 2 and isinstance(e[0], ast.Constant) and e[0].value is Ellipsis and isinstance(e[1], ast.Slice) \
                        and getattr(self.ex.contract, "batched_last_axis", False):
                    # x[..., a:b] on a tensor whose leading (batch) axes are carried implicitly: slice of the last axis
                    return self.slice_view(base, e[1], n)
                raise Outside("multi-dimensional subscript of a 1-D array")
            i = self.eval(n.slice)
            if isinstance(i, tuple):
                # a[(None, .., slice(None), ..)] and the like: left to the contract (broadcast views)
                h = self.ex.contract.handlers.get("arr.tuple_index")
                if h is None:
                    raise Outside("tuple index into a 1-D array")
                return h(self.ex, self.st, base, i, n, self)
            j = self.norm_index(base, i, n)
            return self.st.select(base, j)
        if is_z3(base) and z3.is_array(base):
            i = self.eval(n.slice)
            return z3.Select(base, Z(i))
        if hasattr(base, "sym_getitem"):
            return base.sym_getitem(n.slice, self, n)
        raise Outside(f"subscript of {type(base).__name__}")

    def norm_index(self, arr, i, n):
        zi, zn = Z(i), Z(arr.n)
        if self.spec_mode:
            return zi
        j = simp(z3.If(zi < 0, zi + zn, zi))
        self.wd(z3.And(Z(j) >= 0, Z(j) < zn), "index", n)
        return j

    def slice_view(self, arr, sl, node):
        step = self.eval(sl.step) if sl.step is not None else 1
        step = simp(step) if step is not None else 1
        if step is None:
            step = 1
        if step not in (1, -1):
            raise Outside("slice step other than +-1")
        lo = self.eval(sl.lower) if sl.lower is not None else None
        hi = self.eval(sl.upper) if sl.upper is not None else None
        n = Z(arr.n)

        def clamp(v, a, b):
            return z3.If(v < a, a, z3.If(v > b, b, v))

        if step == 1:
            s0 = z3.IntVal(0) if lo is None else clamp(z3.If(Z(lo) < 0, Z(lo) + n, Z(lo)), z3.IntVal(0), n)
            e0 = n if hi is None else clamp(z3.If(Z(hi) < 0, Z(hi) + n, Z(hi)), z3.IntVal(0), n)
            length = z3.If(e0 > s0, e0 - s0, z3.IntVal(0))
            start = s0
        else:
            s0 = (n - 1) if lo is None else clamp(z3.If(Z(lo) < 0, Z(lo) + n, Z(lo)), z3.IntVal(-1), n - 1)
            e0 = z3.IntVal(-1) if hi is None else clamp(z3.If(Z(hi) < 0, Z(hi) + n, Z(hi)), z3.IntVal(-1), n - 1)
            length = z3.If(s0 > e0, s0 - e0, z3.IntVal(0))
            start = s0
        cs = self.ex.ctx_simplify
        return Arr(arr.root, cs(self.st, simp(Z(arr.off) + arr.step * start)), arr.step * step, cs(self.st, simp(length)), arr.conj)

    # -- calls -----------------------------------------------------------------------------
    def e_Call(self, n):
        f = self.eval(n.func)
        args = []
        for a in n.args:
            if isinstance(a, ast.Starred):
                v = self.eval(a.value)
                if isinstance(v, (tuple, list)):
                    args.extend(v)                 # f(*seq) with a sequence of known length
                else:
                    args.append(StarArgs(v))       # a symbolic argument tuple, passed on as a whole
            else:
                args.append(self.eval(a))
        kwargs = {}
        for kw in n.keywords:
            v = self.eval(kw.value)
            if kw.arg is None:  # **mapping
                if isinstance(v, dict):
                    kwargs.update(v)
                else:
                    kwargs[None] = v  # a symbolic mapping, passed on as a whole (contracts that accept it look under the key None)
            else:
                kwargs[kw.arg] = v
        if isinstance(f, Builtin):
            return self.ex.call_builtin(f.name, self.st, args, kwargs, n, self)
        if isinstance(f, Method):
            return self.ex.call_method(f, self.st, args, kwargs, n, self)
        if isinstance(f, SpecFn):
            return f.fn(self, *args, **kwargs)
        if isinstance(f, PyCallable):
            return f.fn(self, args, kwargs, n)
        if isinstance(f, Obj):
            # an object with attributes that is also called (a closure with function attributes): handler "<oid>" of the contract
            h = self.ex.contract.handlers.get(f.oid)
            if h is not None:
                return h(self.ex, self.st, args, kwargs, n, self)
        raise Outside(f"call of {type(f).__name__}")

    def e_Lambda(self, n):
        raise Outside("lambda")

    def _concrete_items(self, it):
        """the items of an iterable expression when their NUMBER is known now (literal range bounds, tuple / list values, zip of
        those), else None"""
        if isinstance(it, ast.Call) and isinstance(it.func, ast.Name) and it.func.id == "range" and "range" not in self.st.env:
            args = [simp(self.eval(a)) for a in it.args]
            if all(isinstance(a, int) for a in args):
                return list(range(*args))
            return None
        if isinstance(it, ast.Call) and isinstance(it.func, ast.Name) and it.func.id == "zip" and "zip" not in self.st.env:
            cols = [self._concrete_items(a) for a in it.args]
            if all(c is not None for c in cols):
                return [tuple(x) for x in zip(*cols)]
            return None
        if (isinstance(it, ast.Call) and isinstance(it.func, ast.Name) and it.func.id == "enumerate" and "enumerate" not in self.st.env
                and 1 <= len(it.args) <= 2 and not it.keywords and "enumerate" not in self.ex.contract.handlers):
            inner = self._concrete_items(it.args[0])
            if inner is None:
                return None
            k0 = simp(self.eval(it.args[1])) if len(it.args) == 2 else 0
            if not isinstance(k0, int):
                return None
            return [(k0 + i, x) for i, x in enumerate(inner)]
        if (isinstance(it, ast.Call) and isinstance(it.func, ast.Name) and it.func.id == "reversed" and "reversed" not in self.st.env
                and len(it.args) == 1 and not it.keywords):
            inner = self._concrete_items(it.args[0])
            return None if inner is None else inner[::-1]
        if isinstance(it, (ast.Name, ast.Attribute, ast.Subscript, ast.Tuple, ast.List, ast.Set)):
            try:
                v = self.eval(it)
            except Outside:
                return None
            if isinstance(v, (tuple, list)):
                return list(v)
            if isinstance(v, frozenset) and all(isinstance(x, (str, int)) for x in v):
                # a set display of literals: SOME order (sorted here); a contract whose result could depend on the order must say so
                self.ex.notes.append("iteration over a set display: the order is unspecified in Python; executed in sorted order") \
                    if "iteration over a set display: the order is unspecified in Python; executed in sorted order" not in self.ex.notes else None
                return sorted(v, key=repr)
        return None

    def e_ListComp(self, n):
        v = self.e_GeneratorExp(n)
        if isinstance(v, tuple):
            return list(v)
        raise Outside("list comprehension over a symbolic range")

    def e_GeneratorExp(self, n):
        """(elt for v in range(a, b)) -> symbolic sequence; the element expression is evaluated once on a generic index for
        its well-definedness obligations, and lazily (as a spec expression) for each access"""
        if len(n.generators) != 1 or n.generators[0].is_async:
            raise Outside("generator expression form")
        g = n.generators[0]
        # concrete iteration space (a literal range, a tuple / list value, zip of such): evaluated element by element, here
        items = self._concrete_items(g.iter)
        if items is not None:
            out = []
            for it in items:
                saved = dict(self.st.env)
                try:
                    self.ex._assign(self.st, g.target, it, n)
                    keep = True
                    for cond in g.ifs:
                        c = simp(Zb(self.eval(cond))) if not isinstance(self.eval(cond), bool) else self.eval(cond)
                        if c is True or (is_z3(c) and z3.is_true(c)):
                            continue
                        if c is False or (is_z3(c) and z3.is_false(c)):
                            keep = False
                            break
                        raise Outside("generator filter that is not decided syntactically")
                    if keep:
                        out.append(self.eval(n.elt))
                finally:
                    self.st.env.clear()
                    self.st.env.update(saved)
            return tuple(out)
        if g.ifs:
            raise Outside("generator expression form")
        if not (isinstance(g.iter, ast.Call) and isinstance(g.iter.func, ast.Name) and g.iter.func.id == "range"):
            seq = self.eval(g.iter)
            if isinstance(seq, SeqVal) and seq.n is not None:
                # (elt for x in SEQ) / (elt for a, b in SEQ) over a symbolic sequence: element j is elt with the targets bound to SEQ[j]
                names = [g.target.id] if isinstance(g.target, ast.Name) else ([e.id for e in g.target.elts] if isinstance(g.target, ast.Tuple) and all(isinstance(e, ast.Name) for e in g.target.elts) else None)
                if names is None:
                    raise Outside("generator target form")
                snap = dict(self.st.env)
                ex, outer = self.ex, self

                def getter_seq(j):
                    item = seq.getter(simp(Z(j)))
                    st2 = outer.st.copy()
                    st2.env = dict(snap)
                    if isinstance(g.target, ast.Name):
                        st2.env[names[0]] = item
                    else:
                        if not isinstance(item, (tuple, list)) or len(item) != len(names):
                            raise Outside("generator unpacking")
                        for nm, it in zip(names, item):
                            st2.env[nm] = it
                    return Evaluator(ex, st2, spec_mode=True, extra_env=outer.extra, old=outer.old).eval(n.elt)
                return SeqVal(seq.n, getter_seq)
        if not (isinstance(g.iter, ast.Call) and isinstance(g.iter.func, ast.Name) and g.iter.func.id == "range" and isinstance(g.target, ast.Name)):
            raise Outside("generator over a non-range")
        args = [self.eval(a) for a in g.iter.args]
        lo, hi = (0, args[0]) if len(args) == 1 else (args[0], args[1])
        if len(args) == 3:
            raise Outside("generator over a stepped range")
        length = simp(z3.If(Z(hi) > Z(lo), Z(hi) - Z(lo), 0)) if (is_z3(hi) or is_z3(lo)) else max(0, hi - lo)
        if not self.spec_mode:
            j0 = fresh(g.target.id + "_any")
            sub = self.st.copy()
            sub.env = dict(self.st.env)
            self.st.assume(z3.And(j0 >= Z(lo), j0 < Z(hi))) if False else None
            gst = self.st
            saved = gst.env.get(g.target.id, None)
            had = g.target.id in gst.env
            gst.pc.append(z3.And(j0 >= Z(lo), j0 < Z(hi)))
            gst.env[g.target.id] = j0
            try:
                Evaluator(self.ex, gst).eval(n.elt)
            finally:
                gst.pc.pop()
                if had:
                    gst.env[g.target.id] = saved
                else:
                    gst.env.pop(g.target.id, None)
        snap_env = dict(self.st.env)
        snap_fields = self.st.fields
        ex, outer = self.ex, self

        def getter(j):
            st2 = outer.st.copy()
            st2.env = dict(snap_env)
            st2.env[g.target.id] = simp(Z(lo) + Z(j))
            return Evaluator(ex, st2, spec_mode=True, extra_env=outer.extra, old=outer.old).eval(n.elt)

        return SeqVal(length, getter)


def _frac(v):
    from decimal import Decimal
    return Fraction(Decimal(repr(v)))


def _dotted(n):
    parts = []
    while isinstance(n, ast.Attribute):
        parts.append(n.attr)
        n = n.value
    if isinstance(n, ast.Name):
        parts.append(n.id)
        return ".".join(reversed(parts))
    return None


MODULE_ALIASES = {"np", "config", "math", "torch", "struct", "warnings", "os", "sys", "fftpack", "io", "re", "soundfile", "wave", "h5py"}
BUILTIN_NAMES = {"len", "min", "max", "int", "float", "bool", "abs", "range", "isinstance", "tuple", "list", "sum",
                 "forall", "exists", "implies", "old", "ite", "count", "enumerate", "slice", "zip"}


class Builtin:
    def __init__(self, name):
        self.name = name


class Method:
    def __init__(self, obj, name):
        self.obj, self.name = obj, name


class SpecFn:
    def __init__(self, fn):
        self.fn = fn


class StarArgs:
    """f(*v) where v is not a sequence of known length: the contract's handler sees the value as one argument of this type"""

    def __init__(self, value):
        self.value = value


class PyCallable:
    """a value that is called as fn(evaluator, args, kwargs, node) - used by contract-side object models"""

    def __init__(self, fn):
        self.fn = fn


class PySlice:
    """a slice object built with slice(...) (None = omitted)"""

    def __init__(self, lo, hi, step):
        self.lo, self.hi, self.step = lo, hi, step

    def is_full(self):
        return self.lo is None and self.hi is None and self.step is None


class SeqVal:
    """symbolic Python list of uniform elements: length + element constructor"""

    def __init__(self, n, getter):
        self.n, self.getter = n, getter

    def get(self, ev, i, node):
        zi = Z(i)
        if self.n is None:
            j = zi
        elif not ev.spec_mode:
            j = simp(z3.If(zi < 0, zi + Z(self.n), zi))
            ev.wd(z3.And(Z(j) >= 0, Z(j) < Z(self.n)), "list_index", node)
        else:
            j = zi
        return self.getter(j)


# ------------------------------------------------------------------------------------------
# builtin / library calls
# ------------------------------------------------------------------------------------------


def _minmax(which, vals):
    vals = [to_num(v) for v in vals]
    if all(concrete(v) for v in vals):
        return (min if which == "min" else max)(vals)
    cur = Z(vals[0])
    for v in vals[1:]:
        zv = Z(v)
        if z3.is_real(cur) != z3.is_real(zv):
            cur, zv = to_real(cur), to_real(zv)
        # Python returns the first of equal elements; numerically identical
        cur = z3.If(zv < cur, zv, cur) if which == "min" else z3.If(zv > cur, zv, cur)
    return simp(cur)


def Executor_call_builtin(self, name, st, args, kwargs, node, ev):
    h = self.contract.handlers.get(name)
    if h is not None:
        return h(self, st, args, kwargs, node, ev)
    if name == "len":
        (a,) = args
        if isinstance(a, (Arr, Prod)):
            return a.n
        if isinstance(a, Mat):
            return a.rows
        if isinstance(a, (tuple, list, str)):
            return len(a)
        if isinstance(a, SeqVal):
            return a.n
        if hasattr(a, "sym_len"):
            return a.sym_len()
        raise Outside("len of " + type(a).__name__)
    if name in ("min", "max"):
        if len(args) == 1 and isinstance(args[0], SeqVal) and args[0].n is not None:
            # max / min of a symbolic non-empty sequence: a bound that is attained (empty: ValueError)
            seq = args[0]
            ev.wd(Z(seq.n) >= 1, name + "_of_nonempty", node)
            e0 = seq.getter(z3.IntVal(0))
            m = fresh(name + "_of_seq", "real" if is_real(e0) else "int")
            j, w = z3.Int("mj!%d" % next(_fresh)), fresh("attained_at")
            ej = Z(seq.getter(j))
            st.assume(z3.ForAll([j], z3.Implies(z3.And(j >= 0, j < Z(seq.n)), (ej <= m) if name == "max" else (ej >= m))))
            st.assume(z3.And(w >= 0, w < Z(seq.n), Z(seq.getter(w)) == m))
            return m
        if len(args) == 1 and isinstance(args[0], (tuple, list)):
            args = list(args[0])
        return _minmax(name, args)
    if name == "abs":
        (a,) = args
        if concrete(a):
            return abs(a)
        return simp(z3.If(Z(a) < 0, -Z(a), Z(a)))
    if name == "int":
        (a,) = args
        a = to_num(a)
        if is_int(a):
            return a
        if concrete(a):
            return int(a)
        za = Z(a)
        # truncation toward zero
        return simp(z3.If(za >= 0, z3.ToInt(za), -z3.ToInt(-za)))
    if name == "float":
        (a,) = args
        return to_real(a) if is_z3(a) else Fraction(a)
    if name == "range" and 1 <= len(args) <= 3:
        # range(...) as a VALUE (not a loop header): a symbolic sequence lo, lo+step, ... < hi; only positive steps
        lo, hi, stp = (0, args[0], 1) if len(args) == 1 else ((args[0], args[1], 1) if len(args) == 2 else args)
        zlo, zhi, zst = Z(lo), Z(hi), Z(stp)
        ev.wd(zst > 0, "range_step_positive", node)
        n = simp(z3.If(zhi > zlo, (zhi - zlo + zst - 1) / zst, 0))
        return SeqVal(n, lambda i: simp(zlo + Z(i) * zst))
    if name == "slice" and 1 <= len(args) <= 3:
        lo, hi, stp = (None, args[0], None) if len(args) == 1 else ((args[0], args[1], None) if len(args) == 2 else args)
        return PySlice(lo, hi, stp)
    if name == "count" and len(args) <= 1:
        k0 = Z(args[0]) if args else z3.IntVal(0)
        return SeqVal(None, lambda i: simp(k0 + Z(i)))  # itertools.count: unbounded
    if name == "zip":
        # zip as a VALUE (for-headers are handled syntactically): symbolic sequences -> the sequence of tuples, as long as the shortest
        if args and not kwargs and all(isinstance(a, SeqVal) and a.n is not None for a in args):
            seqs = list(args)
            return SeqVal(_minmax("min", [s_.n for s_ in seqs]) if len(seqs) > 1 else seqs[0].n, lambda i: tuple(s_.getter(simp(Z(i))) for s_ in seqs))
        if args and not kwargs and all(isinstance(a, (tuple, list)) for a in args):
            return [tuple(x) for x in zip(*args)]
        raise Outside("zip of values that are not all sequences of one kind")
    if name in ("tuple", "list") and len(args) == 1 and isinstance(args[0], SeqVal):
        return args[0]
    if name == "tuple" and len(args) == 1 and isinstance(args[0], (tuple, list)):
        return tuple(args[0])
    if name == "list" and len(args) == 1 and isinstance(args[0], (tuple, list)):
        return list(args[0])
    if name == "bool":
        return simp(Zb(args[0]))
    if name in ("np.ceil", "math.ceil"):
        (a,) = args
        if concrete(a):
            import math
            return math.ceil(a)
        za = to_real(a)
        return simp(-z3.ToInt(-za))  # integer-valued; Python int(np.ceil(x)) is the identity on it
    if name in ("np.floor", "math.floor"):
        (a,) = args
        if concrete(a):
            import math
            return math.floor(a)
        return simp(z3.ToInt(to_real(a)))
    if name == "isinstance":
        raise Outside("isinstance")
    if name == "implies":
        a, b = args
        return simp(z3.Implies(Zb(a), Zb(b)))
    if name == "ite":
        c, a, b = args
        za, zb = Z(to_num(a)), Z(to_num(b))
        if z3.is_real(za) != z3.is_real(zb):
            za, zb = to_real(za), to_real(zb)
        return simp(z3.If(Zb(c), za, zb))
    if name in ("forall", "exists"):
        raise Outside("forall/exists must be called with a variable name (handled syntactically)")
    if name in LIB:
        return LIB[name](self, st, args, kwargs, node, ev)
    raise Outside(f"call of {name} has no contract")


def Executor_call_method(self, m, st, args, kwargs, node, ev):
    o = m.obj
    if isinstance(o, Obj):
        key = f"{o.cls}.{m.name}"
        h = self.contract.handlers.get(key) or self.contract.handlers.get("self." + m.name)
        if h is None:
            r = self._inline_helper(o, m.name, st, args, kwargs, node, ev)
            if r is not NotImplemented:
                return r
            raise Outside(f"call of method {key} has no contract")
        cnt = self.call_counts.get(key, 0)
        return h(self, st, o, args, kwargs, node, ev)
    if isinstance(o, Arr):
        h = self.contract.handlers.get("arr." + m.name)
        if h:
            return h(self, st, o, args, kwargs, node, ev)
        if m.name == "conj":
            return o.with_(conj=not o.conj)
        raise Outside(f"array method {m.name}")
    if isinstance(o, Prod) and m.name == "astype":
        # a cast of an element-wise product: the values are unchanged (floats are reals, A-REAL); only its dtype tag would change
        return o
    if isinstance(o, Opaque):
        h = self.contract.handlers.get("opaque." + m.name)
        if h:
            return h(self, st, o, args, kwargs, node, ev)
    if isinstance(o, list) and m.name == "insert" and len(args) == 2 and isinstance(simp(args[0]) if is_z3(args[0]) else args[0], int):
        # lists are immutable values: insert with a literal index rebinds every local / attribute that holds this list
        i = int(simp(args[0]) if is_z3(args[0]) else args[0])
        new = list(o)
        new.insert(i, args[1])
        hit = False
        for k2, v2 in list(st.env.items()):
            if v2 is o:
                st.env[k2] = new
                hit = True
        for k2, v2 in list(st.fields.items()):
            if v2 is o:
                st.fields[k2] = new
                hit = True
        if not hit:
            raise Outside("insert into a list that is neither a local variable nor an attribute")
        return None
    if isinstance(o, list) and m.name == "append" and len(args) == 1:
        hook = self.contract.handlers.get("list.append")
        if hook:
            hook(self, st, o, args[0], node)  # contract-side obligations on the appended element (list contents are not tracked in loops)
        # Python lists are modelled as immutable values: append rebinds every local that holds this list
        new = o + [args[0]]
        hit = False
        for k2, v2 in list(st.env.items()):
            if v2 is o:
                st.env[k2] = new
                hit = True
        for k2, v2 in list(st.fields.items()):
            if v2 is o:
                st.fields[k2] = new
                hit = True
        if not hit:
            raise Outside("append to a list that is neither a local variable nor an attribute")
        return None
    raise Outside(f"method {m.name} of {type(o).__name__}")


def Executor_inline_helper(self, o, name, st, args, kwargs, node, ev):
    """A private helper method of the SAME class as the function under contract, called on `self`, that has no contract of its own and
    is straight-line for the current path (assignments to locals, returns, `if`s whose tests the path condition decides): executed in
    place with the caller's state. Anything else (loops, stores, undecided tests, recursion) -> NotImplemented (the caller reports the
    call as outside the subset). This keeps proofs alive across "extract a small helper" refactorings and lets a defect hidden in such a
    helper fail the caller's obligations."""
    from pyvc import extract as _extract
    if not (isinstance(o, Obj) and o.oid == "self") or getattr(self, "_inlining", 0) >= 2:
        return NotImplemented
    cls = getattr(self.fx, "cls", None)
    cls = getattr(cls, "name", cls)
    mod = getattr(self.fx, "mod", None)
    if not cls or not mod:
        return NotImplemented
    try:
        hx = _extract.get_function(mod, f"{cls}.{name}")
    except Exception:
        return NotImplemented
    fn = hx.node
    params = [a.arg for a in fn.args.args]
    if not params or fn.args.vararg or fn.args.kwarg or fn.args.kwonlyargs:
        return NotImplemented
    defaults = fn.args.defaults
    bound = {params[0]: o}
    rest = params[1:]
    if len(args) > len(rest) or any(k not in rest for k in kwargs):
        return NotImplemented
    for p_, a in zip(rest, args):
        bound[p_] = a
    for k_, v_ in kwargs.items():
        if k_ in bound:
            return NotImplemented
        bound[k_] = v_
    nd = len(defaults)
    for i, p_ in enumerate(rest):
        if p_ not in bound:
            j = i - (len(rest) - nd)
            if j < 0:
                return NotImplemented
            if not isinstance(defaults[j], ast.Constant):
                return NotImplemented
            bound[p_] = defaults[j].value
    try:
        return self._exec_straightline(fn, st, dict(bound))
    except Outside:
        return NotImplemented


def Executor_exec_straightline(self, fn, st, env):
    """run the body of `fn` with `env` as its local environment in the caller's state: local assignments, returns, `if`s decided by the
    path condition; anything else raises Outside"""
    saved_env = st.env
    st.env = env
    self._inlining = getattr(self, "_inlining", 0) + 1
    if self._inlining > 3:
        self._inlining -= 1
        st.env = saved_env
        raise Outside("helper nesting too deep")
    try:
        def run(stmts):
            for s_ in stmts:
                if isinstance(s_, ast.Expr) and isinstance(s_.value, ast.Constant):
                    continue                                   # docstring
                if isinstance(s_, ast.Pass):
                    continue
                if isinstance(s_, ast.Return):
                    return ("ret", Evaluator(self, st).eval(s_.value) if s_.value is not None else None)
                if isinstance(s_, ast.Assign) and len(s_.targets) == 1 and isinstance(s_.targets[0], ast.Name):
                    st.env[s_.targets[0].id] = Evaluator(self, st).eval(s_.value)
                    continue
                if isinstance(s_, ast.AugAssign) and isinstance(s_.target, ast.Name):
                    e2 = Evaluator(self, st)
                    st.env[s_.target.id] = e2.binop(s_.op, e2.eval(_load(s_.target)), e2.eval(s_.value), s_)
                    continue
                if isinstance(s_, ast.If):
                    c = Evaluator(self, st).eval(s_.test)
                    c = c if isinstance(c, bool) else self.decide(st, Zb(c))
                    if c is None:
                        raise Outside("helper branches on a condition the path does not decide")
                    r = run(s_.body if c else s_.orelse)
                    if r is not None:
                        return r
                    continue
                raise Outside(f"helper statement {type(s_).__name__}")
            return None
        r = run(fn.body)
        return r[1] if r is not None else None
    finally:
        self._inlining -= 1
        st.env = saved_env


def Executor_is_property(self, name):
    from pyvc import extract as _extract
    cls, mod = getattr(self.fx, "cls", None), getattr(self.fx, "mod", None)
    cls = getattr(cls, "name", cls)
    if not cls or not mod:
        return False
    try:
        tree = _extract.module_ast(mod)[1]
    except Exception:
        return False
    for c in ast.walk(tree):
        if isinstance(c, ast.ClassDef) and c.name == cls:
            for f in c.body:
                if isinstance(f, ast.FunctionDef) and f.name == name:
                    return any(isinstance(d, ast.Name) and d.id == "property" for d in f.decorator_list)
    return False


def Executor_module_level(self, name):
    """a name the function does not bind: a module-level constant of simple form (number, string, tuple of those) of the function's own
    module, or a module-level helper FUNCTION of it, which is then run in place when called if it is straight-line (see
    _exec_straightline). Keeps proofs across "extract a constant / a small module-level helper" refactorings."""
    from pyvc import extract as _extract
    mod = getattr(self.fx, "mod", None)
    if not mod:
        return NotImplemented
    try:
        consts = _extract.module_constants(mod)
    except Exception:
        consts = {}
    if name in consts and isinstance(consts[name], (int, float, str, bytes)) and not isinstance(consts[name], bool):
        v = consts[name]
        return _frac(v) if isinstance(v, float) else v
    try:
        tree = _extract.module_ast(mod)[1]
    except Exception:
        return NotImplemented
    for f in tree.body:
        if isinstance(f, ast.FunctionDef) and f.name == name:
            if f.args.vararg or f.args.kwarg or f.args.kwonlyargs or f.decorator_list:
                return NotImplemented
            if not all(isinstance(d_, ast.Constant) for d_ in f.args.defaults):
                return NotImplemented      # a default is evaluated when the function is DEFINED; only literals mean the same at call time
            params = [a.arg for a in f.args.args]
            defaults = f.args.defaults

            def call(ev2, args, kwargs, node2, f=f, params=params, defaults=defaults):
                if len(args) > len(params) or any(k not in params for k in kwargs):
                    raise Outside(f"call form of module-level helper {f.name}")
                env = dict(zip(params, args))
                for k_, v_ in kwargs.items():
                    if k_ in env:
                        raise Outside(f"call form of module-level helper {f.name}")
                    env[k_] = v_
                nd = len(defaults)
                for i, p_ in enumerate(params):
                    if p_ not in env:
                        j = i - (len(params) - nd)
                        if j < 0:
                            raise Outside(f"call form of module-level helper {f.name}")
                        env[p_] = Evaluator(self, ev2.st).eval(defaults[j])
                return self._exec_straightline(f, ev2.st, env)
            return PyCallable(call)
    return NotImplemented


Executor._module_level = Executor_module_level
Executor._is_property = Executor_is_property
Executor._exec_straightline = Executor_exec_straightline
Executor._inline_helper = Executor_inline_helper
Executor.call_builtin = Executor_call_builtin
Executor.call_method = Executor_call_method

LIB = {}


def lib(name):
    def deco(f):
        LIB[name] = f
        return f

    return deco


# quantifiers in contract expressions: forall(i, lo, hi, body) with i a bare name ------------
_orig_e_Call = Evaluator.e_Call


def _e_Call(self, n):
    if isinstance(n.func, ast.Name) and n.func.id in ("forall", "exists") and n.func.id not in self.st.env:
        if not self.spec_mode:
            raise Outside("quantifier in program text")
        var, lo, hi, body = n.args
        if not isinstance(var, ast.Name):
            raise Outside("quantified variable must be a name")
        v = z3.Int(f"{var.id}!{next(_fresh)}")
        inner = Evaluator(self.ex, self.st, True, dict(self.extra, **{var.id: v}), self.old)
        rng = z3.And(Z(inner.eval(lo)) <= v, v < Z(inner.eval(hi)))
        b = Zb(inner.eval(body))
        if n.func.id == "forall":
            return z3.ForAll([v], z3.Implies(rng, b))
        return z3.Exists([v], z3.And(rng, b))
    if isinstance(n.func, ast.Name) and n.func.id == "old" and "old" not in self.st.env:
        if self.old is None:
            raise Outside("old() outside a postcondition")
        inner = Evaluator(self.ex, self._old_state(), True, self.extra, None)
        return inner.eval(n.args[0])
    return _orig_e_Call(self, n)


def _old_state(self):
    s = self.old.copy()
    return s


Evaluator.e_Call = _e_Call
Evaluator._old_state = _old_state

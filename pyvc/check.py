"""Driver: `python -m pyvc.check <PROP> --tier quick|thorough` / `--replay <file>`.

Per property: (1) replay the witnesses of open known findings, (2) generate and discharge the
verification conditions of every function under contract for the property (re-extracted from
$VERIF_REPO on this run), (3) run the bounded stand-in, (4) triage refuted obligations by replay on
the real code, (5) write /verif/evidence/<PROP>.json, (6) exit 0 / 1 (+VIOLATION line) / 3 (fault).
Undecided obligations (solver unknown/timeout, function outside the subset, contract drift) never
become violations: the evidence then reports discharged < obligations and the stand-in decides.
"""
import argparse
import importlib
import json
import os
import sys
import time
import traceback

HERE = os.path.dirname(os.path.dirname(os.path.abspath(__file__)))
sys.path.insert(0, HERE)

from pyvc import extract  # noqa: E402


def _load_known(prop):
    try:
        data = json.load(open(os.path.join(HERE, "known_findings.json")))
    except Exception:
        return []
    return [f for f in data.get("findings", []) if f.get("property") == prop and f.get("status") == "open"]


def _all_open_findings():
    try:
        data = json.load(open(os.path.join(HERE, "known_findings.json")))
    except Exception:
        return []
    return [f for f in data.get("findings", []) if f.get("status") == "open"]


def _write_replay(prop, name, payload):
    d = os.path.join(HERE, "out", "replay", prop)
    os.makedirs(d, exist_ok=True)
    safe = "".join(ch if ch.isalnum() or ch in "._-" else "_" for ch in name)[:120]
    path = os.path.join(d, safe + ".json")
    with open(path, "w") as f:
        json.dump(payload, f, indent=1, default=str)
    return path


class UnitResult:
    def __init__(self, name):
        self.name = name
        self.functions = []     # Extracted.describe()
        self.obligations = []   # symex.Obligation
        self.canaries = []      # symex.Obligation expected to be refuted
        self.outside = []       # (function id, reason) -> stand-in only
        self.assumptions = set()
        self.notes = []
        self.to_case = None     # callable(obligation) -> stand-in case dict (or None)


def main(argv=None):
    ap = argparse.ArgumentParser()
    ap.add_argument("prop")
    ap.add_argument("--tier", default=os.environ.get("VERIF_TIER", "quick"), choices=["quick", "thorough"])
    ap.add_argument("--replay")
    ap.add_argument("--no-standin", action="store_true")
    ap.add_argument("--no-vc", action="store_true")
    a = ap.parse_args(argv)
    prop = a.prop.upper()
    seed = int(os.environ.get("VERIF_SEED", "0") or 0)
    t0 = time.time()
    os.environ.setdefault("VERIF_REPO", "/repo")
    os.environ["PYTHONDONTWRITEBYTECODE"] = "1"
    sys.dont_write_bytecode = True
    try:
        return _run(prop, a, seed, t0)
    except SystemExit:
        raise
    except Exception:
        traceback.print_exc()
        print(f"CHECKER-FAULT property={prop} (traceback above; not a violation)")
        return 3


_ACTIVE_KNOWN = []     # the open known findings that reproduce in this run (set by run())


def _replay_any(rtc, case):
    """case may be one case dict or a list of candidate cases: the first one that FAILS on the real code wins. Candidates inside the
    region of an open known finding are not replayed: their failure is already reported as KNOWN-FINDING and says nothing new"""
    if isinstance(case, dict):
        case = [case]
    if _ACTIVE_KNOWN:
        from rtc._common import region_matches
        case = [c for c in case if not any(region_matches(kf.get("standin_region"), c) for kf in _ACTIVE_KNOWN)]
    last = (True, "no candidate case", None)
    for c in case:
        try:
            ok, msg = rtc.replay(c)
        except Exception as e:
            # the stand-ins catch exceptions of the REAL code themselves and report them as failures; an exception
            # escaping replay() is a harness problem (e.g. a case in another stand-in's format): skip this candidate
            last = (True, f"replay harness could not run a candidate ({type(e).__name__}: {e})", c)
            continue
        if not ok:
            return False, msg, c
        last = (True, f"{len(case)} candidate inputs all satisfy the property (last: {msg})", c)
    return last


def _unit_rtc(u, default):
    """the stand-in whose replay() understands this unit's cases (a function can be under contract for several properties)"""
    name = getattr(u, "replay_module", None)
    if name:
        return importlib.import_module(name)
    return default


def _standin_module(prop):
    try:
        return importlib.import_module("rtc." + prop.lower())
    except ModuleNotFoundError as e:
        if e.name == "rtc." + prop.lower():
            return None
        raise


def _run(prop, a, seed, t0):
    from pyvc import solve
    rtc = _standin_module(prop)
    if a.replay:
        payload = json.load(open(a.replay))
        case = payload.get("case", payload)
        if isinstance(payload, dict) and payload.get("replay_with"):
            rtc = importlib.import_module(payload["replay_with"])
        if case is None or rtc is None:
            print(f"replay file carries no concrete input (obligation {payload.get('obligation')}): nothing to run")
            print(json.dumps(payload, indent=1)[:3000])
            return 1
        ok, msg = rtc.replay(case)
        print(("HOLDS " if ok else "FAILS ") + str(msg))
        return 0 if ok else 1

    violations = []   # (text, replay_path)
    lines = []
    # ---- 1. known findings -----------------------------------------------------------------
    active, disabled = [], []
    for kf in _load_known(prop):
        still = None
        if rtc is not None and kf.get("witness") is not None:
            try:
                ok, msg = rtc.replay(kf["witness"])
                still = not ok
            except Exception as e:  # a crash of the real code on the witness is still a failure of the property
                still, msg = True, f"{type(e).__name__}: {e}"
        if still:
            active.append(kf)
            print(f"KNOWN-FINDING: property={prop} {kf['id']}: {kf['what']}")
        else:
            disabled.append(kf["id"])
            print(f"note: known finding {kf['id']} no longer reproduces; its region is NOT excluded in this run")
    if disabled:
        os.environ["VERIF_KF_DISABLE"] = ",".join(disabled)
    _ACTIVE_KNOWN[:] = active

    # ---- 2. verification conditions ------------------------------------------------------------
    units = []
    vc_wall = 0.0
    if not a.no_vc:
        try:
            reg = importlib.import_module("contracts.registry")
            makers = reg.UNITS.get(prop, [])
        except ModuleNotFoundError:
            makers = []
        tv = time.time()
        # findings of other properties whose witness still fails also restrict shared obligations (the same function may
        # be under contract for several properties)
        shared = list(active)
        for other in _all_open_findings():
            if other["property"] != prop and other.get("vc_region"):
                om = _standin_module(other["property"])
                try:
                    if om is not None and not om.replay(other["witness"])[0]:
                        shared.append(other)
                except Exception:
                    pass
        for mk in makers:
            try:
                u = mk(a.tier, shared)
            except Exception as e:
                u = UnitResult(getattr(mk, "__name__", "unit"))
                u.outside.append((getattr(mk, "__name__", "unit"), f"generator error {type(e).__name__}: {e}"))
                traceback.print_exc()
            units.append(u)
        allobs = [o for u in units for o in u.obligations + u.canaries]
        solve.discharge(allobs, timeout_ms=20000 if a.tier == "quick" else 120000)
        vc_wall = time.time() - tv

    # ---- 3. stand-in -------------------------------------------------------------------------
    sres = None
    if rtc is not None and not a.no_standin:
        sres = rtc.run(a.tier, seed)
        for f in sres["failures"]:
            path = _write_replay(prop, "standin_" + f["clause"] + "_" + str(len(violations)), {"property": prop, "source": "bounded stand-in", "clause": f["clause"], "message": f["message"], "case": f["case"]})
            violations.append((f"{f['clause']}: {f['message']}", path, False))

    # ---- 4. triage of refuted obligations --------------------------------------------------------
    by_id = {}
    fault = []
    proof_lost = []
    for u in units:
        for o in u.obligations:
            by_id.setdefault(o.id, []).append((u, o))
        for c in u.canaries:
            if c.verdict != "refuted":
                fault.append(f"canary {c.id} was not refuted ({c.verdict}): the obligation it guards may be vacuous")
    n_ids = len(by_id)
    n_proved = 0
    undecided = []
    seen_refuted = set()
    for oid, insts in by_id.items():
        verdicts = [o.verdict for _, o in insts]
        if all(v == "proved" for v in verdicts):
            n_proved += 1
            continue
        if any(v == "error" for v in verdicts):
            fault.append(f"solver error on {oid}: " + "; ".join(str(getattr(o, 'reason', '')) for _, o in insts if o.verdict == 'error')[:300])
            continue
        ref = [(u, o) for u, o in insts if o.verdict == "refuted"]
        if not ref:
            # candidate counterexamples (quantified hypotheses dropped): only a failing replay makes them count
            for u, o in insts:
                urtc = _unit_rtc(u, rtc)
                # (an undecided VC without any model is searched the same way: the unit's standard inputs are replayed; only a
                # failing replay on the real code counts)
                if o.verdict in ("candidate", "undecided") and u.to_case is not None and urtc is not None and oid not in seen_refuted:
                    try:
                        case = u.to_case(o)
                    except Exception:
                        case = None
                    if case is not None:
                        ok, msg, case = _replay_any(urtc, case)
                        if not ok:
                            seen_refuted.add(oid)
                            path = _write_replay(prop, oid, {"property": prop, "obligation": oid, "source": "undecided VC; candidate counterexample of its quantifier-free part fails on the real code", "replay_with": urtc.__name__, "backend": o.backend, "solver_model": o.model, "case": case, "replay_message": str(msg)})
                            how = "candidate counterexample" if o.verdict == "candidate" else "one of the unit's standard replay inputs"
                            violations.append((f"obligation {oid} undecided; {how} fails on the real code: {msg}", path, False))
                            break
            undecided.append(oid)
            continue
        if oid in seen_refuted:
            continue
        seen_refuted.add(oid)
        u, o = ref[0]
        case = None
        if u.to_case is not None:
            try:
                case = u.to_case(o)
            except Exception:
                traceback.print_exc()
                case = None
        urtc = _unit_rtc(u, rtc)
        payload = {"property": prop, "obligation": oid, "kind": o.kind, "source": "refuted verification condition",
                   "backend": o.backend, "solver_model": o.model, "function_line": o.where, "case": case}
        if case is not None and urtc is not None:
            ok, msg, case = _replay_any(urtc, case)
            payload["case"] = case
            payload["replay_with"] = urtc.__name__
            payload["replay_message"] = str(msg)
            if ok:
                proof_lost.append(oid)
                print(f"PROOF-LOST obligation={oid}: the solver's counterexample does not fail on the real code ({msg}); the bounded stand-in decides")
                continue
            path = _write_replay(prop, oid, payload)
            violations.append((f"obligation {oid} refuted and its counterexample fails on the real code: {msg}", path, False))
        else:
            path = _write_replay(prop, oid, payload)
            violations.append((f"obligation {oid} refuted", path, True))

    # ---- 5. evidence ---------------------------------------------------------------------------
    outside = [x for u in units for x in u.outside]
    assumptions = sorted(set(x for u in units for x in u.assumptions) | set((sres or {}).get("assumptions", [])))
    backends = {}
    solver_s = 0.0
    for u in units:
        for o in u.obligations:
            backends[o.backend or "?"] = backends.get(o.backend or "?", 0) + 1
            solver_s += o.seconds or 0
    manifest_level = _claimed_level(prop)
    all_proved = n_ids > 0 and n_proved == n_ids and not outside
    level = manifest_level
    samples = []
    for u in units:
        for o in u.obligations[:2]:
            samples.append({"obligation": o.id, "kind": o.kind, "verdict": o.verdict, "backend": o.backend, "seconds": round(o.seconds or 0, 3)})
    if sres:
        samples += [{"standin_case": s} for s in sres["samples"][:3]]
    if not samples:
        samples = [{"note": "no obligations and no stand-in cases in this run"}]
    cov = {
        "obligations": n_ids,
        "discharged": n_proved,
        "obligation_instances": sum(len(v) for v in by_id.values()),
        "undecided": undecided[:50],
        "proof_lost": proof_lost,
        "checker_cmd": f"bin/check {prop} --tier {a.tier}",
        "trusted_base": assumptions + ["A-PYSEM: ast->z3 encoding of the Python/NumPy subset (pyvc/symex.py)", "A-SOLVER: z3 5.1 / cvc5 sound on the queries posed"],
        "functions_under_contract": [f for u in units for f in u.functions],
        "functions_outside_subset": [{"function": f, "reason": r} for f, r in outside],
        "extraction_drops": extract.DROPPED,
        "backends": backends,
        "solver_seconds": round(solver_s, 2),
        "vc_wall_s": round(vc_wall, 2),
        "canaries": [{"id": c.id, "verdict": c.verdict} for u in units for c in u.canaries],
        "known_findings_active": [k["id"] for k in active],
        "samples": samples,
        "notes": [n for u in units for n in u.notes] + ((sres or {}).get("notes", [])),
        "explanation": _explanation(prop, n_ids, n_proved, outside, sres),
    }
    if sres:
        cov.update({
            "evaluations": max(1, sres["evaluations"]),
            "distinct_nontrivial": max(sres["distinct_nontrivial"], 0),
            "rule": "BOUNDED stand-in (never counted as proved): " + sres["rule"],
            "bound": sres["bound"],
            "standin_known_hits": sres.get("known_hits", {}),
            "standin_wall_s": sres["wall_s"],
        })
    ev = {
        "property_id": prop, "tier": a.tier, "seed": seed, "level": level, "coverage": cov,
        "assumptions": assumptions, "wall_s": round(time.time() - t0, 2), "violations": len(violations),
    }
    # evidence/ only ever holds runs against /repo itself; a run against a scratch copy (VERIF_REPO=...) writes elsewhere
    # (a partial run - developer flags --no-vc / --no-standin - writes elsewhere too: evidence/ describes complete runs only)
    full = not (a.no_vc or a.no_standin)
    evdir = os.path.join(HERE, "evidence") if full and os.path.realpath(os.environ.get("VERIF_REPO", "/repo")) == "/repo" else os.path.join(HERE, "out", "evidence_scratch")
    os.makedirs(evdir, exist_ok=True)
    ev["coverage"]["tree"] = os.environ.get("VERIF_REPO", "/repo")
    with open(os.path.join(evdir, prop + ".json"), "w") as f:
        json.dump(ev, f, indent=1, default=str)

    # ---- 6. verdict ----------------------------------------------------------------------------
    print(f"{prop} [{a.tier}] obligations={n_ids} discharged={n_proved} undecided={len(undecided)} outside_subset={len(outside)} "
          f"standin_evals={(sres or {}).get('evaluations', 0)} standin_failures={len((sres or {}).get('failures', []))} wall={ev['wall_s']}s")
    for oid in undecided[:10]:
        print(f"UNDECIDED obligation={oid} (not a violation)")
    for f_, r in outside:
        print(f"OUTSIDE-SUBSET {f_}: {r} (stand-in only)")
    if fault:
        for x in fault:
            print("CHECKER-FAULT " + x)
        return 3
    if violations:
        for text, path, nofail in violations[:20]:
            print(f"VIOLATION property={prop} replay={path}" + (" no-failing-input-found" if nofail else ""))
            print("  " + text[:400])
        return 1
    return 0


def _claimed_level(prop):
    try:
        m = json.load(open(os.path.join(HERE, "MANIFEST.json")))
        for c in m["checks"]:
            if c["property_id"] == prop:
                return c["level_claimed"]["category"]
    except Exception:
        pass
    return "other"


def _explanation(prop, n_ids, n_proved, outside, sres):
    parts = [f"{n_proved} of {n_ids} named obligations (pre/postconditions, loop invariants, asserts, index and division "
             f"well-definedness, callee preconditions) generated from the current source were discharged by the SMT back end "
             f"for all inputs, with no bound."]
    if outside:
        parts.append(f"{len(outside)} function(s) were outside the verified subset and are decided by the bounded stand-in only.")
    if sres:
        parts.append(f"The bounded stand-in (runtime contracts on the real functions; NOT proof) executed {sres['evaluations']} cases: {sres['bound']}")
    return " ".join(parts)


if __name__ == "__main__":
    sys.exit(main())

"""Helpers for sidecar contracts: building symbolic entry states, library contracts (assumed,
listed by id in DESIGN.md section 3) and spec functions."""
import z3

from . import symex
from .symex import Arr, Mat, Obj, Opaque, Prod, Root, Row, SeqVal, SpecFn, State, Z, Zb, fresh, lib, simp, to_real, Outside

I, R, B = z3.IntSort(), z3.RealSort(), z3.BoolSort()
A = z3.ArraySort(I, R)


def sym(name, sort="int"):
    """entry symbols keep their plain name (so models are readable); locals are freshened"""
    return {"int": z3.Int, "real": z3.Real, "bool": z3.Bool, "str": z3.String}[sort](name)


def mk_obj(st, var, cls, fields):
    o = Obj(cls, var)
    st.env[var] = o
    for k, v in fields.items():
        if isinstance(v, str) and v in ("int", "real", "bool", "str"):
            v = sym(f"{var}.{k}", v)
        st.fields[(var, k)] = v
    return o


def mk_array(st, name, length, owner=None, dtype="float64", content=None):
    if content is None:
        content = z3.Array(name + "@", I, R)
    rid = name
    st.heap[rid] = Root(length, content, dtype, owner or ("param:" + name))
    return Arr(rid, 0, 1, length)


def uf(name, *sorts):
    return z3.Function(name, *sorts)


# ---- uninterpreted real functions with the axioms actually used (A-MATH) ---------------------
LN = uf("ln", R, R)
EXP = uf("exp", R, R)
SQRT = uf("sqrt", R, R)
INNER = uf("inner", A, I, I, A, I, I, I, R)  # (content_a, off_a, step_a, content_b, off_b, step_b, n)


EXP2 = uf("exp2", R, R)
LOG2 = uf("log2", R, R)


def math_axioms():
    """A-MATH: the facts about exp/ln (and 2**x / log2) the proofs use: mutually inverse, strictly increasing,
    exp positive. Quantified with single-term triggers."""
    x, y = z3.Reals("mx my")
    out = []
    for E, Lg in ((EXP, LN), (EXP2, LOG2)):
        out += [
            z3.ForAll([x], Lg(E(x)) == x, patterns=[E(x)]),
            z3.ForAll([x], z3.Implies(x > 0, E(Lg(x)) == x), patterns=[Lg(x)]),
            z3.ForAll([x], E(x) > 0, patterns=[E(x)]),
            z3.ForAll([x, y], z3.Implies(x < y, E(x) < E(y)), patterns=[z3.MultiPattern(E(x), E(y))]),
            z3.ForAll([x, y], z3.Implies(z3.And(0 < x, x < y), Lg(x) < Lg(y)), patterns=[z3.MultiPattern(Lg(x), Lg(y))]),
        ]
    return out


@lib("pow2")
def _pow2(ex, st, args, kwargs, node, ev):
    ex.assumption_ids.add("A-MATH")
    return EXP2(to_real(args[0]))


@lib("np.log2")
def _np_log2(ex, st, args, kwargs, node, ev):
    ex.assumption_ids.add("A-MATH")
    ev.wd(to_real(args[0]) > 0, "log_domain", node)
    return LOG2(to_real(args[0]))


def arr_args(st, a):
    return (st.heap[a.root].content, Z(a.off), z3.IntVal(a.step))


@lib("np.log")
def _np_log(ex, st, args, kwargs, node, ev):
    (a,) = args
    ex.assumption_ids.add("A-MATH")
    if getattr(ex.contract, "log_domain_wd", False):
        ev.wd(to_real(a) > 0, "log_domain", node)
    return LN(to_real(a))


@lib("np.exp")
def _np_exp(ex, st, args, kwargs, node, ev):
    (a,) = args
    ex.assumption_ids.add("A-MATH")
    return EXP(to_real(a))


@lib("np.sqrt")
def _np_sqrt(ex, st, args, kwargs, node, ev):
    (a,) = args
    ex.assumption_ids.add("A-MATH")
    return SQRT(to_real(a))


@lib("np.inner")
def _np_inner(ex, st, args, kwargs, node, ev):
    a, b = args
    if not (isinstance(a, Arr) and isinstance(b, Arr)):
        raise Outside("np.inner of non-arrays")
    ev.wd(Z(a.n) == Z(b.n), "inner_len", node)
    ex.assumption_ids.add("A-NP-RED")
    return INNER(*arr_args(st, a), *arr_args(st, b), Z(a.n))


@lib("np.empty")
def _np_empty(ex, st, args, kwargs, node, ev):
    shape = args[0]
    dtype = kwargs.get("dtype", args[1] if len(args) > 1 else None)
    dt = dtype.term if isinstance(dtype, Opaque) else "float64"
    if isinstance(shape, (tuple, list)):
        if len(shape) == 2:
            ev.wd(z3.And(Z(shape[0]) >= 0, Z(shape[1]) >= 0), "shape_nonneg", node)
            return Mat("m%d" % next(symex._fresh), shape[0], shape[1], dt)
        if len(shape) == 1:
            shape = shape[0]
        else:
            raise Outside("np.empty of rank > 2")
    ev.wd(Z(shape) >= 0, "shape_nonneg", node)
    return st.new_root(shape, None, dt, "fresh", "empty")  # contents are havoc (uninitialised)


@lib("np.zeros")
def _np_zeros(ex, st, args, kwargs, node, ev):
    shape = args[0]
    dtype = kwargs.get("dtype", args[1] if len(args) > 1 else None)
    dt = dtype.term if isinstance(dtype, Opaque) else "float64"
    if isinstance(shape, (tuple, list)):
        if len(shape) == 2:
            ev.wd(z3.And(Z(shape[0]) >= 0, Z(shape[1]) >= 0), "shape_nonneg", node)
            m = Mat("z%d" % next(symex._fresh), shape[0], shape[1], dt)
            m.zero = True
            return m
        shape = shape[0]
    ev.wd(Z(shape) >= 0, "shape_nonneg", node)
    return st.new_root(shape, z3.K(I, z3.RealVal(0)), dt, "fresh", "zeros")


REFLECT = uf("reflect", I, I, I)  # numpy 'symmetric' periodic reflection of index j into [0, n)


def reflect_axioms():
    j, n = z3.Ints("rj rn")
    r = REFLECT(j, n)
    return [
        z3.ForAll([j, n], z3.Implies(z3.And(n > 0, j >= 0, j < n), r == j), patterns=[r]),
        z3.ForAll([j, n], z3.Implies(z3.And(n > 0, j < 0, j >= -n), r == -j - 1), patterns=[r]),
        z3.ForAll([j, n], z3.Implies(z3.And(n > 0, j >= n, j < 2 * n), r == 2 * n - 1 - j), patterns=[r]),
        z3.ForAll([j, n], z3.Implies(n > 0, z3.And(r >= 0, r < n)), patterns=[r]),
    ]


@lib("np.pad")
def _np_pad(ex, st, args, kwargs, node, ev):
    """A-NP-PAD: np.pad(a, (l, r), 'symmetric')[k] = a[reflect(k - l, len a)]; l, r >= 0;
    an empty `a` can only be padded by (0, 0)."""
    a, widths, mode = args[0], args[1], args[2] if len(args) > 2 else kwargs.get("mode")
    if not isinstance(a, Arr) or mode != "symmetric" or not isinstance(widths, (tuple, list)) or len(widths) != 2:
        raise Outside("np.pad outside the modelled form")
    l, r = widths
    ex.assumption_ids.add("A-NP-PAD")
    ev.wd(z3.And(Z(l) >= 0, Z(r) >= 0), "pad_nonneg", node)
    ev.wd(z3.Or(Z(a.n) > 0, z3.And(Z(l) == 0, Z(r) == 0)), "pad_empty", node)
    src = st.heap[a.root].content
    k = z3.Int("k!%d" % next(symex._fresh))
    content = z3.Lambda([k], z3.Select(src, Z(a.off) + a.step * REFLECT(k - Z(l), Z(a.n))))
    for ax in reflect_axioms():
        if not any(ax.eq(b) for b in ex.axioms):
            ex.axioms.append(ax)
    return st.new_root(simp(Z(l) + Z(a.n) + Z(r)), content, st.heap[a.root].dtype, "fresh", "pad")


@lib("np.concatenate")
def _np_concatenate(ex, st, args, kwargs, node, ev):
    parts = args[0]
    if not isinstance(parts, (list, tuple)) or not all(isinstance(p, Arr) for p in parts):
        raise Outside("np.concatenate of non 1-D views")
    ex.assumption_ids.add("A-NP-CAT")
    k = z3.Int("k!%d" % next(symex._fresh))
    total = z3.IntVal(0)
    expr = z3.RealVal(0)
    pieces = []
    for p in parts:
        pieces.append((total, p))
        total = total + Z(p.n)
    # build nested ite from the last part backwards
    expr = z3.RealVal(0)
    for start, p in reversed(pieces):
        expr = z3.If(k >= start, z3.Select(st.heap[p.root].content, Z(p.off) + p.step * (k - start)), expr) if False else expr
    # forward chain: k < end_0 ? part0 : k < end_1 ? part1 : ...
    expr = None
    for start, p in reversed(pieces):
        sel = z3.Select(st.heap[p.root].content, Z(p.off) + p.step * (k - start))
        expr = sel if expr is None else z3.If(k < start + Z(p.n), sel, expr)
    content = z3.Lambda([k], expr)
    return st.new_root(simp(total), content, st.heap[parts[0].root].dtype, "fresh", "cat")


def elementwise(st, fn, *operands, name="ew", dtype="float64"):
    """fresh array whose element k is fn(operand values at k); array operands must have equal lengths (checked by the caller),
    scalars are broadcast"""
    arrs = [o for o in operands if isinstance(o, Arr)]
    n = arrs[0].n
    k = z3.Int("k!%d" % next(symex._fresh))
    vals = [z3.Select(st.heap[o.root].content, o.idx(k)) if isinstance(o, Arr) else to_real(o) for o in operands]
    return st.new_root(n, z3.Lambda([k], fn(*vals)), dtype, "fresh", name)

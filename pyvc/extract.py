"""Mechanical extraction of the functions under contract from the repository source.

Nothing is imported from the repository: files under $VERIF_REPO/src/pydrobert/speech are
read and parsed with `ast` on every run, functions are located by qualified name
(`Class.method`, `func.<locals>.inner`), and module-level constants / literal tables are
evaluated from their AST. What extraction drops is stated in DROPPED and copied into every
evidence file.
"""
import ast
import hashlib
import os

DROPPED = (
    "docstrings; type annotations; decorators (@property, @classmethod, @abc.*, @torch.*, "
    "kaldi logging decorators); `del` statements; logger.* / warnings.warn calls (kept as "
    "events only where a property mentions a warning); the config.USE_FFTPACK branches "
    "(SciPy is absent, so USE_FFTPACK is False; asserted at run time)"
)


def repo_path():
    return os.environ.get("VERIF_REPO", "/repo")


def module_file(mod):
    return os.path.join(repo_path(), "src", "pydrobert", "speech", mod + ".py")


_cache = {}


def module_ast(mod):
    path = module_file(mod)
    key = (path, os.path.getmtime(path))
    if key not in _cache:
        src = open(path).read()
        _cache[key] = (src, ast.parse(src, filename=path))
    return _cache[key]


class Extracted:
    def __init__(self, mod, qualname, node, src, cls=None):
        self.mod, self.qualname, self.node, self.cls = mod, qualname, node, cls
        self.segment = ast.get_source_segment(src, node)
        self.sha256 = hashlib.sha256(self.segment.encode()).hexdigest()
        self.lineno = node.lineno

    @property
    def id(self):
        return f"{self.mod}:{self.qualname}"

    def describe(self):
        return {"function": self.id, "line": self.lineno, "sha256": self.sha256[:16]}


def _find(body, name, kinds):
    for n in body:
        if isinstance(n, kinds) and n.name == name:
            return n
        # functions defined inside try: blocks at module level (command_line.py)
        if isinstance(n, ast.Try):
            r = _find(n.body, name, kinds)
            if r is not None:
                return r
    return None


def get_function(mod, qualname) -> Extracted:
    src, tree = module_ast(mod)
    parts = [p for p in qualname.split(".") if p != "<locals>"]
    body, node, cls = tree.body, None, None
    for i, p in enumerate(parts):
        node = _find(body, p, (ast.FunctionDef, ast.ClassDef))
        if node is None:
            raise KeyError(f"{mod}:{qualname}: '{p}' not found")
        if isinstance(node, ast.ClassDef):
            cls = node
        body = node.body
    if not isinstance(node, ast.FunctionDef):
        raise KeyError(f"{mod}:{qualname} is not a function")
    return Extracted(mod, qualname, node, src, cls)


def get_class(mod, name):
    src, tree = module_ast(mod)
    node = _find(tree.body, name, (ast.ClassDef,))
    if node is None:
        raise KeyError(f"{mod}:{name}")
    return node


def module_constants(mod):
    """Evaluate simple module-level assignments (numbers, strings, tuples, chained and tuple
    targets, `1 << X`, np.array([...literal...]) as a list) in order; unknown ones are skipped."""
    src, tree = module_ast(mod)
    env = {}

    def ev(n):
        if isinstance(n, ast.Constant):
            return n.value
        if isinstance(n, ast.Name):
            return env[n.id]
        if isinstance(n, (ast.Tuple, ast.List)):
            return type(()) if False else [ev(e) for e in n.elts]
        if isinstance(n, ast.Set):
            return set(ev(e) for e in n.elts)
        if isinstance(n, ast.UnaryOp) and isinstance(n.op, ast.USub):
            return -ev(n.operand)
        if isinstance(n, ast.BinOp):
            a, b = ev(n.left), ev(n.right)
            ops = {ast.Add: lambda: a + b, ast.Sub: lambda: a - b, ast.Mult: lambda: a * b, ast.LShift: lambda: a << b,
                   ast.Div: lambda: a / b, ast.FloorDiv: lambda: a // b, ast.Pow: lambda: a ** b, ast.BitOr: lambda: a | b}
            return ops[type(n.op)]()
        if isinstance(n, ast.Call) and isinstance(n.func, ast.Attribute) and n.func.attr == "array" and n.args:
            return ev(n.args[0])
        raise ValueError(ast.dump(n)[:80])

    def bind(t, v):
        if isinstance(t, ast.Name):
            env[t.id] = v
        elif isinstance(t, (ast.Tuple, ast.List)):
            for tt, vv in zip(t.elts, v):
                bind(tt, vv)

    for n in tree.body:
        if isinstance(n, ast.Assign):
            try:
                v = ev(n.value)
            except Exception:
                continue
            for t in n.targets:
                bind(t, v)
        elif isinstance(n, ast.AnnAssign) and n.value is not None and isinstance(n.target, ast.Name):
            try:
                env[n.target.id] = ev(n.value)
            except Exception:
                pass
    return env


def class_aliases():
    """{(module, class): (bases, aliases-set)} for every class in the repository modules,
    read from the source."""
    out = {}
    for mod in ("alias", "scales", "filters", "compute", "pre", "post"):
        src, tree = module_ast(mod)
        for n in tree.body:
            if isinstance(n, ast.ClassDef):
                al = None
                for st in n.body:
                    tgt = None
                    if isinstance(st, ast.Assign) and len(st.targets) == 1 and isinstance(st.targets[0], ast.Name):
                        tgt, val = st.targets[0].id, st.value
                    elif isinstance(st, ast.AnnAssign) and isinstance(st.target, ast.Name) and st.value is not None:
                        tgt, val = st.target.id, st.value
                    if tgt == "aliases":
                        if isinstance(val, ast.Set):
                            al = set(e.value for e in val.elts)
                        elif isinstance(val, ast.Call):
                            al = set()
                bases = [b.id if isinstance(b, ast.Name) else ast.unparse(b) for b in n.bases]
                out[(mod, n.name)] = (bases, al)
    return out


class ExtractedSlice(Extracted):
    """a contiguous group of statements of a function, selected mechanically by an AST predicate; everything else of the
    function is DROPPED (stated in the evidence) - used for long script-like functions (the two command-line tools)"""

    def __init__(self, base: Extracted, stmts, description):
        self.mod, self.qualname, self.cls = base.mod, base.qualname + "#" + description, base.cls
        self.base = base
        src = module_ast(base.mod)[0]
        self.node = ast.FunctionDef(name=base.node.name, args=base.node.args, body=list(stmts), decorator_list=[], returns=None, type_comment=None,
                                    lineno=base.node.lineno, col_offset=0)
        ast.fix_missing_locations(self.node)
        self.node.lineno = base.node.lineno
        self.segment = "\n".join(ast.get_source_segment(src, s) or "" for s in stmts)
        self.sha256 = hashlib.sha256(self.segment.encode()).hexdigest()
        self.lineno = base.node.lineno
        self.description = description

    def describe(self):
        d = super().describe()
        d["slice"] = self.description + " (all other statements of the function are dropped)"
        return d


def get_slice(mod, qualname, selector, description) -> ExtractedSlice:
    base = get_function(mod, qualname)
    stmts = selector(base.node)
    if not stmts:
        raise KeyError(f"{mod}:{qualname}: no statements match the slice '{description}' (contract drift)")
    return ExtractedSlice(base, stmts, description)


BENIGN_DECORATORS = {"property", "classmethod", "staticmethod", "abc.abstractmethod", "abc.abstractproperty", "abstractmethod", "torch.jit.unused",
                     "torch.no_grad()", "torch.jit.script_if_tracing", "torch.jit.export", "torch.jit.ignore", "kaldi_vlog_level_cmd_decorator",
                     "kaldi_logger_decorator"}


def odd_decorators(fx):
    """decorators of the extracted function (or of the function a slice was cut from) that are not known to leave the result of a call
    alone: the extraction DROPS decorators, so such a function must not be reported as verified"""
    node = getattr(getattr(fx, "base", None), "node", None) or getattr(fx, "node", None)
    decs = [ast.unparse(d) for d in getattr(node, "decorator_list", [])]
    return [d for d in decs if d not in BENIGN_DECORATORS and not d.endswith(".setter")]

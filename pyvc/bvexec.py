"""Guarded-unrolling bit-vector executor for the shorten bit reader (nested functions of _sphere.copy_shortened_samples).

The functions `uvar_get`, `var_get` are small integer/bit-manipulation routines with `while True/break` loops whose trip counts are
bounded by the code length. They are interpreted from their AST into ONE loop-free z3 bit-vector formula by executing every
statement under an activity guard (assignments become If(guard, new, old); `break` clears the guard of its loop; loops are unrolled
a fixed number of times and an *unwinding assertion* states that no further iteration was possible). Python ints are modelled as
64-bit two's-complement vectors, which is exact here: every value stays below 2^63 under the stated precondition (unary run
length q <= QMAX, field width <= 32), the only negative values are the sign-extended 32-bit words delivered by struct.unpack('>l'),
`>>` is arithmetic in both, and all reads of a word go through masks of at most 32 bits. `word_get()` is the stream: the k-th
call returns the k-th symbolic 32-bit word (sign-extended), A-IO-STREAM; running out of words is outside the precondition.
`masktab` is evaluated concretely from the statements that build it in the enclosing function.
"""
import ast

import z3

W = 64


class BVOutside(Exception):
    pass


def bv(x):
    return x if z3.is_bv(x) else z3.BitVecVal(int(x), W)


class BVExec:
    def __init__(self, consts, words, masktab, unroll):
        self.consts, self.words, self.masktab, self.unroll = consts, words, masktab, unroll
        self.env = {}
        self.wi = z3.BitVecVal(0, W)  # number of words consumed
        self.unwinding = []  # conditions that must be false (a loop wanted to continue beyond its unrolling)
        self.break_guards = []
        self.loop_no = 0

    # ---- stream ----------------------------------------------------------------------------------
    def word_get(self, guard):
        e = z3.SignExt(W - 32, self.words[-1])
        for i in range(len(self.words) - 2, -1, -1):
            e = z3.If(self.wi == i, z3.SignExt(W - 32, self.words[i]), e)
        self.unwinding.append(z3.And(guard, z3.UGE(self.wi, len(self.words))))  # ran out of the window: outside the precondition
        self.wi = z3.If(guard, self.wi + 1, self.wi)
        return e

    # ---- expressions -----------------------------------------------------------------------------
    def ev(self, n, guard):
        if isinstance(n, ast.Constant):
            if isinstance(n.value, bool):
                return z3.BoolVal(n.value)
            if isinstance(n.value, int):
                return z3.BitVecVal(n.value, W)
            raise BVOutside("constant")
        if isinstance(n, ast.Name):
            if n.id in self.env:
                return self.env[n.id]
            if n.id in self.consts:
                return z3.BitVecVal(self.consts[n.id], W)
            raise BVOutside(f"name {n.id}")
        if isinstance(n, ast.Attribute):
            key = ast.unparse(n)
            if key in self.env:
                return self.env[key]
            raise BVOutside(f"attribute {key}")
        if isinstance(n, ast.Call):
            f = ast.unparse(n.func)
            if f == "word_get" and not n.args:
                return self.word_get(guard)
            raise BVOutside(f"call {f}")
        if isinstance(n, ast.Subscript) and isinstance(n.value, ast.Name) and n.value.id == "masktab":
            i = self.ev(n.slice, guard)
            e = z3.BitVecVal(self.masktab[-1], W)
            for k in range(len(self.masktab) - 2, -1, -1):
                e = z3.If(i == k, z3.BitVecVal(self.masktab[k], W), e)
            self.unwinding.append(z3.And(guard, z3.Not(z3.ULT(i, len(self.masktab)))))  # IndexError
            return e
        if isinstance(n, ast.BinOp):
            a, b = bv(self.ev(n.left, guard)), bv(self.ev(n.right, guard))
            op = type(n.op)
            if op is ast.Add:
                return a + b
            if op is ast.Sub:
                return a - b
            if op is ast.BitAnd:
                return a & b
            if op is ast.BitOr:
                return a | b
            if op is ast.BitXor:
                return a ^ b
            if op is ast.LShift:
                self.unwinding.append(z3.And(guard, z3.Not(z3.ULT(b, W))))
                return a << b
            if op is ast.RShift:
                self.unwinding.append(z3.And(guard, z3.Not(z3.ULT(b, W))))
                return a >> b  # arithmetic, as Python's on negative ints
            raise BVOutside(f"operator {op.__name__}")
        if isinstance(n, ast.UnaryOp):
            v = self.ev(n.operand, guard)
            if isinstance(n.op, ast.Not):
                return z3.Not(self.truth(v))
            if isinstance(n.op, ast.Invert):
                return ~bv(v)
            if isinstance(n.op, ast.USub):
                return -bv(v)
        if isinstance(n, ast.Compare) and len(n.ops) == 1:
            a, b = bv(self.ev(n.left, guard)), bv(self.ev(n.comparators[0], guard))
            op = type(n.ops[0])
            return {ast.GtE: lambda: a >= b, ast.Gt: lambda: a > b, ast.LtE: lambda: a <= b, ast.Lt: lambda: a < b,
                    ast.Eq: lambda: a == b, ast.NotEq: lambda: a != b}[op]()
        raise BVOutside(f"expression {type(n).__name__}")

    def truth(self, v):
        return v if z3.is_bool(v) else (v != 0)

    # ---- statements ------------------------------------------------------------------------------
    def assign(self, target, val, guard):
        key = target.id if isinstance(target, ast.Name) else ast.unparse(target)
        val = bv(val)
        old = self.env.get(key)
        self.env[key] = val if old is None else z3.If(guard, val, old)

    def run(self, stmts, guard):
        """executes stmts under guard; returns the guard under which control falls through (not broken / returned)"""
        for s in stmts:
            if isinstance(s, ast.Assign) and len(s.targets) == 1:
                self.assign(s.targets[0], self.ev(s.value, guard), guard)
            elif isinstance(s, ast.AugAssign):
                cur = self.ev(ast.parse(ast.unparse(s.target), mode="eval").body, guard)
                val = self.ev(ast.BinOp(left=ast.parse(ast.unparse(s.target), mode="eval").body, op=s.op, right=s.value), guard)
                self.assign(s.target, val, guard)
            elif isinstance(s, ast.If):
                c = self.truth(self.ev(s.test, guard))
                g1 = self.run(s.body, z3.And(guard, c))
                g2 = self.run(s.orelse, z3.And(guard, z3.Not(c)))
                guard = z3.Or(g1, g2)
            elif isinstance(s, ast.Break):
                self.break_guards[-1].append(guard)
                guard = z3.BoolVal(False)
            elif isinstance(s, ast.Return):
                self.assign(ast.Name(id="__return"), self.ev(s.value, guard), guard)
                self.env["__returned"] = z3.Or(self.env.get("__returned", z3.BoolVal(False)), guard)
                guard = z3.BoolVal(False)
            elif isinstance(s, ast.While):
                act = guard
                k = self.unroll[self.loop_no] if isinstance(self.unroll, list) else self.unroll
                self.loop_no += 1
                self.break_guards.append([])
                for _ in range(k):
                    c = self.truth(self.ev(s.test, act))
                    act = self.run(s.body, z3.And(act, c))
                # unwinding assertion: after the unrolled iterations the loop cannot continue
                c = self.truth(self.ev(s.test, act))
                self.unwinding.append(z3.And(act, c))
                self.break_guards.pop()
                # every path that was active before the loop has left it (by its test or by `break`), given the unwinding assertion
            elif isinstance(s, (ast.Expr, ast.Pass)):
                pass
            else:
                raise BVOutside(f"statement {type(s).__name__}")
        return guard
